(* C14 — "Emitted DDL quotes every identifier and honours the schema": the property as a Prop over the
   token stream the dialect's lexer reads back, a boolean decider applied to the implementation's output,
   and the exact model-vs-implementation comparison. *)
From Coq Require Import List NArith Bool Arith Lia.
From AV Require Export Base.ListSet Model.Quote Model.C14Reserved Model.Visitors Model.C14Ops.
Import ListNotations.
Open Scope N_scope.

(* ------------------------------------------------------------------ what the statement must read back as *)

(* the token a name is expected to come back as: a quoted_name(..., quote=True) is an identifier that is always
   quoted; for every other name the dialect's rules decide (quote=False does not change what the name IS) *)
Definition ident_token_f (q:qspec) (f:qflag) (s:str) : token :=
  match f with QTrue => QIdent s | _ => ident_token q s end.

(* a plain-str schema "a.b" stands for the identifier chain a . b (quote_dotted); a quoted_name schema is ONE identifier *)
Definition schema_tokens (q:qspec) (f:qflag) (sc:option str) : list token :=
  match schema_given sc with
  | Some s => match f with
              | Plain => flat_map (fun p => [ident_token q p; Punct 46]) (split_dot s)
              | _ => [ident_token_f q f s; Punct 46]
              end
  | None => []
  end.

(* NTable is a reference to an existing table: the given schema must qualify it whatever the visitor does;
   NNewTable is the new name in a rename, whose qualification is the visitor's (dialect syntax's) choice *)
Definition is_ref (n:nslot) : bool := match n with NTable => true | _ => false end.

Definition table_tokens (q:qspec) (e:env) (n:nslot) (sch:bool) : list token :=
  (if sch || is_ref n then schema_tokens q (sflag e) (e_schema e) else []) ++ [ident_token_f q (flag e n) (slot e n)].

Definition total (o:option str) : str := match o with Some s => s | None => [] end.

(* intended (unescaped) content of a string literal *)
Definition inner_expected (q:qspec) (e:env) (ip:bool * ipiece) : str :=
  match snd ip with
  | IKw t => t
  | ITbl n sch => total (format_table_name q (flag e n) (slot e n) (sflag e) (schema_if e (sch || is_ref n)))
  | ICol n => total (format_column_name q (flag e n) (slot e n))
  | IRaw n => slot e n
  | IRawSchemaDot => schema_dot e
  end.

Definition piece_tokens (q:qspec) (e:env) (p:piece) : list token :=
  match p with
  | Kw t => lex q t
  | Tbl n sch => table_tokens q e n sch
  | TblSA n => table_tokens q e n true           (* the same expectation whoever formats the reference *)
  | Col n => [ident_token_f q (flag e n) (slot e n)]
  | RawName n => [ident_token_f q (flag e n) (slot e n)]       (* a name in the statement must be an identifier token *)
  | StrLit ps => [SLit (concat (map (inner_expected q e) ps))]
  | Opaque i => lex q (opq e i)
  | Fail _ => []
  end.

Definition expected_tokens (q:qspec) (e:env) (v:list piece) : list token := flat_map (piece_tokens q e) v.

Definition is_fail (p:piece) : bool := match p with Fail _ => true | _ => false end.
Definition raises (v:list piece) : bool := existsb is_fail v.

(* ------------------------------------------------------------------ what the property does not speak about *)

(* SQLAlchemy's format_table (used by the MySQL DROP CHECK visitor) quotes a plain dotted schema "a.b" as the single
   identifier `a.b`, where alembic's own helpers emit the chain a.b — see C14_outside_sa_dotted_schema *)
Definition is_tblsa (p:piece) : bool := match p with TblSA _ => true | _ => false end.
Definition nodot_schema (e:env) : bool :=
  match sflag e, schema_given (e_schema e) with
  | Plain, Some s => negb (memN 46 s)
  | _, _ => true
  end.
Definition sa_ok (v:list piece) (e:env) : bool := negb (existsb is_tblsa v) || nodot_schema e.

(* quoted_name(.., quote=False) is the caller's explicit opt-out: the dialect's rule for such a name IS to emit it raw.
   When the name would need quotes the statement then does not read back as that name; the property, which quantifies
   over identifier strings quoted "whenever the name requires it", does not judge that case. *)
Definition unq_name_ok (q:qspec) (f:qflag) (s:str) : bool :=
  match f with
  | QFalse => match requires_quotes q s with Some false => true | _ => false end
  | _ => true
  end.
Definition unq_ok (q:qspec) (e:env) : bool :=
  unq_name_ok q (flag e NTable) (e_table e) && unq_name_ok q (flag e NNewTable) (e_newtable e)
  && unq_name_ok q (flag e NColumn) (e_column e) && unq_name_ok q (flag e NNewColumn) (e_newcolumn e)
  && match schema_given (e_schema e) with Some s => unq_name_ok q (sflag e) s | None => true end.

(* the two classes the property leaves open (model and exact comparison still cover them, the decider does not judge):
   a forced-unquoted name that needs quotes; a plain dotted schema rendered by SQLAlchemy's format_table (MySQL has no
   three-part names: `db.sch`.t is a legitimate reading, and which reading is "expected" is not fixed by the property) *)
Definition judged (i:c14_in) : bool :=
  let '(d, c, e) := i in sa_ok (visitor d c) e && unq_ok (qspec_of d) e.

(* every emitted statement tokenises, with the dialect's rules, into exactly the expected tokens — in particular
   each name comes back as the identifier token of that very name or inside the intended string literal, and the
   schema chain precedes every table reference — both as compiled and as written in as_sql mode *)
Definition C14_strict (i:c14_in) (o:c14_out) : Prop :=
  let '(d, c, e) := i in
  let q := qspec_of d in
  match o with
  | OutErr _ => True
  | OutSql sql off =>
      raises (visitor d c) = false /\
      lex q sql = expected_tokens q e (visitor d c) /\
      lex q off = expected_tokens q e (visitor d c) ++ lex q (offline_tail d)
  end.

Definition C14_holds (i:c14_in) (o:c14_out) : Prop := judged i = true -> C14_strict i o.

Definition check_strict (i:c14_in) (o:c14_out) : bool :=
  let '(d, c, e) := i in
  let q := qspec_of d in
  match o with
  | OutErr _ => true
  | OutSql sql off =>
      negb (raises (visitor d c)) &&
      tokens_eqb (lex q sql) (expected_tokens q e (visitor d c)) &&
      tokens_eqb (lex q off) (expected_tokens q e (visitor d c) ++ lex q (offline_tail d))
  end.

Definition check_stmt (i:c14_in) (o:c14_out) : bool := negb (judged i) || check_strict i o.

(* ------------------------------------------------------------------ cases of the correspondence *)

Inductive c14_case :=
| CaseStmt (d:dialect) (c:construct) (e:env)
| CaseQuote (d:dialect) (f:qflag) (s:str)  (* dialect.identifier_preparer.quote(s or quoted_name(s, flag)) *)
| CaseParams (d:dialect)                   (* the IdentifierPreparer parameters themselves *)
| CaseOp (d:dialect) (o:op) (n:names) (opqs:list (list str)).
   (* a real Operations call in as_sql mode; opqs = the opaque texts of each construct it hands to _exec, in order *)

Inductive c14_obs :=
| ObsStmt (o:c14_out)
| ObsQuote (r:option str)                  (* None = IndexError *)
| ObsParams (op cl:N) (dblpct:bool) (reserved:list str) (illegal_initial:list N)
            (legal_rs changing_rs space_rs : list (N * N))
| ObsOp (steps:list ostep) (raised:option c14_err).
   (* maximal runs of: code points matching legal_characters; those of them changed by str.lower(); str.isspace() ones *)

Definition ranges_eqb (a b:list (N * N)) : bool :=
  list_eqb (fun x y => (fst x =? fst y) && (snd x =? snd y)) a b.

(* wire compression only: the as_sql text is given as (length of its common prefix with the compiled text, the rest) *)
Definition out_sql_pre (compiled:str) (k:nat) (suffix:str) : c14_out := OutSql compiled (firstn k compiled ++ suffix).

Definition err_eqb (a b:c14_err) : bool :=
  match a, b with
  | EIndex, EIndex | ENotImplemented, ENotImplemented | ECompile, ECompile | EAssert, EAssert
  | ECommand, ECommand | EOther, EOther => true
  | _, _ => false
  end.

Definition out_eqb (a b:c14_out) : bool :=
  match a, b with
  | OutSql x y, OutSql x' y' => str_eqb x x' && str_eqb y y'
  | OutErr x, OutErr y => err_eqb x y
  | _, _ => false
  end.

Definition opt_str_eqb (a b:option str) : bool :=
  match a, b with
  | Some x, Some y => str_eqb x y
  | None, None => true
  | _, _ => false
  end.

Definition construct_eqb (a b:construct) : bool :=
  match a, b with
  | CRenameTable, CRenameTable | CDropColumn, CDropColumn | CColumnType, CColumnType | CColumnName, CColumnName
  | CComputedDefault, CComputedDefault | CIdentityDrop, CIdentityDrop | CIdentityAdd, CIdentityAdd
  | CMssqlDropConstraint, CMssqlDropConstraint | CMssqlDropFK, CMssqlDropFK
  | CMysqlDropCheck, CMysqlDropCheck | CMysqlDropGeneric, CMysqlDropGeneric => true
  | CForeign FSetTableComment, CForeign FSetTableComment | CForeign FDropTableComment, CForeign FDropTableComment
  | CForeign FSetColumnComment, CForeign FSetColumnComment => true
  | CIdentityAlter x, CIdentityAlter y =>
      list_eqb (fun a b => match a, b with Some u, Some v => Bool.eqb u v | None, None => true | _, _ => false end) x y
  | CAddColumn x, CAddColumn y | CColumnNullable x, CColumnNullable y | CColumnDefault x, CColumnDefault y
  | CColumnComment x, CColumnComment y | CPgColumnType x, CPgColumnType y | CPgExclude x, CPgExclude y
  | CMysqlAlterDefault x, CMysqlAlterDefault y => Bool.eqb x y
  | CMysqlModify a1 a2 a3 a4, CMysqlModify b1 b2 b3 b4 | CMysqlChange a1 a2 a3 a4, CMysqlChange b1 b2 b3 b4 =>
      Bool.eqb a1 b1 && Bool.eqb a2 b2 && Bool.eqb a3 b3 && Bool.eqb a4 b4
  | _, _ => false
  end.

(* the observed step gives "" for a name that is not an attribute of the construct: then nothing is compared *)
Definition attr_eqb (model observed:str) : bool := match observed with [] => true | _ => str_eqb model observed end.

Definition ostep_eqb (m o:ostep) : bool :=
  construct_eqb (o_c m) (o_c o) && str_eqb (o_table m) (o_table o) && attr_eqb (o_column m) (o_column o)
  && opt_str_eqb (schema_given (o_schema m)) (schema_given (o_schema o))
  && attr_eqb (o_newname m) (o_newname o) && attr_eqb (o_newtable m) (o_newtable o)
  && out_eqb (o_out m) (o_out o).

Definition opt_err_eqb (a b:option c14_err) : bool :=
  match a, b with Some x, Some y => err_eqb x y | None, None => true | _, _ => false end.

Definition corr_C14 (c:c14_case) (o:c14_obs) : bool :=
  match c, o with
  | CaseStmt d k e, ObsStmt out => out_eqb (emit_stmt (d, k, e)) out
  | CaseQuote d f s, ObsQuote r => opt_str_eqb (quote_f (qspec_of d) f s) r
  | CaseParams d, ObsParams op cl dbl rs ii lg ch sp =>
      let q := qspec_of d in
      (q_open q =? op) && (q_close q =? cl) && Bool.eqb (q_dblpct q) dbl
      && list_eqb str_eqb (q_reserved q) rs && list_eqb N.eqb (q_illegal_initial q) ii
      && ranges_eqb legal_ranges lg && ranges_eqb lower_changing_ranges ch && ranges_eqb space_ranges sp
  | CaseOp d o n opqs, ObsOp steps raised =>
      let '(msteps, mraised) := run_op d o n opqs in
      list_eqb ostep_eqb msteps steps && opt_err_eqb mraised raised
  | _, _ => false
  end.

(* an operation: every statement it emitted must read back as expected for the names and the schema OF THE OPERATION,
   whatever names the impl put into the construct *)
Definition op_env (n:names) (opq:list str) : env :=
  mkEnv (n_schema n) (n_table n) (n_newtable n) (n_column n) (n_newcolumn n) opq (n_flags n).

Fixpoint check_steps (d:dialect) (n:names) (opqs:list (list str)) (steps:list ostep) : bool :=
  match steps with
  | [] => true
  | s :: r => check_stmt (d, o_c s, op_env n (hd [] opqs)) (o_out s) && check_steps d n (tl opqs) r
  end.

Fixpoint steps_hold (d:dialect) (n:names) (opqs:list (list str)) (steps:list ostep) : Prop :=
  match steps with
  | [] => True
  | s :: r => C14_holds (d, o_c s, op_env n (hd [] opqs)) (o_out s) /\ steps_hold d n (tl opqs) r
  end.

(* the decider on the implementation's output: statements must read back as expected; a quoted identifier
   must read back as the identifier itself *)
Definition check_C14 (c:c14_case) (o:c14_obs) : bool :=
  match c, o with
  | CaseStmt d k e, ObsStmt out => check_stmt (d, k, e) out
  | CaseQuote d f s, ObsQuote (Some t) =>
      negb (unq_name_ok (qspec_of d) f s) || tokens_eqb (lex (qspec_of d) t) [ident_token_f (qspec_of d) f s]
  | CaseQuote _ _ _, ObsQuote None => true
  | CaseParams _, ObsParams _ _ _ _ _ _ _ _ => true
  | CaseOp d o n opqs, ObsOp steps _ => check_steps d n opqs steps
  | _, _ => false
  end.

(* ------------------------------------------------------------------ the class the theorems cover *)

Definition notab (t:str) : bool := forallb (fun c => negb (c =? 9)) t.
Definition tok_nospace (t:token) : bool := match t with Punct c => negb (py_space c) | _ => true end.
Definition end_st (q:qspec) (t:str) : lstate := snd (run_st q LNormal t).
Definition pending (st:lstate) : bool :=
  match st with LNormal | LWord _ | LQuotedClose _ | LStringClose _ => true | _ => false end.

(* names on which SQLAlchemy's quote() itself does not round-trip (or raises), or that _exec rewrites, are outside;
   see the _refuted theorems *)
Definition last_is (c:N) (s:str) : bool := match rev s with x :: _ => x =? c | [] => false end.
Definition name_ok (q:qspec) (s:str) : bool :=
  match s with [] => false | _ => true end
  && negb (q_dblpct q && memN 37 s)        (* '%' is doubled by _escape_identifier for format/pyformat paramstyles *)
  && negb (last_is 10 s)                   (* `$` of legal_characters matches before a trailing newline *)
  && notab s.                              (* _exec replaces every tab of the statement in as_sql mode *)

(* quoted_name(s, quote=False) is emitted raw whatever s is: only names that need no quotes are in the class *)
Definition name_ok_f (q:qspec) (f:qflag) (s:str) : bool := name_ok q s && unq_name_ok q f s.

Definition schema_ok (q:qspec) (f:qflag) (sc:option str) : bool :=
  match schema_given sc with
  | Some s => match f with Plain => forallb (name_ok q) (split_dot s) | _ => name_ok_f q f s end
  | None => true
  end.

(* a text produced by SQLAlchemy (type, default, comment literal, ...) must be lexically closed (it ends outside
   quotes and literals), contain no tab, and no white space other than ASCII white space outside quotes *)
Definition opaque_ok (q:qspec) (t:str) : bool :=
  pending (end_st q t) && notab t && forallb tok_nospace (lex q t).

Definition env_ok (q:qspec) (e:env) : bool :=
  schema_ok q (sflag e) (e_schema e) && name_ok_f q (flag e NTable) (e_table e) && name_ok_f q (flag e NNewTable) (e_newtable e)
  && name_ok_f q (flag e NColumn) (e_column e) && name_ok_f q (flag e NNewColumn) (e_newcolumn e)
  && forallb (opaque_ok q) (e_opq e).


(* ------------------------------------------------------------------ well-formed visitors *)

(* the quote characters of the dialect are not themselves identifier characters, ', . or white space *)
Definition qspec_wf (q:qspec) : bool :=
  negb (legal (q_open q)) && negb (q_open q =? 39) && negb (q_open q =? 46) && negb (q_close q =? 46)
  && negb (py_space (q_open q)) && negb (py_space (q_close q)).

(* a character that ends whatever token is pending *)
Definition strong_sep (q:qspec) (c:N) : bool := negb (legal c) && negb (c =? q_close q) && negb (c =? 39).
Definition starts_sep (q:qspec) (t:str) : bool := match t with c :: _ => strong_sep q c | [] => false end.

(* what may follow a name for it to read back on its own: nothing, or a separator *)
Definition sep_ok (q:qspec) (rest:str) : Prop := rest = [] \/ starts_sep q rest = true.

Definition is_normal (st:option lstate) : bool := match st with Some LNormal => true | _ => false end.

(* boundary discipline: a name, literal or opaque text starts where the lexer is in its Normal state (after
   alembic's own text ending in white space or punctuation) and is followed by alembic's own text starting with a
   separator (or by the end of the statement); the abstract state is `Some st` after a Kw, `None` = pending otherwise *)
Fixpoint wf_go (q:qspec) (st:option lstate) (v:list piece) : bool :=
  match v with
  | [] => true
  | Kw [] :: r => wf_go q st r
  | Kw t :: r => (is_normal st || starts_sep q t) && pending (end_st q t) && wf_go q (Some (end_st q t)) r
  | Fail _ :: _ => true
  | _ :: r => is_normal st && wf_go q None r
  end.

Definition inner_wf (ip:bool * ipiece) : bool :=
  match snd ip with
  | IKw t => notab t && (fst ip || negb (memN 39 t))
  | ITbl n sch => fst ip && (sch || negb (is_ref n))
  | ICol _ | IRaw _ | IRawSchemaDot => fst ip
  end.

(* a raw reference to the existing table inside a literal is preceded by the raw schema prefix *)
Fixpoint raw_refs_qualified (prev_dot:bool) (ps:list (bool * ipiece)) : bool :=
  match ps with
  | [] => true
  | ip :: r => match snd ip with
               | IRaw NTable => prev_dot && raw_refs_qualified false r
               | IRawSchemaDot => raw_refs_qualified true r
               | _ => raw_refs_qualified false r
               end
  end.

Definition piece_wf (q:qspec) (p:piece) : bool :=
  match p with
  | Kw t => notab t && forallb tok_nospace (lex q t)
  | Tbl n sch => sch || negb (is_ref n)          (* the schema qualifies every reference to the existing table *)
  | TblSA _ => true
  | Col _ => true
  | StrLit ps => negb (q_bslash q) && forallb inner_wf ps && raw_refs_qualified false ps
  | RawName _ => false                            (* no name is pasted unquoted *)
  | Opaque _ => true
  | Fail _ => true
  end.

Definition visitor_wf (q:qspec) (v:list piece) : bool :=
  qspec_wf q && wf_go q (Some LNormal) v && forallb (piece_wf q) v.

(* ------------------------------------------------------------------ the property on a whole correspondence case *)

Definition C14_case_holds (c:c14_case) (o:c14_obs) : Prop :=
  match c, o with
  | CaseStmt d k e, ObsStmt out => C14_holds (d, k, e) out
  | CaseQuote d f s, ObsQuote (Some t) =>
      unq_name_ok (qspec_of d) f s = true -> lex (qspec_of d) t = [ident_token_f (qspec_of d) f s]
  | CaseQuote _ _ _, ObsQuote None => True
  | CaseParams _, ObsParams _ _ _ _ _ _ _ _ => True
  | CaseOp d o n opqs, ObsOp steps _ => steps_hold d n opqs steps
  | _, _ => False
  end.

Definition model_C14 (c:c14_case) : c14_obs :=
  match c with
  | CaseStmt d k e => ObsStmt (emit_stmt (d, k, e))
  | CaseQuote d f s => ObsQuote (quote_f (qspec_of d) f s)
  | CaseParams d => let q := qspec_of d in
                    ObsParams (q_open q) (q_close q) (q_dblpct q) (q_reserved q) (q_illegal_initial q)
                              legal_ranges lower_changing_ranges space_ranges
  | CaseOp d o n opqs => let '(steps, raised) := run_op d o n opqs in ObsOp steps raised
  end.

Definition inclass_C14 (c:c14_case) : bool :=
  match c with
  | CaseStmt d k e => env_ok (qspec_of d) e && sa_ok (visitor d k) e
  | CaseQuote d f s => name_ok_f (qspec_of d) f s
  | CaseParams _ => true
  | CaseOp d o n opqs => forallb (fun opq => env_ok (qspec_of d) (op_env n opq)) ([] :: opqs)
  end.
