(* C08 — the property as a Prop and as a decider applied to the implementation's observable output, the
   model's output on the same input, the exact comparison, and the class the theorems cover. *)
From Coq Require Import String.
From AV Require Export Model.Render.

(* ---------------------------------------------------------------- boolean equalities *)
Definition option_eqb {A} (e:A -> A -> bool) (a b : option A) : bool :=
  match a, b with Some x, Some y => e x y | None, None => true | _, _ => false end.
Definition strs_eqb := list_eqb str_eqb.

(* string leaves are compared by content: the parsed text has no record of how a literal was produced *)
Fixpoint pyexpr_eqb (a b : pyexpr) {struct a} : bool :=
  let fix go (x y : list pyexpr) {struct x} : bool :=
    match x with
    | [] => match y with [] => true | _ => false end
    | u :: x' => match y with [] => false | v :: y' => pyexpr_eqb u v && go x' y' end
    end in
  match a, b with
  | PCall p x, PCall q y => strs_eqb p q && go x y
  | PKw k v, PKw k' v' => str_eqb k k' && pyexpr_eqb v v'
  | PStr _ s, PStr _ s' => str_eqb s s'
  | PBool x, PBool y => Bool.eqb x y
  | PNone, PNone => true
  | PInt n d, PInt n' d' => Bool.eqb n n' && str_eqb d d'
  | PList x, PList y => go x y
  | PTuple x, PTuple y => go x y
  | _, _ => false
  end.
Fixpoint pyexprs_eqb (x y : list pyexpr) : bool :=
  match x with
  | [] => match y with [] => true | _ => false end
  | u :: x' => match y with [] => false | v :: y' => pyexpr_eqb u v && pyexprs_eqb x' y' end
  end.
Definition pystmt_eqb (a b : pystmt) : bool :=
  match a, b with
  | SExpr x, SExpr y => pyexpr_eqb x y
  | SWith x bx, SWith y by_ => pyexpr_eqb x y && pyexprs_eqb bx by_
  | _, _ => false
  end.

Definition ident_eqb (a b : ident) : bool := str_eqb (i_s a) (i_s b) && option_eqb Bool.eqb (i_q a) (i_q b).
Definition cname_eqb (a b : cname) : bool :=
  match a, b with
  | NoName, NoName => true
  | Plain x, Plain y => ident_eqb x y
  | Conv x, Conv y => str_eqb x y
  | _, _ => false
  end.
Definition tymod_eqb (a b : tymod) : bool :=
  match a, b with TySa, TySa => true | TyDialect x, TyDialect y => str_eqb x y | _, _ => false end.
Definition tytok_eqb (a b : tytok) : bool :=
  tymod_eqb (ty_mod a) (ty_mod b) && strs_eqb (ty_path a) (ty_path b) && pyexprs_eqb (ty_args a) (ty_args b).
Definition pint_eqb (a b : pint) : bool := Bool.eqb (fst a) (fst b) && str_eqb (snd a) (snd b).
Definition opint_eqb := option_eqb pint_eqb.
Definition identity_eqb (a b : identity) : bool :=
  option_eqb Bool.eqb (id_always a) (id_always b) && option_eqb Bool.eqb (id_on_null a) (id_on_null b)
  && opint_eqb (id_start a) (id_start b) && opint_eqb (id_increment a) (id_increment b) && opint_eqb (id_minvalue a) (id_minvalue b)
  && opint_eqb (id_maxvalue a) (id_maxvalue b) && option_eqb Bool.eqb (id_nominvalue a) (id_nominvalue b)
  && option_eqb Bool.eqb (id_nomaxvalue a) (id_nomaxvalue b) && option_eqb Bool.eqb (id_cycle a) (id_cycle b)
  && opint_eqb (id_cache a) (id_cache b) && option_eqb Bool.eqb (id_order a) (id_order b).
Definition sdefault_eqb (a b : sdefault) : bool :=
  match a, b with
  | SdStr x, SdStr y | SdText x, SdText y => str_eqb x y
  | SdComputed x p, SdComputed y q => str_eqb x y && option_eqb Bool.eqb p q
  | SdIdentity x, SdIdentity y => identity_eqb x y
  | SdFetched, SdFetched => true
  | _, _ => false
  end.
Definition ostr_eqb := option_eqb str_eqb.
Definition obool_eqb := option_eqb Bool.eqb.
Definition oident_eqb := option_eqb ident_eqb.
Definition idents_eqb := list_eqb ident_eqb.

Definition column_eqb (a b : column) : bool :=
  ident_eqb (c_name a) (c_name b) && tytok_eqb (c_type a) (c_type b) && option_eqb sdefault_eqb (c_default a) (c_default b)
  && obool_eqb (c_autoinc a) (c_autoinc b) && Bool.eqb (c_nullable a) (c_nullable b) && Bool.eqb (c_system a) (c_system b)
  && ostr_eqb (c_comment a) (c_comment b) && ostr_eqb (c_key a) (c_key b).
Definition refcol_eqb (a b : refcol) : bool := strs_eqb (rf_tokens a) (rf_tokens b) && ostr_eqb (rf_named a) (rf_named b).
Definition tcons_eqb (a b : tcons) : bool :=
  match a, b with
  | CPk c n, CPk c' n' => idents_eqb c c' && cname_eqb n n'
  | CFk c r n ou od i d ua m, CFk c' r' n' ou' od' i' d' ua' m' =>
      idents_eqb c c' && list_eqb refcol_eqb r r' && cname_eqb n n' && ostr_eqb ou ou' && ostr_eqb od od' && ostr_eqb i i'
      && obool_eqb d d' && Bool.eqb ua ua' && ostr_eqb m m'
  | CUq c n d i, CUq c' n' d' i' => idents_eqb c c' && cname_eqb n n' && obool_eqb d d' && ostr_eqb i i'
  | CCk s n, CCk s' n' => str_eqb s s' && cname_eqb n n'
  | _, _ => false
  end.
Definition table_eqb (a b : table) : bool :=
  ident_eqb (t_name a) (t_name b) && oident_eqb (t_schema a) (t_schema b) && list_eqb column_eqb (t_cols a) (t_cols b)
  && list_eqb tcons_eqb (t_cons a) (t_cons b) && ostr_eqb (t_comment a) (t_comment b) && strs_eqb (t_prefixes a) (t_prefixes b)
  && obool_eqb (t_if_not_exists a) (t_if_not_exists b).
Definition ixexpr_eqb (a b : ixexpr) : bool :=
  match a, b with IxCol x k, IxCol y k' => ident_eqb x y && ostr_eqb k k' | IxExpr x, IxExpr y => str_eqb x y | _, _ => false end.
Definition tri_eqb {A} (e:A -> A -> bool) (a b : tri A) : bool :=
  match a, b with Keep, Keep | SetNone, SetNone => true | SetTo x, SetTo y => e x y | _, _ => false end.
Definition altercol_eqb (a b : altercol) : bool :=
  ident_eqb (a_col a) (a_col b) && option_eqb tytok_eqb (a_existing_type a) (a_existing_type b)
  && tri_eqb sdefault_eqb (a_server_default a) (a_server_default b) && oident_eqb (a_new_name a) (a_new_name b)
  && option_eqb tytok_eqb (a_type a) (a_type b) && obool_eqb (a_nullable a) (a_nullable b)
  && tri_eqb str_eqb (a_comment a) (a_comment b) && ostr_eqb (a_existing_comment a) (a_existing_comment b)
  && obool_eqb (a_existing_nullable a) (a_existing_nullable b) && obool_eqb (a_autoincrement a) (a_autoincrement b)
  && option_eqb sdefault_eqb (a_existing_server_default a) (a_existing_server_default b).
Definition fkop_eqb (a b : fkop) : bool :=
  cname_eqb (f_name a) (f_name b) && ident_eqb (f_referent a) (f_referent b) && idents_eqb (f_local a) (f_local b)
  && idents_eqb (f_remote a) (f_remote b) && ostr_eqb (f_source_schema a) (f_source_schema b)
  && ostr_eqb (f_referent_schema a) (f_referent_schema b) && ostr_eqb (f_onupdate a) (f_onupdate b)
  && ostr_eqb (f_ondelete a) (f_ondelete b) && ostr_eqb (f_initially a) (f_initially b)
  && obool_eqb (f_deferrable a) (f_deferrable b) && obool_eqb (f_use_alter a) (f_use_alter b) && ostr_eqb (f_match a) (f_match b).
Definition ixkw_eqb (a b : ixkw) : bool :=
  ostr_eqb (k_using a) (k_using b) && ostr_eqb (k_where a) (k_where b) && obool_eqb (k_conc a) (k_conc b).
Definition tbl_op_eqb (a b : tbl_op) : bool :=
  match a, b with
  | OAddColumn x, OAddColumn y => column_eqb x y
  | ODropColumn x, ODropColumn y => ident_eqb x y
  | OAlterColumn x, OAlterColumn y => altercol_eqb x y
  | OCreateIndex n e u i k, OCreateIndex n' e' u' i' k' => cname_eqb n n' && list_eqb ixexpr_eqb e e' && obool_eqb u u' && obool_eqb i i' && ixkw_eqb k k'
  | ODropIndex n i st k, ODropIndex n' i' st' k' => cname_eqb n n' && obool_eqb i i' && Bool.eqb st st' && ixkw_eqb k k'
  | OCreateUnique n c d i, OCreateUnique n' c' d' i' => cname_eqb n n' && idents_eqb c c' && obool_eqb d d' && ostr_eqb i i'
  | OCreateFk x, OCreateFk y => fkop_eqb x y
  | ODropConstraint n t, ODropConstraint n' t' => cname_eqb n n' && oident_eqb t t'
  | OCreateTableComment c e, OCreateTableComment c' e' => ostr_eqb c c' && ostr_eqb e e'
  | ODropTableComment e, ODropTableComment e' => ostr_eqb e e'
  | _, _ => false
  end.
Definition member_eqb (a b : ident * option ident * tbl_op) : bool :=
  ident_eqb (fst (fst a)) (fst (fst b)) && oident_eqb (snd (fst a)) (snd (fst b)) && tbl_op_eqb (snd a) (snd b).
Definition top_op_eqb (a b : top_op) : bool :=
  match a, b with
  | TCreateTable x, TCreateTable y => table_eqb x y
  | TExecute x, TExecute y => str_eqb x y
  | TOpaque, TOpaque => true
  | TDropTable n s i t, TDropTable n' s' i' t' => ident_eqb n n' && oident_eqb s s' && obool_eqb i i' && Bool.eqb t t'
  | TOp t s o, TOp t' s' o' => member_eqb (t, s, o) (t', s', o')
  | TModify t s l, TModify t' s' l' => ident_eqb t t' && oident_eqb s s' && list_eqb member_eqb l l'
  | _, _ => false
  end.
Definition ops_eqb := list_eqb top_op_eqb.

Definition is_opaque (o:top_op) : bool := match o with TOpaque => true | _ => false end.

(* ---------------------------------------------------------------- input, output, model *)
Definition c08_in := (cfg * list top_op)%type.
(* o_parsed: the rendered text parsed by CPython's ast (None = SyntaxError);
   o_exec: the operation objects invoked when the text is executed under Operations (None = it raised);
   o_sql_same: executing the text and invoking the operation objects emit the same SQL on every dialect;
   o_imports: autogen_context.imports after the rendering (the dialect names of its  from sqlalchemy.dialects import <d>
              lines; the harness encodes any other line as itself, which is never a dialect name).
   The text is executed in a namespace that holds the two configured module names and what o_imports binds -- nothing else. *)
Record c08_out := mkOut { o_parsed : option (list pystmt); o_exec : option (list top_op); o_sql_same : bool;
                          o_imports : list str }.

(* CreateTableOp.to_table builds the referred table of an inline ForeignKey from ForeignKey._get_colspec(), which names the
   referred column by its KEY: invoked directly, such an operation emits REFERENCES t2 (<key>), while the rendered code, where
   _fk_colspec has translated the key into the database name, emits REFERENCES t2 (<name>).  fk_by_name: no referred column
   of the operation has a name different from its key spec (then both paths agree). *)
Definition ref_by_name (r:refcol) : bool := match rf_named r with Some n => str_eqb n (last (rf_tokens r) []) | None => true end.
Definition cons_by_name (k:tcons) : bool := match k with CFk _ refs _ _ _ _ _ _ _ => forallb ref_by_name refs | _ => true end.
Definition fk_by_name (o:top_op) : bool := match o with TCreateTable t => forallb cons_by_name (t_cons t) | _ => true end.

Definition model_C08 (i:c08_in) : c08_out :=
  let (c, ops) := i in
  let st := render_ops c ops in
  let imps := render_imports ops in
  let ev := eval_in c imps st in
  mkOut (Some st) ev (match ev with Some l => ops_eqb l (expected c ops) && forallb fk_by_name ops | None => false end) imps.

(* an input that contains an operation outside the modelled universe carries no model statement: there the comparison is
   vacuous and only the decider speaks (such an input is never in the class: can_top TOpaque = false) *)
Definition set_eqb (a b : list str) : bool := forallb (fun x => memb x b) a && forallb (fun x => memb x a) b.
Definition corr_C08 (i:c08_in) (o:c08_out) : bool :=
  existsb is_opaque (snd i) ||
  let m := model_C08 i in
  option_eqb (list_eqb pystmt_eqb) (o_parsed m) (o_parsed o)
  && option_eqb ops_eqb (o_exec m) (o_exec o)
  && Bool.eqb (o_sql_same m) (o_sql_same o)
  && set_eqb (o_imports m) (o_imports o).

(* ---------------------------------------------------------------- naming conventions
   SQLAlchemy passes a plain constraint / index name through the convention of its MetaData again when the convention
   has a %(constraint_name)s token; a conv() name, which is what op.f(...) produces, is final.  So under such a
   convention Plain s and Conv s name different objects, otherwise the same one. *)
Definition name_key (nc:bool) (n:cname) : N * str :=
  match n with NoName => (0%N, []) | Plain i => ((if nc then 1 else 2)%N, i_s i) | Conv s => (2%N, s) end.
Definition tcons_name (k:tcons) : cname :=
  match k with CPk _ n | CUq _ n _ _ | CCk _ n => n | CFk _ _ n _ _ _ _ _ _ => n end.
Definition tbl_op_names (o:tbl_op) : list cname :=
  match o with
  | OCreateIndex n _ _ _ _ | OCreateUnique n _ _ _ | ODropConstraint n _ => [n]
  | ODropIndex n _ st _ =>      (* an index the convention leaves alone: its plain name is as final as a conv() one *)
      [if st then n else match n with Plain i => Conv (i_s i) | x => x end]
  | OCreateFk f => [f_name f]
  | _ => []
  end.
Definition top_names (o:top_op) : list cname :=
  match o with
  | TCreateTable t => map tcons_name (t_cons t)
  | TDropTable _ _ _ _ | TExecute _ | TOpaque => []
  | TOp _ _ o => tbl_op_names o
  | TModify _ _ ops => flat_map (fun m => tbl_op_names (snd m)) ops
  end.
Definition key_eqb (a b : N * str) : bool := N.eqb (fst a) (fst b) && str_eqb (snd a) (snd b).
Definition names_agree (nc:bool) (a b : list top_op) : bool :=
  list_eqb key_eqb (map (name_key nc) (flat_map top_names a)) (map (name_key nc) (flat_map top_names b)).

(* ---------------------------------------------------------------- the property *)
Definition exec_names_ok (i:c08_in) (o:c08_out) : bool :=
  match o_exec o with Some l => names_agree (cfg_nc (fst i)) l (expected (fst i) (snd i)) | None => true end.
(* the rendered text itself, read back the way the Operations proxies read it IN THE NAMESPACE OF THE GENERATED FILE (the two
   configured module names and the imports that were collected, eval_in: no free names), denotes the operations that were
   asked for (key-erased): a keyword argument or a character of a literal that goes missing in the text is a different
   operation, a dialect module that is used but not imported is a NameError.
   Inputs outside the modelled universe (TOpaque) have no such statement. *)
Definition reads_back (i:c08_in) (o:c08_out) : bool :=
  existsb is_opaque (snd i) ||
  match o_parsed o with
  | Some st => match eval_in (fst i) (o_imports o) st with Some l => ops_eqb l (expected (fst i) (snd i)) | None => false end
  | None => false
  end.
Definition C08_holds (i:c08_in) (o:c08_out) : Prop :=
  (exists st, o_parsed o = Some st) /\ o_sql_same o = true /\ exec_names_ok i o = true /\ reads_back i o = true.
Definition check_C08 (i:c08_in) (o:c08_out) : bool :=
  match o_parsed o with Some _ => o_sql_same o && exec_names_ok i o && reads_back i o | None => false end.

(* ---------------------------------------------------------------- the class the theorems cover *)
Definition nonempty (s:str) : bool := match s with [] => false | _ => true end.
Definition can_ident (i:ident) : bool := match i_q i with None => true | Some _ => false end.
Definition can_oident (i:option ident) : bool := match i with None => true | Some x => can_ident x && nonempty (i_s x) end.
Definition can_ostr (s:option str) : bool := match s with Some [] => false | _ => true end.
Definition can_cname (n:cname) : bool :=
  match n with NoName => true | Plain i => can_ident i && nonempty (i_s i) | Conv s => nonempty s end.
Definition can_ty (c:cfg) (t:tytok) : bool :=
  match ty_mod t with TySa => true | TyDialect d => negb (str_eqb d (cfg_sa c)) end.
Definition can_sd (d:sdefault) : bool :=
  match d with SdStr s => str_eqb (strip_quotes s) s | _ => true end.
Definition can_column (c:cfg) (x:column) : bool :=
  can_ident (c_name x) && can_ty c (c_type x) && match c_default x with Some d => can_sd d | None => true end
  && can_ostr (c_comment x).
Definition nonempty_list {A} (l:list A) : bool := match l with [] => false | _ => true end.
Definition can_tcons (k:tcons) : bool :=
  match k with
  | CPk cols n => nonempty_list cols && forallb can_ident cols && can_cname n
  | CFk cols _ n ou od i d _ m =>
      forallb can_ident cols && can_cname n && can_ostr ou && can_ostr od && can_ostr i && can_ostr m
  | CUq cols n d i => forallb can_ident cols && can_cname n && can_ostr i
  | CCk _ n => can_cname n
  end.
Definition can_table (c:cfg) (t:table) : bool :=
  can_ident (t_name t) && can_oident (t_schema t) && forallb (can_column c) (t_cols t) && forallb can_tcons (t_cons t)
  && can_ostr (t_comment t).
Definition can_ixexpr (e:ixexpr) : bool := match e with IxCol i _ => can_ident i | IxExpr _ => true end.
Definition can_tri {A} (f:A -> bool) (t:tri A) : bool := match t with SetTo a => f a | _ => true end.
Definition is_keep {A} (t:tri A) : bool := match t with Keep => true | _ => false end.
Definition is_none {A} (o:option A) : bool := match o with None => true | Some _ => false end.
Definition can_alter (c:cfg) (a:altercol) : bool :=
  can_ident (a_col a) && match a_existing_type a with Some t => can_ty c t | None => true end
  && can_tri can_sd (a_server_default a) && match a_new_name a with Some i => can_ident i | None => true end
  && match a_type a with Some t => can_ty c t | None => true end
  && (is_none (a_nullable a) || is_none (a_existing_nullable a))
  && match a_existing_server_default a with Some d => can_sd d && is_keep (a_server_default a) | None => true end.
Definition can_tbl_op (c:cfg) (tn:ident) (schema:option ident) (o:tbl_op) : bool :=
  can_ident tn && can_oident schema &&
  match o with
  | OAddColumn x => can_column c x
  | ODropColumn i => can_ident i
  | OAlterColumn a => can_alter c a
  | OCreateIndex n e u _ _ => can_cname n && forallb can_ixexpr e && negb (is_none u)
  | ODropIndex n _ st _ => can_cname n && st
  | OCreateUnique n cols d i => can_cname n && forallb can_ident cols && can_ostr i
  | OCreateFk f => can_cname (f_name f) && can_ident (f_referent f) && forallb can_ident (f_local f) && forallb can_ident (f_remote f)
                   && oident_eqb schema (option_map (fun x => mkId x None) (f_source_schema f))
  | ODropConstraint n t => can_cname n && can_oident t
  | OCreateTableComment _ _ | ODropTableComment _ => true
  end.
Definition can_top (c:cfg) (o:top_op) : bool :=
  match o with
  | TCreateTable t => can_table c t
  | TDropTable n s _ ty => can_ident n && can_oident s && negb ty
  | TExecute _ => true
  | TOpaque => false
  | TOp tn s o => can_tbl_op c tn s o
  | TModify tn s ops =>
      can_ident tn && match s with Some i => can_ident i | None => true end
      && forallb (fun m => can_tbl_op c (fst (fst m)) (snd (fst m)) (snd m)) ops
      && (negb (cfg_batch c) || forallb (fun m => ident_eqb (fst (fst m)) tn && oident_eqb (snd (fst m)) s) ops)
  end.
Definition canonical (i:c08_in) : bool := forallb (can_top (fst i)) (snd i).
(* the constraints of a table are a set: the real renderer emits them sorted by their rendered text, direct invocation in
   declaration order.  Both comparisons are insensitive to that order (the harness sorts the constraint arguments of a parsed
   create_table call and the clauses of CREATE TABLE by one canonical key on both sides): the order has no effect. *)

(* the opaque type trees given to the model *)
Definition ty_ok (t:tytok) : bool := forallb all_leaves_via_repr (ty_args t).
Definition oty_ok (t:option tytok) : bool := match t with Some t => ty_ok t | None => true end.
Definition col_ty_ok (x:column) : bool := ty_ok (c_type x).
Definition tbl_op_ty_ok (o:tbl_op) : bool :=
  match o with
  | OAddColumn x => col_ty_ok x
  | OAlterColumn a => oty_ok (a_existing_type a) && oty_ok (a_type a)
  | _ => true
  end.
Definition top_ty_ok (o:top_op) : bool :=
  match o with
  | TCreateTable t => forallb col_ty_ok (t_cols t)
  | TDropTable _ _ _ _ | TExecute _ | TOpaque => true
  | TOp _ _ o => tbl_op_ty_ok o
  | TModify _ _ ops => forallb (fun m => tbl_op_ty_ok (snd m)) ops
  end.


(* well-formed inputs: identifiers of the configuration and of the opaque type trees are Python identifiers,
   every string is a sequence of code points *)
Definition wf_cfg (c:cfg) : bool := valid_ident (cfg_op c) && valid_ident (cfg_sa c).
Definition wf_id (i:ident) : bool := valid_strb (i_s i).
Definition wf_oid (i:option ident) : bool := match i with Some x => wf_id x | None => true end.
Definition wf_ostr (s:option str) : bool := match s with Some x => valid_strb x | None => true end.
Definition wf_cname (n:cname) : bool := match n with NoName => true | Plain i => wf_id i | Conv s => valid_strb s end.
Definition wf_ty (t:tytok) : bool :=
  forallb valid_ident (ty_path t) && match ty_mod t with TySa => true | TyDialect d => valid_ident d end && forallb wf_expr (ty_args t).
Definition wf_oty (t:option tytok) : bool := match t with Some x => wf_ty x | None => true end.
Definition wf_opint (x:option pint) : bool := match x with Some p => valid_digits (snd p) | None => true end.
Definition wf_identity (i:identity) : bool :=
  wf_opint (id_start i) && wf_opint (id_increment i) && wf_opint (id_minvalue i) && wf_opint (id_maxvalue i) && wf_opint (id_cache i).
Definition wf_sd (d:sdefault) : bool :=
  match d with SdStr s | SdText s | SdComputed s _ => valid_strb s | SdIdentity i => wf_identity i | SdFetched => true end.
Definition wf_osd (d:option sdefault) : bool := match d with Some x => wf_sd x | None => true end.
Definition wf_column (x:column) : bool := wf_id (c_name x) && wf_ty (c_type x) && wf_osd (c_default x) && wf_ostr (c_comment x).
Definition wf_tcons (k:tcons) : bool :=
  match k with
  | CPk cols n => forallb wf_id cols && wf_cname n
  | CFk cols refs n ou od i _ _ m => forallb wf_id cols && forallb (fun r => valid_strb (ref_text r)) refs && wf_cname n && wf_ostr ou && wf_ostr od && wf_ostr i && wf_ostr m
  | CUq cols n _ i => forallb wf_id cols && wf_cname n && wf_ostr i
  | CCk s n => valid_strb s && wf_cname n
  end.
Definition wf_table (t:table) : bool :=
  wf_id (t_name t) && wf_oid (t_schema t) && forallb wf_column (t_cols t) && forallb wf_tcons (t_cons t) && wf_ostr (t_comment t)
  && forallb valid_strb (t_prefixes t).
Definition wf_ixexpr (e:ixexpr) : bool := match e with IxCol i _ => wf_id i | IxExpr s => valid_strb s end.
Definition wf_tri {A} (f:A -> bool) (t:tri A) : bool := match t with SetTo a => f a | _ => true end.
Definition wf_alter (a:altercol) : bool :=
  wf_id (a_col a) && wf_oty (a_existing_type a) && wf_tri wf_sd (a_server_default a) && wf_oid (a_new_name a) && wf_oty (a_type a)
  && wf_tri valid_strb (a_comment a) && wf_ostr (a_existing_comment a) && wf_osd (a_existing_server_default a).
Definition wf_fk (f:fkop) : bool :=
  wf_cname (f_name f) && wf_id (f_referent f) && forallb wf_id (f_local f) && forallb wf_id (f_remote f) && wf_ostr (f_source_schema f)
  && wf_ostr (f_referent_schema f) && wf_ostr (f_onupdate f) && wf_ostr (f_ondelete f) && wf_ostr (f_initially f) && wf_ostr (f_match f).
Definition wf_ixkw (k:ixkw) : bool := wf_ostr (k_using k) && wf_ostr (k_where k).
Definition wf_tbl_op (tn:ident) (schema:option ident) (o:tbl_op) : bool :=
  wf_id tn && wf_oid schema &&
  match o with
  | OAddColumn x => wf_column x
  | ODropColumn i => wf_id i
  | OAlterColumn a => wf_alter a
  | OCreateIndex n e _ _ k => wf_cname n && forallb wf_ixexpr e && wf_ixkw k
  | ODropIndex n _ _ k => wf_cname n && wf_ixkw k
  | OCreateUnique n cols _ i => wf_cname n && forallb wf_id cols && wf_ostr i
  | OCreateFk f => wf_fk f
  | ODropConstraint n t => wf_cname n && wf_oid t
  | OCreateTableComment c e => wf_ostr c && wf_ostr e
  | ODropTableComment e => wf_ostr e
  end.
Definition wf_top (o:top_op) : bool :=
  match o with
  | TCreateTable t => wf_table t
  | TDropTable n s _ _ => wf_id n && wf_oid s
  | TExecute sql => valid_strb sql
  | TOpaque => true
  | TOp tn s o => wf_tbl_op tn s o
  | TModify tn s ops => wf_id tn && wf_oid s && forallb (fun m => wf_tbl_op (fst (fst m)) (snd (fst m)) (snd m)) ops
  end.
Definition wf_input (i:c08_in) : bool := wf_cfg (fst i) && forallb wf_top (snd i).

(* the hypotheses of the token-level theorem, evaluated per input: the opaque type trees have all their
   leaves via repr (they are SQLAlchemy's repr) and the input is well-formed *)
Definition tokens_class (i:c08_in) : bool := forallb top_ty_ok (snd i) && wf_input i.

Definition inclass_C08 (i:c08_in) : bool := canonical i && forallb fk_by_name (snd i) && tokens_class i.
