From AV Require Export Model.Resolve.
Definition xerr_eqb (a b:xerr) : bool :=
  match a, b with
  | CmdMultipleHeads, CmdMultipleHeads | CmdResolution, CmdResolution | CmdRevision, CmdRevision | CmdRange, CmdRange
  | CmdOther, CmdOther | XRevisionUncaught, XRevisionUncaught | XAssertion, XAssertion | XKey, XKey | XValue, XValue
  | XType, XType | XAttribute, XAttribute | XIndex, XIndex | XOther, XOther | XBadOracle, XBadOracle => true
  | _, _ => false
  end.
Definition elem_eqb (a b:elem) : bool :=
  match a, b with EId x, EId y => streqb x y | EBaseS, EBaseS | ENoneV, ENoneV => true | _, _ => false end.
Fixpoint list_eqb' {A} (e:A->A->bool) (a b:list A) : bool :=
  match a, b with [], [] => true | x::a', y::b' => e x y && list_eqb' e a' b' | _, _ => false end.
Definition optstr_eqb (a b:option str) : bool :=
  match a, b with None, None => true | Some x, Some y => streqb x y | _, _ => false end.
Definition outcome_eqb (a b:outcome) : bool :=
  match a, b with
  | OK l1 e1, OK l2 e2 => optstr_eqb l1 l2 && list_eqb' elem_eqb e1 e2
  | Fail x, Fail y => xerr_eqb x y
  | _, _ => false
  end.
Definition obs_eqb (a b:obs) : bool :=
  outcome_eqb (o_revs a) (o_revs b) && outcome_eqb (o_rev a) (o_rev b) && outcome_eqb (o_num a) (o_num b)
  && outcome_eqb (o_up a) (o_up b) && outcome_eqb (o_down a) (o_down b).
Definition corr_C16 (i:c16_in) (o:c16_out) : bool := list_eqb' obs_eqb (run i) o.
Definition check_C16 (i:c16_in) (o:c16_out) : bool := true.
(* decoder of the harness' compact string literals: little-endian base 256 under a leading 1 *)
Fixpoint dstr_fuel (fuel:nat) (n:N) : str :=
  match fuel with
  | O => []
  | S f => if (n <=? 1)%N then [] else N.modulo n 256 :: dstr_fuel f (N.div n 256)
  end.
Definition dstr (n:N) : str := dstr_fuel (N.size_nat n) n.
