From AV Require Export Model.Resolve.
Definition xerr_eqb (a b:xerr) : bool :=
  match a, b with
  | CmdMultipleHeads, CmdMultipleHeads | CmdResolution, CmdResolution | CmdRevision, CmdRevision | CmdRange, CmdRange
  | CmdOther, CmdOther | XRevisionUncaught, XRevisionUncaught | XAssertion, XAssertion | XKey, XKey | XValue, XValue
  | XType, XType | XAttribute, XAttribute | XIndex, XIndex | XOther, XOther | XBadOracle, XBadOracle => true
  | _, _ => false
  end.
Definition elem_eqb (a b:elem) : bool :=
  match a, b with EId x, EId y => streqb x y | EBaseS, EBaseS | ENoneV, ENoneV => true | _, _ => false end.
Fixpoint list_eqb' {A} (e:A->A->bool) (a b:list A) : bool :=
  match a, b with [], [] => true | x::a', y::b' => e x y && list_eqb' e a' b' | _, _ => false end.
Definition optstr_eqb (a b:option str) : bool :=
  match a, b with None, None => true | Some x, Some y => streqb x y | _, _ => false end.
Definition outcome_eqb (a b:outcome) : bool :=
  match a, b with
  | OK l1 e1, OK l2 e2 => optstr_eqb l1 l2 && list_eqb' elem_eqb e1 e2
  | Fail x, Fail y => xerr_eqb x y
  | _, _ => false
  end.
Definition obs_eqb (a b:obs) : bool :=
  outcome_eqb (o_revs a) (o_revs b) && outcome_eqb (o_rev a) (o_rev b) && outcome_eqb (o_num a) (o_num b)
  && outcome_eqb (o_up a) (o_up b) && outcome_eqb (o_down a) (o_down b).
Definition labels_eqb (a b:str * list str) : bool :=
  streqb (fst a) (fst b) && forallb (fun l => mems l (snd b)) (snd a) && forallb (fun l => mems l (snd a)) (snd b).
Definition corr_C16 (i:c16_in) (o:c16_out) : bool :=
  list_eqb' labels_eqb (c_labels (run i)) (c_labels o) && list_eqb' obs_eqb (c_obs (run i)) (c_obs o).

(* ====================================================================== the reference resolution
   Written from docs/build/tutorial.rst ("Partial Revision Identifiers", "Relative Migration Identifiers")
   and docs/build/branches.rst ("Working with Branch Labels", "More Label Syntaxes", "Branch Dependencies"),
   independently of revision.py: no map of keys, no partial lookup over keys, no regular expression, lineage
   as "one is an ancestor of the other along down_revision". *)

(* --- the documented grammar:  [label@](head|heads|base|name)   |   [label@][head|base|name](+|-)N *)
Inductive rsym := RName (n:str) | RHead | RHeads | RBase.
Record ident := mkIdent { i_lbl : option str; i_sym : option rsym; i_rel : option Z }.

Definition all_word (s:str) : bool := forallb is_word s.
Definition all_digit (s:str) : bool := forallb is_digit s.
Definition classify_word (w:str) : rsym :=
  if streqb w s_head then RHead else if streqb w s_heads then RHeads else if streqb w s_base then RBase else RName w.
Fixpoint dec_val (acc:Z) (s:str) : Z := match s with [] => acc | c :: r => dec_val (acc * 10 + Z.of_N (c - 48))%Z r end.
Definition has_at (s:str) : bool := existsb (N.eqb c_at) s.
Fixpoint cut_at (s:str) : str * str :=                     (* text before / after the first "@" *)
  match s with
  | [] => ([], [])
  | c :: r => if N.eqb c c_at then ([], r) else let (a, b) := cut_at r in (c :: a, b)
  end.
Fixpoint cut_word (s:str) : str * str :=
  match s with
  | c :: r => if is_word c then let (a, b) := cut_word r in (c :: a, b) else ([], s)
  | [] => ([], [])
  end.
Definition parse_tail (lbl:option str) (t:str) : option ident :=
  let (w, rest) := cut_word t in
  match rest with
  | [] => match w with [] => None | _ => Some (mkIdent lbl (Some (classify_word w)) None) end
  | sg :: ds =>
      if is_sign sg && nonempty ds && all_digit ds then
        Some (mkIdent lbl (match w with [] => None | _ => Some (classify_word w) end)
                      (Some (if N.eqb sg c_minus then (- dec_val 0 ds)%Z else dec_val 0 ds)))
      else None
  end.
Definition parse_ident (q:str) : option ident :=
  if has_at q then
    let (l, t) := cut_at q in
    if nonempty l && all_word l && negb (has_at t) &&
       negb (streqb l s_head || streqb l s_heads || streqb l s_base) then parse_tail (Some l) t else None
  else parse_tail None q.

(* --- the history as a graph *)
Definition r_parents (G:list srev) (x:str) : list str := down_of G x.
Definition r_children (G:list srev) (x:str) : list str := map s_id (filter (fun r => mems x (s_down r)) G).
Definition r_is_anc (G:list srev) (x y:str) : bool := mems y (reach (length G) (r_parents G) x).   (* y is x or an ancestor of x *)
Definition r_lineage (G:list srev) (x y:str) : bool := r_is_anc G x y || r_is_anc G y x.
Definition r_heads (G:list srev) : list str := filter (fun x => negb (existsb (fun r => mems x (s_down r)) G)) (ids G).
Definition r_real_heads (G:list srev) : list str :=
  filter (fun x => negb (existsb (fun r => mems x (s_down r) || mems x (s_deps r)) G)) (ids G).
Definition r_bases (G:list srev) : list str := map s_id (filter (fun r => match s_down r with [] => true | _ => false end) G).
Definition r_label_owner (G:list srev) (l:str) : option str :=
  match filter (fun r => mems l (s_labels r)) G with r :: _ => Some (s_id r) | [] => None end.

(* a name: a full id is that revision; a branch label is an alias of the revision that carries it; otherwise it must
   be the start of exactly one revision id.  `within` restricts the candidates of a partial id to a lineage. *)
Definition r_name_in (G:list srev) (within:str -> bool) (n:str) : option str :=
  if mems n (ids G) then Some n
  else match r_label_owner G n with
       | Some x => Some x
       | None => match filter (fun x => startswith x n && within x) (ids G) with [x] => Some x | _ => None end
       end.
Definition r_name (G:list srev) (n:str) : option str := r_name_in G (fun _ => true) n.

Inductive expect :=
| XOK (lbl:option str) (l:list elem)      (* exactly this *)
| XSet (l:list elem)                      (* this set *)
| XMay (l:list elem)                      (* exactly this, or a documented error *)
| XFail                                   (* a documented error *)
| XLoose                                  (* the documentation does not say: anything but an undocumented exception class *)
| XFree.                                  (* not an identifier of the grammar: nothing is claimed *)

(* where an absolute identifier points: a list of revision ids, or an error *)
Definition r_branch (G:list srev) (lbl:option str) : option (str -> bool) :=
  match lbl with
  | None => Some (fun _ => true)
  | Some L => match r_name G L with Some b => Some (r_lineage G b) | None => None end
  end.

Definition r_abs (G:list srev) (lbl:option str) (s:rsym) : option (list str) :=      (* None = error *)
  match s with
  | RBase => Some []
  | RHeads =>
      match lbl with
      | None => Some (r_real_heads G)
      | Some _ => match r_heads G with
                  | [] => Some []
                  | hs => match r_branch G lbl with Some f => Some (filter f hs) | None => None end
                  end
      end
  | RHead =>
      match r_heads G with
      | [] => Some []
      | hs => match r_branch G lbl with
              | Some f => match filter f hs with [] => Some [] | [h] => Some [h] | _ => None end
              | None => None
              end
      end
  | RName n =>
      match r_branch G lbl with
      | None => None
      | Some f => match r_name_in G f n with
                  | Some x => if f x then Some [x] else None
                  | None => None
                  end
      end
  end.

(* get_revision: at most one revision; "base" is None; a label in front of base must exist *)
Definition r_one (G:list srev) (lbl:option str) (s:rsym) : option (option str) :=
  match r_abs G lbl s with
  | Some [] => match r_branch G lbl with Some _ => Some None | None => None end
  | Some [x] => Some (Some x)
  | _ => None
  end.

(* relative walks *)
Fixpoint r_up (G:list srev) (n:nat) (pos:option str) (f:str -> bool) : option (option str) :=
  match n with
  | O => Some pos
  | S n' => match filter f (match pos with Some x => r_children G x | None => r_bases G end) with
            | [c] => r_up G n' (Some c) f
            | _ => None
            end
  end.
Inductive dpos := DRev (x:str) | DBase.
Fixpoint r_down (G:list srev) (n:nat) (pos:dpos) : option dpos :=
  match n with
  | O => Some pos
  | S n' => match pos with
            | DBase => None
            | DRev x => match r_parents G x with
                        | [] => r_down G n' DBase
                        | [p] => r_down G n' (DRev p)
                        | _ => None
                        end
            end
  end.

Definition xids (l:list str) : list elem := map EId l.
Definition xopt (o:option str) : list elem := match o with Some x => [EId x] | None => [ENoneV] end.

(* The lookups get_revisions / get_revision take IDENTIFIERS, not upgrade/downgrade targets: a name is a name whatever
   characters it consists of (an all-digit id such as 0, 0000 or 12 is an id: a positive integer or zero never means
   "relative"); the relative spellings name+N, name-N, +N, -0, label@name-N ... are not identifiers of any revision and
   must be refused.  The one documented exception is a NEGATIVE integer, alone or behind label@, given to the plural
   lookup ("branch@-n -> walk down from heads", used by history ranges): the documentation does not fix its result. *)
Definition ref_revs (G:list srev) (i:ident) : expect :=
  match i_rel i, i_sym i with
  | None, Some s => match r_abs G (i_lbl i) s with
                    | Some l => match s with RHeads => XSet (xids l) | _ => XOK None (xids l) end
                    | None => XFail
                    end
  | Some z, None => if (z <? 0)%Z then XLoose else XFail
  | _, _ => XFail
  end.
Definition ref_rev (G:list srev) (i:ident) : expect :=
  match i_rel i, i_sym i with
  | None, Some s => match r_one G (i_lbl i) s with Some o => XOK None (xopt o) | None => XFail end
  | _, _ => XFail
  end.
Definition ref_num (G:list srev) (i:ident) : expect :=
  match i_rel i, i_sym i with
  | None, Some (RName n) => XOK None [EId n]
  | None, Some RHeads => match i_lbl i with None => XSet (xids (r_real_heads G)) | Some _ => XLoose end
  | None, Some s => match r_abs G (i_lbl i) s with Some l => XOK None (xids l) | None => XFail end
  | _, _ => XLoose
  end.

Definition up_result (o:option (option str)) (lbl:option str) : expect :=
  match o with Some (Some x) => XOK lbl [EId x] | _ => XFail end.
Definition walk_up_from (G:list srev) (start:option (option str)) (lbl:option str) (n:nat) (out_lbl:option str) : expect :=
  match start with
  | None => XFail
  | Some p => match r_branch G lbl with
              | None => XFail
              | Some f => up_result (r_up G n p f) out_lbl
              end
  end.
Definition walk_down_from (G:list srev) (start:option (option str)) (n:nat) (as_upgrade:bool) (out_lbl:option str) : expect :=
  match start with
  | None => XFail
  | Some None => match n with O => XFail | _ => XLoose end
  | Some (Some x) => match r_down G n (DRev x) with
                     | Some (DRev y) => XOK out_lbl [EId y]
                     | Some DBase => if as_upgrade then XOK out_lbl [] else XOK out_lbl [EBaseS]
                     | None => XFail
                     end
  end.

(* `label@+N` as an upgrade target ("upgrade from current heads on <label> upwards N revisions", branches.rst):
   what is applied are the current revisions and all their ancestors through down_revision AND depends_on; the branch
   stands at the applied revisions of the label's lineage that are not an ancestor (same full order) of another one;
   from there N steps up, each to the only child that stays on the branch; nothing applied on the branch: from base.
   Several such places are acceptable if they lead to the same revision (the code may also refuse them as ambiguous).
   Only said for a consistent version table: distinct existing revisions, none an ancestor of another. *)
Definition r_all_parents (G:list srev) (x:str) : list str :=
  match find_rev G x with Some r => s_down r ++ s_deps r | None => [] end.
Definition r_anc_full (G:list srev) (x y:str) : bool := mems y (reach (length G) (r_all_parents G) x).
Definition r_applied (G:list srev) (cur:list str) : list str := dedupes (flat_map (reach (length G) (r_all_parents G)) cur).
Definition r_consistent (G:list srev) (cur:list str) : bool :=
  forallb (fun c => mems c (ids G)) cur && Nat.eqb (length (dedupes cur)) (length cur) &&
  forallb (fun c => forallb (fun c' => streqb c c' || negb (r_anc_full G c c')) cur) cur.
Definition r_branch_tips (G:list srev) (b:str) (cur:list str) : list str :=
  let onb := filter (r_lineage G b) (r_applied G cur) in
  filter (fun x => negb (existsb (fun y => negb (streqb x y) && r_anc_full G y x) onb)) onb.
Definition expect_eqb (a b:expect) : bool :=
  match a, b with
  | XOK l1 e1, XOK l2 e2 => optstr_eqb l1 l2 && list_eqb' elem_eqb e1 e2
  | XFail, XFail => true
  | _, _ => false
  end.
Definition weaken (x:expect) : expect := match x with XOK None l => XMay l | XFail => XFail | _ => XLoose end.

Definition ref_up (G:list srev) (cur:list str) (i:ident) : expect :=
  match i_rel i with
  | None => ref_revs G i
  | Some z =>
      match i_sym i with
      | Some RHeads => XLoose
      | Some s =>
          if (0 <? z)%Z then walk_up_from G (r_one G None s) (i_lbl i) (Z.abs_nat z) None
          else walk_down_from G (r_one G (i_lbl i) s) (Z.abs_nat z) true None
      | None =>
          if (0 <? z)%Z then
            match i_lbl i with
            | Some L =>
                match r_name G L with
                | None => XFail
                | Some b =>
                    if r_consistent G cur then
                      match r_branch_tips G b cur with
                      | [] => walk_up_from G (Some None) (i_lbl i) (Z.abs_nat z) None
                      | [c] =>
                          (* the branch is reached only through ancestors / dependencies of the current revisions: the
                             code may refuse this as ambiguous (it looks at direct parents only, e.g. lab0 on b; x<-b;
                             y<-b depends z; z depends x; y2<-y; current w depends y: "Ambiguous upgrade") *)
                          if existsb (r_lineage G b) cur then walk_up_from G (Some (Some c)) (i_lbl i) (Z.abs_nat z) None
                          else weaken (walk_up_from G (Some (Some c)) (i_lbl i) (Z.abs_nat z) None)
                      | c :: cs =>
                          let r := walk_up_from G (Some (Some c)) (i_lbl i) (Z.abs_nat z) None in
                          if forallb (fun c' => expect_eqb (walk_up_from G (Some (Some c')) (i_lbl i) (Z.abs_nat z) None) r) cs
                          then weaken r else XLoose
                      end
                    else XLoose
                end
            | None => match cur with
                      | [] => walk_up_from G (Some None) None (Z.abs_nat z) None
                      | [c] => walk_up_from G (r_one G None (classify_word c)) None (Z.abs_nat z) None
                      | _ => XFail
                      end
            end
          else XFail
      end
  end.

(* A downgrade target.
   * `label@name` (absolute): the documentation introduces `branchname@rev` as "a specific revision in terms of a specific
     branch" and the property text says such an identifier never resolves "to a revision outside the named branch".  The
     lookups (get_revision, upgrade) enforce it ("Revision X is not a member of branch L"); nothing in the documentation
     gives the downgrade command a different reading, so the reference demands the same here: the label must name a
     branch and the revision must share lineage with it.  (_parse_downgrade_target does not check this: recorded finding
     C16-downgrade-label-unchecked.)  `label@base` is documented ("downgraded all the files in networking using
     networking@base") and needs no revision; for `label@head(s)` the reference only fixes the answer when there is a
     single head at all.
   * `label@-N`: relative to the current revision on that branch: exactly one current revision must share lineage with
     the label (several, or none, is the documented "Relative revision ... didn't produce N migrations" error); when
     none does, the code additionally looks through dependencies (undocumented: anything of a documented class). *)
Definition ref_down (G:list srev) (cur:list str) (i:ident) : expect :=
  match i_rel i with
  | None => match i_sym i with
            | Some s => match (match s, i_lbl i with
                               | RName _, Some _ => r_one G (i_lbl i) s
                               | _, _ => r_one G None s
                               end) with
                        | Some o => XOK (i_lbl i) (xopt o)
                        | None => XFail
                        end
            | None => XFree
            end
  | Some z =>
      match i_sym i with
      | Some RHeads => XLoose
      | Some s =>
          if (0 <? z)%Z then walk_up_from G (r_one G None s) (i_lbl i) (Z.abs_nat z) (i_lbl i)
          else if (z =? 0)%Z then match r_one G None s with Some (Some x) => XOK (i_lbl i) [EId x] | _ => XFail end
          else walk_down_from G (r_one G (i_lbl i) s) (Z.abs_nat z) false (i_lbl i)
      | None =>
          if (z <? 0)%Z then
            match i_lbl i with
            | Some L =>
                match r_name G L with
                | None => XFail
                | Some b => match filter (r_lineage G b) cur with
                            | [] => XLoose
                            | [c] => walk_down_from G (r_one G (Some L) (classify_word c)) (Z.abs_nat z) false (Some L)
                            | _ => XFail
                            end
                end
            | None => match cur with
                      | [] => XFail
                      | c :: _ => walk_down_from G (r_one G (Some c) (classify_word c)) (Z.abs_nat z) false (Some c)
                      end
            end
          else XFail
      end
  end.

(* --- agreement of an observed outcome with what the reference expects *)
Definition documented (e:xerr) : bool :=
  match e with CmdMultipleHeads | CmdResolution | CmdRevision | CmdRange => true | _ => false end.
Definition elem_in (l:list elem) (e:elem) : bool := existsb (elem_eqb e) l.
Definition agree (x:expect) (o:outcome) : bool :=
  match x, o with
  | XOK lbl l, OK lbl' l' => optstr_eqb lbl lbl' && list_eqb' elem_eqb l l'
  | XSet l, OK None l' => forallb (elem_in l') l && forallb (elem_in l) l' && Nat.eqb (length l) (length l')
  | XFail, Fail e => documented e
  | XMay l, OK None l' => list_eqb' elem_eqb l l'
  | XMay _, Fail e => documented e
  | XLoose, OK _ _ => true
  | XLoose, Fail e => documented e
  | XFree, _ => true
  | _, _ => false
  end.

Definition load_ok (G:list srev) : bool :=        (* a label must not repeat an id or another label *)
  let labs := flat_map s_labels G in
  forallb (fun l => negb (mems l (ids G))) labs && Nat.eqb (length (dedupes labs)) (length labs).

Definition query_okb (G:list srev) (cur:list str) (q:str) (ob:obs) : bool :=
  if load_ok G then
    match parse_ident q with
    | None => true
    | Some i => agree (ref_revs G i) (o_revs ob) && agree (ref_rev G i) (o_rev ob) && agree (ref_num G i) (o_num ob)
                && agree (ref_up G cur i) (o_up ob) && agree (ref_down G cur i) (o_down ob)
    end
  else (* the history does not load: every lookup is the documented error *)
    agree XFail (o_revs ob) && agree XFail (o_rev ob) && agree XFail (o_num ob) && agree XFail (o_up ob) && agree XFail (o_down ob).

Fixpoint all2 {A B} (f:A -> B -> bool) (a:list A) (b:list B) : bool :=
  match a, b with
  | [], [] => true
  | x :: a', y :: b' => f x y && all2 f a' b'
  | _, _ => false
  end.

(* branch labels as documented ("applies to this revision, all descendants of this revision, as well as all ancestors of
   this revision up until the preceding branch point"): every descendant-or-self of the revision that carries a label has
   it, and a revision only has labels of revisions it shares lineage with *)
Definition labels_okb (G:list srev) (bl:list (str * list str)) : bool :=
  match bl with
  | [] => true                                        (* the history did not load: nothing to say *)
  | _ =>
      list_eqb' streqb (map fst bl) (ids G) &&
      forallb (fun R => forallb (fun l =>
                 forallb (fun p => negb (r_is_anc G (fst p) (s_id R)) || mems l (snd p)) bl) (s_labels R)) G &&
      forallb (fun p => forallb (fun l =>
                 match r_label_owner G l with Some o => r_lineage G o (fst p) | None => false end) (snd p)) bl
  end.

(* the property: every identifier string of the batch is resolved as the reference says *)
Definition C16_holds (i:c16_in) (o:c16_out) : Prop :=
  labels_okb (i_revs i) (c_labels o) = true /\
  Forall2 (fun q ob => query_okb (i_revs i) (i_cur i) q ob = true) (i_queries i) (c_obs o).
Definition check_C16 (i:c16_in) (o:c16_out) : bool :=
  labels_okb (i_revs i) (c_labels o) && all2 (query_okb (i_revs i) (i_cur i)) (i_queries i) (c_obs o).

(* character constants used by the harness' case files (cheaper for coqc to read than numerals) *)
Definition c32 : N := 32%N.
Definition c33 : N := 33%N.
Definition c34 : N := 34%N.
Definition c35 : N := 35%N.
Definition c36 : N := 36%N.
Definition c37 : N := 37%N.
Definition c38 : N := 38%N.
Definition c39 : N := 39%N.
Definition c40 : N := 40%N.
Definition c41 : N := 41%N.
Definition c42 : N := 42%N.
Definition c43 : N := 43%N.
Definition c44 : N := 44%N.
Definition c45 : N := 45%N.
Definition c46 : N := 46%N.
Definition c47 : N := 47%N.
Definition c48 : N := 48%N.
Definition c49 : N := 49%N.
Definition c50 : N := 50%N.
Definition c51 : N := 51%N.
Definition c52 : N := 52%N.
Definition c53 : N := 53%N.
Definition c54 : N := 54%N.
Definition c55 : N := 55%N.
Definition c56 : N := 56%N.
Definition c57 : N := 57%N.
Definition c58 : N := 58%N.
Definition c59 : N := 59%N.
Definition c60 : N := 60%N.
Definition c61 : N := 61%N.
Definition c62 : N := 62%N.
Definition c63 : N := 63%N.
Definition c64 : N := 64%N.
Definition c65 : N := 65%N.
Definition c66 : N := 66%N.
Definition c67 : N := 67%N.
Definition c68 : N := 68%N.
Definition c69 : N := 69%N.
Definition c70 : N := 70%N.
Definition c71 : N := 71%N.
Definition c72 : N := 72%N.
Definition c73 : N := 73%N.
Definition c74 : N := 74%N.
Definition c75 : N := 75%N.
Definition c76 : N := 76%N.
Definition c77 : N := 77%N.
Definition c78 : N := 78%N.
Definition c79 : N := 79%N.
Definition c80 : N := 80%N.
Definition c81 : N := 81%N.
Definition c82 : N := 82%N.
Definition c83 : N := 83%N.
Definition c84 : N := 84%N.
Definition c85 : N := 85%N.
Definition c86 : N := 86%N.
Definition c87 : N := 87%N.
Definition c88 : N := 88%N.
Definition c89 : N := 89%N.
Definition c90 : N := 90%N.
Definition c91 : N := 91%N.
Definition c92 : N := 92%N.
Definition c93 : N := 93%N.
Definition c94 : N := 94%N.
Definition c95 : N := 95%N.
Definition c96 : N := 96%N.
Definition c97 : N := 97%N.
Definition c98 : N := 98%N.
Definition c99 : N := 99%N.
Definition c100 : N := 100%N.
Definition c101 : N := 101%N.
Definition c102 : N := 102%N.
Definition c103 : N := 103%N.
Definition c104 : N := 104%N.
Definition c105 : N := 105%N.
Definition c106 : N := 106%N.
Definition c107 : N := 107%N.
Definition c108 : N := 108%N.
Definition c109 : N := 109%N.
Definition c110 : N := 110%N.
Definition c111 : N := 111%N.
Definition c112 : N := 112%N.
Definition c113 : N := 113%N.
Definition c114 : N := 114%N.
Definition c115 : N := 115%N.
Definition c116 : N := 116%N.
Definition c117 : N := 117%N.
Definition c118 : N := 118%N.
Definition c119 : N := 119%N.
Definition c120 : N := 120%N.
Definition c121 : N := 121%N.
Definition c122 : N := 122%N.
Definition c123 : N := 123%N.
Definition c124 : N := 124%N.
Definition c125 : N := 125%N.
Definition c126 : N := 126%N.

(* ====================================================================== graph-theoretic notions used by the theorem statements *)
Inductive path (succ : str -> list str) : str -> str -> Prop :=
| path_refl x : path succ x x
| path_step x y z : In y (succ x) -> path succ y z -> path succ x z.
(* y is x or an ancestor of x along down_revision *)
Definition anc (G:list srev) (x y:str) : Prop := path (down_of G) x y.
Definition lineage (G:list srev) (x y:str) : Prop := anc G x y \/ anc G y x.
(* acyclicity certificate: a topological rank *)
Definition ranked (G:list srev) (rk:str -> nat) : Prop :=
  (forall r d, In r G -> In d (s_down r) -> rk d < rk (s_id r)) /\ (forall x, rk x <= length G).
Definition refs_ok (G:list srev) : Prop := forall r d, In r G -> In d (s_down r) -> In d (ids G).
(* Revision.verify_rev_id, plus: an id is not one of the three symbolic names *)
Definition legal_id (x:str) : Prop :=
  x <> [] /\ (forall c, In c x -> c <> c_at /\ c <> c_plus /\ c <> c_minus) /\ x <> s_head /\ x <> s_heads /\ x <> s_base.
Definition wfG (G:list srev) : Prop := NoDup (ids G) /\ refs_ok G /\ (forall x, In x (ids G) -> legal_id x).
Definition is_head (G:list srev) (x:str) : Prop := In x (ids G) /\ forall r, In r G -> ~ In x (s_down r).
Definition is_real_head (G:list srev) (x:str) : Prop := In x (ids G) /\ forall r, In r G -> ~ In x (s_down r) /\ ~ In x (s_deps r).
Definition prefix_of (p k:str) : Prop := exists t, k = p ++ t.
Definition ids_len_ge4 (G:list srev) : Prop := forall x, In x (ids G) -> 4 <= length x.
Definition labels_prefix_free (G:list srev) (p:str) : Prop := forall r l, In r G -> In l (s_labels r) -> ~ prefix_of p l.
(* exactly n down_revision steps, every revision on the way having a single down revision *)
Inductive down_chain (G:list srev) : nat -> str -> str -> Prop :=
| dc_0 x : down_chain G 0 x x
| dc_S n x r p y : find_rev G x = Some r -> s_down r = [p] -> down_chain G n p y -> down_chain G (S n) x y.
(* exactly n steps up, each time to the ONLY child (among those accepted by f) *)
Inductive up_chain (G:list srev) (f:str -> Prop) : nat -> str -> str -> Prop :=
| uc_0 x : up_chain G f 0 x x
| uc_S n x c y : In x (down_of G c) -> f c -> (forall c', In x (down_of G c') -> In c' (ids G) -> f c' -> c' = c) ->
                 up_chain G f n c y -> up_chain G f (S n) x y.

(* ====================================================================== branch labels after the load *)
(* the revisions the upward loop of _add_branches labels when it starts at p: p and its single down revisions, as long
   as the revision is neither a real branch point (more than one child counting depends_on) nor a merge point *)
Fixpoint upchain (G:list srev) (fuel:nat) (p:str) : list str :=
  match fuel with
  | O => []
  | S f => match find_rev G p with
           | None => []
           | Some r => if (1 <? length (all_nextrev G p)) || (1 <? length (s_down r)) then []
                       else p :: match s_down r with d :: _ => upchain G f d | [] => [] end
           end
  end.
(* which labels a revision carries once the labelled revisions of `todo` (each with the last descendant its iteration
   yielded) have been handled in that order, starting from `cur`: a revision gets the labels the handled revision R
   carries AT THAT MOMENT if it is R or a down_revision-descendant of R, or lies on the upward chain from that last
   descendant *)
Fixpoint carries_from (G:list srev) (cur:str -> str -> Prop) (todo:list (str*str)) : str -> str -> Prop :=
  match todo with
  | [] => cur
  | (R, last) :: rest =>
      carries_from G (fun x L => cur x L \/ (cur R L /\ In x (ids G) /\ (anc G x R \/ In x (upchain G (S (length G)) last)))) rest
  end.
Definition orig_label (G:list srev) (x L:str) : Prop := exists r, find_rev G x = Some r /\ In L (s_labels r).
Definition carries (G:list srev) (oracle:list (str*str)) : str -> str -> Prop := carries_from G (orig_label G) oracle.

(* ====================================================================== the proved class, as a boolean on the input
   (C16_model_holds: inclass_C16 i = true -> C16_holds i (run i)) *)
Fixpoint nodups (l:list str) : bool := match l with [] => true | a :: r => negb (mems a r) && nodups r end.
Definition legalb (x:str) : bool :=
  nonempty x && forallb (fun c => negb (N.eqb c c_at || N.eqb c c_plus || N.eqb c c_minus)) x
  && negb (streqb x s_head || streqb x s_heads || streqb x s_base).
(* a topological rank along down_revision, computed: the history is acyclic iff it is strictly decreasing *)
Fixpoint rank_fuel (G:list srev) (fuel:nat) (x:str) : nat :=
  match fuel with
  | O => 0
  | S f => match down_of G x with
           | [] => 0
           | ps => S (fold_right (fun p acc => Nat.max (rank_fuel G f p) acc) 0 ps)
           end
  end.
Definition rankedb (G:list srev) : bool :=
  forallb (fun r => forallb (fun d => rank_fuel G (length G) d <? rank_fuel G (length G) (s_id r)) (s_down r)) G.
Definition wfGb (G:list srev) : bool :=
  nodups (ids G) && forallb (fun r => forallb (fun d => mems d (ids G)) (s_down r)) G && forallb legalb (ids G).
Definition all_labels (G:list srev) : list str := flat_map s_labels G.
(* a name the theorems cover: a full id, a branch label, or a partial id under ids_len_ge4 /\ labels_prefix_free *)
Definition name_okb (G:list srev) (n:str) : bool :=
  nonempty n &&
  (mems n (ids G) || (match r_label_owner G n with Some _ => true | None => false end)
   || (forallb (fun x => 4 <=? length x) (ids G) && forallb (fun l => negb (startswith l n)) (all_labels G))).
Definition optopt_eqb (a b:option (option str)) : bool :=
  match a, b with
  | None, None => true
  | Some x, Some y => optstr_eqb x y
  | _, _ => false
  end.
Definition qclassb (G:list srev) (cur:list str) (q:str) : bool :=
  match parse_ident q with
  | None => true                                                   (* not of the grammar: nothing is claimed *)
  | Some i =>
      (match i_lbl i with Some L => name_okb G L | None => true end) &&
      (match i_sym i with Some (RName n) => name_okb G n | _ => true end) &&
      match i_rel i, i_sym i, i_lbl i with
      | None, Some (RName n), Some L =>
          (* the unchecked-label finding: covered only where the label check would not change the downgrade target *)
          optopt_eqb (r_one G (Some L) (RName n)) (r_one G None (RName n))
      | Some z, None, Some L =>
          (* label@+N with a non-empty version table goes through _normalized_down_revisions: not covered;
             label@-N is covered when the version table is empty or some current revision is on the branch *)
          if (0 <? z)%Z then negb (nonempty cur)
          else match r_name G L with
               | Some b => negb (nonempty cur) || nonempty (filter (r_lineage G b) cur)
               | None => true
               end
      | _, _, _ => true
      end
  end.
Definition inclass_C16 (i:c16_in) : bool :=
  wfGb (i_revs i) && rankedb (i_revs i) && load_ok (i_revs i) &&
  (match load_in i with Ok _ => true | Err _ => false end) &&
  forallb (fun l => nonempty l && all_word l) (all_labels (i_revs i)) &&
  forallb (fun c => mems c (ids (i_revs i)) && all_word c) (i_cur i) &&
  forallb (qclassb (i_revs i) (i_cur i)) (i_queries i).
