(* C02 — the downgrade plan removes exactly the applied dependents, children first. *)
From AV Require Export Model.Plan Spec.C01.

(* the request as written, structured (the harness renders it to the string it passes to alembic) *)
Inductive tgt02 :=
| DId (x:N)                 (* a full or unambiguous partial revision id *)
| DBase                     (* "base" *)
| DRelCur (k:nat)           (* "-k" *)
| DRelId (x:N) (k:nat)      (* "id-k" *)
| DLabelAt (l:N) (x:N)      (* "label@id" *)
| DOther.

(* history, request, resolved target (None = base), branch revision of the request (if any), current rows *)
Definition input02 : Type := graph * tgt02 * option N * option N * list N.

(* reference meaning of a downgrade request (docs: tutorial "Relative Migration Identifiers",
   branches "Branch Labels"): the revision to end at, and the branch the request is restricted to *)
Inductive ref2 := R2Ok (target branch : option N) | R2Error | R2Unknown.
Fixpoint walk_down (G:graph) (k:nat) (cur : option N) : option (option N) :=     (* None = walked past base / ambiguous *)
  match k with
  | O => Some cur
  | S k' => match cur with
            | None => None
            | Some x => match down G x with
                        | [] => walk_down G k' None
                        | [p] => walk_down G k' (Some p)
                        | _ => None
                        end
            end
  end.
Definition ref_down (G:graph) (Cur : list N) (t:tgt02) : ref2 :=
  match t with
  | DId x => R2Ok (Some x) None
  | DBase => R2Ok None None
  | DRelId x k => match k with O => R2Unknown | _ => match walk_down G k (Some x) with Some r => R2Ok r None | None => R2Error end end
  | DRelCur k =>
      match k, Cur with
      | O, _ => R2Unknown
      | _, [] => R2Error
      | _, [c] => match walk_down G k (Some c) with Some r => R2Ok r (Some c) | None => R2Error end
      | _, _ => R2Unknown            (* "downgrade -1 from multiple heads is ambiguous" (deprecated usage) *)
      end
  | DLabelAt l x =>
      match label_rev G l with
      | None => R2Unknown
      | Some lr => if on_branch G lr x then R2Ok (Some x) (Some lr)
                   else R2Unknown    (* `downgrade label@rev` with rev off the branch: the code does not check it (noted under C16) *)
      end
  | DOther => R2Unknown
  end.
Definition optN_eqb (a b : option N) : bool :=
  match a, b with Some x, Some y => N.eqb x y | None, None => true | _, _ => false end.
Definition ref_agrees02 (G:graph) (Cur : list N) (t:tgt02) (target branch : option N) : bool :=
  match ref_down G Cur t with
  | R2Ok tg br => optN_eqb target tg && optN_eqb branch br
  | R2Error => false
  | R2Unknown => true
  end.

(* roots of the removal (Plan.roots_of): children by down_revision of the target; all bases for `base`;
   with a branch request and several roots, those on the branch *)

(* x is a descendant-or-self of some root: some root is an ancestor-or-self of x *)
Definition DescOf (G:graph) (R : list N) (x:N) : Prop := exists r, In r R /\ Anc G x r.

Definition C02_holds (i:input02) (out : pres (list N)) : Prop :=
  let '(G, t, target, branch, Cur) := i in
  let R := roots_of G target branch in
  ref_agrees02 G Cur t target branch = true /\
  match out with
  | POk plan =>
      NoDup plan /\
      (forall r, In r plan <-> DescOf G R r /\ AncOf G Cur r) /\
      (* children first: nothing is removed while an applied revision that builds on it remains *)
      (forall pre r post, plan = pre ++ r :: post ->
         forall c, AncOf G Cur c -> In r (all_down G c) -> In c pre) /\
      (* the target and its own prerequisites are never downgraded *)
      (forall t, target = Some t -> forall a, Anc G t a -> ~ In a plan) /\
      (* an empty answer is only given when the database is at the target (or for base) *)
      (plan = [] -> forall t, target = Some t -> In t Cur)
  | PErr PERange =>      (* refused: nothing to remove and not at the target *)
      exists t, target = Some t /\ ~ In t Cur /\ forall r, ~ (DescOf G R r /\ AncOf G Cur r)
  | PErr PERevision =>   (* branch filter removed every root *)
      R = [] /\ branch <> None
  | PErr _ => False
  end.

Definition descs (G:graph) (X : list N) : list N := reach_or_nil (all_nextrev G) G X.
Fixpoint children_first (G:graph) (remaining plan : list N) : bool :=
  match plan with
  | [] => true
  | r :: rest =>
      let remaining' := removeN r remaining in
      negb (existsb (fun c => memN r (all_down G c)) remaining') && children_first G remaining' rest
  end.
Definition check_C02 (i:input02) (out : pres (list N)) : bool :=
  let '(G, t, target, branch, Cur) := i in
  let R := roots_of G target branch in
  let expected := interN (descs G R) (ancs G Cur) in
  ref_agrees02 G Cur t target branch &&
  match out with
  | POk plan =>
      nodupb plan && seteqN plan expected && children_first G (ancs G Cur) plan
      && match target with Some t => negb (existsb (fun a => memN a plan) (ancs G [t])) | None => true end
      && match plan, target with [], Some t => memN t Cur | _, _ => true end
  | PErr PERange =>
      match target, expected with Some t, [] => negb (memN t Cur) | _, _ => false end
  | PErr PERevision => match R, branch with [], Some _ => true | _, _ => false end
  | PErr _ => false
  end.

Definition corr_C02 (i:input02) (out : pres (list N)) : bool :=
  let '(G, t, target, branch, Cur) := i in pres_list_eqb (downgrade_plan G target branch Cur) out.
Definition opt_in (o:option N) (l:list N) : bool := match o with Some x => memN x l | None => true end.
Definition inclass_C02 (i:input02) : bool :=
  let '(G, t, target, branch, Cur) := i in
  wf_graphb G && subsetN Cur (ids G) && opt_in target (ids G) && opt_in branch (ids G).
Definition model_C02 (i:input02) : pres (list N) := let '(G, t, target, branch, Cur) := i in downgrade_plan G target branch Cur.
