(* C02 — the downgrade plan removes exactly the applied dependents, children first. *)
From AV Require Export Model.Plan Spec.C01.

(* history, resolved target (None = base), branch revision of the request (if any), current rows *)
Definition input02 : Type := graph * option N * option N * list N.

(* roots of the removal (Plan.roots_of): children by down_revision of the target; all bases for `base`;
   with a branch request and several roots, those on the branch *)

(* x is a descendant-or-self of some root: some root is an ancestor-or-self of x *)
Definition DescOf (G:graph) (R : list N) (x:N) : Prop := exists r, In r R /\ Anc G x r.

Definition C02_holds (i:input02) (out : pres (list N)) : Prop :=
  let '(G, target, branch, Cur) := i in
  let R := roots_of G target branch in
  match out with
  | POk plan =>
      NoDup plan /\
      (forall r, In r plan <-> DescOf G R r /\ AncOf G Cur r) /\
      (* children first: nothing is removed while an applied revision that builds on it remains *)
      (forall pre r post, plan = pre ++ r :: post ->
         forall c, AncOf G Cur c -> In r (all_down G c) -> In c pre) /\
      (* the target and its own prerequisites are never downgraded *)
      (forall t, target = Some t -> forall a, Anc G t a -> ~ In a plan) /\
      (* an empty answer is only given when the database is at the target (or for base) *)
      (plan = [] -> forall t, target = Some t -> In t Cur)
  | PErr PERange =>      (* refused: nothing to remove and not at the target *)
      exists t, target = Some t /\ ~ In t Cur /\ forall r, ~ (DescOf G R r /\ AncOf G Cur r)
  | PErr PERevision =>   (* branch filter removed every root *)
      R = [] /\ branch <> None
  | PErr _ => False
  end.

Definition descs (G:graph) (X : list N) : list N := reach_or_nil (all_nextrev G) G X.
Fixpoint children_first (G:graph) (remaining plan : list N) : bool :=
  match plan with
  | [] => true
  | r :: rest =>
      let remaining' := removeN r remaining in
      negb (existsb (fun c => memN r (all_down G c)) remaining') && children_first G remaining' rest
  end.
Definition check_C02 (i:input02) (out : pres (list N)) : bool :=
  let '(G, target, branch, Cur) := i in
  let R := roots_of G target branch in
  let expected := interN (descs G R) (ancs G Cur) in
  match out with
  | POk plan =>
      nodupb plan && seteqN plan expected && children_first G (ancs G Cur) plan
      && match target with Some t => negb (existsb (fun a => memN a plan) (ancs G [t])) | None => true end
      && match plan, target with [], Some t => memN t Cur | _, _ => true end
  | PErr PERange =>
      match target, expected with Some t, [] => negb (memN t Cur) | _, _ => false end
  | PErr PERevision => match R, branch with [], Some _ => true | _, _ => false end
  | PErr _ => false
  end.

Definition corr_C02 (i:input02) (out : pres (list N)) : bool :=
  let '(G, target, branch, Cur) := i in pres_list_eqb (downgrade_plan G target branch Cur) out.
Definition opt_in (o:option N) (l:list N) : bool := match o with Some x => memN x l | None => true end.
Definition inclass_C02 (i:input02) : bool :=
  let '(G, target, branch, Cur) := i in
  wf_graphb G && subsetN Cur (ids G) && opt_in target (ids G) && opt_in branch (ids G).
Definition model_C02 (i:input02) : pres (list N) := let '(G, target, branch, Cur) := i in downgrade_plan G target branch Cur.
