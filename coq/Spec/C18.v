(* C18 — "Offline scripts frame transactions correctly for each dialect": the property as a Prop over the
   event sequence of a script, a boolean decider applied to the implementation's output, and the exact
   model-vs-implementation comparison. *)
From AV Require Export Base.ListSet Model.Txn Model.C18Dialect Model.Offline.

Definition in_C18 := (dialect * ocfg * run)%type.
Definition out_C18 := list rchunk.       (* the output buffer, chunk by chunk *)

(* ------------------------------------------------------------------ vocabulary *)
Definition is_sep_ev (e:event) : bool := match e with Sep => true | _ => false end.
Definition is_marker (e:event) : bool := match e with Begin | Commit => true | _ => false end.
Definition content (e:event) : bool := negb (is_marker e) && negb (is_sep_ev e).
Definition is_auto (e:event) : bool := match e with Stmt _ _ true => true | _ => false end.
Definition step_of (e:event) : option N :=
  match e with Running k | Stmt k _ _ | VersionStmt k _ | CreateVT k => Some k | _ => None end.
Definition strip_sep (l:list event) : list event := filter (fun e => negb (is_sep_ev e)) l.

(* The grammar (BEGIN x* COMMIT | y)* as an automaton with depth in {0,1}:
   a Begin at depth 1 (nesting), a Commit at depth 0 (unmatched) are rejected; acceptance = ending at depth 0. *)
Fixpoint run_depth (ins:bool) (l:list event) : option bool :=
  match l with
  | [] => Some ins
  | Begin :: r => if ins then None else run_depth true r
  | Commit :: r => if ins then run_depth false r else None
  | _ :: r => run_depth ins r
  end.
Definition well_framed (l:list event) : Prop := run_depth false l = Some false.

(* the same grammar, inductively (equivalence: Proofs/OfflineProof.v, framed_iff) *)
Inductive framed : bool -> list event -> Prop :=
  | fr_nil : framed false []
  | fr_begin l : framed true l -> framed false (Begin :: l)
  | fr_commit l : framed false l -> framed true (Commit :: l)
  | fr_other b e l : is_marker e = false -> framed b l -> framed b (e :: l).

(* every non-marker event with the number of Begin markers before it (its block number, from 1) and whether it lies
   inside a block *)
Fixpoint ann (b:nat) (ins:bool) (l:list event) : list (event * nat * bool) :=
  match l with
  | [] => []
  | Begin :: r => ann (S b) true r
  | Commit :: r => ann b false r
  | e :: r => (e, b, ins) :: ann b ins r
  end.
Definition count_begin (l:list event) : nat :=
  length (filter (fun e => match e with Begin => true | _ => false end) l).

(* what the script must contain once markers and separators are taken away: the statements of the run, in order *)
Definition item_events (k:N) (it:item) : list event :=
  match it with IStmt p => [Stmt k p false] | IAuto ps => map (fun p => Stmt k p true) ps end.
Fixpoint expected_steps (k:N) (empty:bool) (steps:list ostep) : list event :=
  match steps with
  | [] => if empty then [DropVT] else []
  | s :: r => (if empty then [CreateVT k] else []) ++ Running k :: flat_map (item_events k) (os_body s)
              ++ map (VersionStmt k) (vidx (os_nver s)) ++ map (fun p => Stmt k p false) (os_hooks s)
              ++ expected_steps (N.succ k) (os_empty_after s) r
  end.
Definition expected_content (r:run) : list event := expected_steps 0 (r_init_empty r) (r_steps r).

Definition no_auto (s:ostep) : bool :=
  forallb (fun it => match it with IStmt _ => true | IAuto _ => false end) (os_body s).

(* ------------------------------------------------------------------ the property *)
Definition C18_events_hold (tddl per_mig:bool) (r:run) (evs:list event) : Prop :=
  let E := strip_sep evs in
  let A := ann 0 false E in
  (* the script consists of the run's statements plus markers and separators, nothing else, nothing missing *)
  filter content evs = expected_content r /\
  if tddl then
    (* every begin marker is closed by exactly one commit marker and blocks do not nest *)
    well_framed E /\
    (* statements of an autocommit section lie outside every block, everything else inside one *)
    (forall e b i, In (e, b, i) A -> i = negb (is_auto e)) /\
    (* an autocommit section closes the block before it and a block is reopened after it *)
    (forall e b i, In (e, b, i) A -> is_auto e = true -> 1 <= b /\ b < count_begin E) /\
    (if per_mig then
       (* one transaction per migration: no block holds statements of two steps, and the '-- Running' line, the
          statements and the version statements of a step without autocommit section lie in one and the same block *)
       (forall e e' b i i', In (e, b, i) A -> In (e', b, i') A -> i = true -> i' = true -> step_of e = step_of e') /\
       (forall j s, nth_error (r_steps r) j = Some s -> no_auto s = true ->
          forall e e' b b' i i', In (e, b, i) A -> In (e', b', i') A ->
             step_of e = Some (N.of_nat j) -> step_of e' = Some (N.of_nat j) -> b = b' /\ i = true /\ i' = true)
     else
       (* otherwise one block encloses the whole run (when no step has an autocommit section) *)
       (forallb no_auto (r_steps r) = true ->
          forall e e' b b' i i', In (e, b, i) A -> In (e', b', i') A -> b = b' /\ i = true /\ i' = true))
  else
    (* without transactional DDL no transaction markers are emitted *)
    forall e, In e evs -> is_marker e = false.

(* ---- a run cut short by an exception (in the last step of r_steps) *)
Definition step_content (k:N) (empty:bool) (s:ostep) : list event :=
  (if empty then [CreateVT k] else []) ++ Running k :: flat_map (item_events k) (os_body s)
  ++ map (VersionStmt k) (vidx (os_nver s)) ++ map (fun p => Stmt k p false) (os_hooks s).
Fixpoint expected_cut (k:N) (empty:bool) (steps:list ostep) : list event :=
  match steps with
  | [] => []
  | s :: r => step_content k empty s ++ expected_cut (N.succ k) (os_empty_after s) r
  end.
Definition C18_cut_hold (tddl:bool) (r:run) (evs:list event) : Prop :=
  let E := strip_sep evs in
  (* what was written is what ran, plus markers and separators *)
  filter content evs = expected_cut 0 (r_init_empty r) (r_steps r) /\
  if tddl then
    (* every BEGIN emitted before the failure is closed by exactly one COMMIT or is the last, still open, block:
       the automaton never rejects (no nesting, no unmatched COMMIT) *)
    (exists depth, run_depth false E = Some depth) /\
    (* autocommit statements outside every block, everything else inside one *)
    (forall e b i, In (e, b, i) (ann 0 false E) -> i = negb (is_auto e))
  else
    forall e, In e evs -> is_marker e = false.

Definition C18_holds (i:in_C18) (o:out_C18) : Prop :=
  let '(d, c, r) := i in
  if r_cut r then C18_cut_hold (effective_tddl d c) r (tokenize d o)
  else C18_events_hold (effective_tddl d c) (c_per_mig c) r (tokenize d o).

(* ------------------------------------------------------------------ the decider *)
Definition event_eqb (a b:event) : bool :=
  match a, b with
  | Begin, Begin | Commit, Commit | Sep, Sep | DropVT, DropVT => true
  | Running k, Running k' | CreateVT k, CreateVT k' => N.eqb k k'
  | VersionStmt k j, VersionStmt k' j' => N.eqb k k' && N.eqb j j'
  | Stmt k p a, Stmt k' p' a' => N.eqb k k' && N.eqb p p' && Bool.eqb a a'
  | Unknown t, Unknown t' => str_eqb t t'
  | _, _ => false
  end.
Definition optN_eqb (a b:option N) : bool :=
  match a, b with Some x, Some y => N.eqb x y | None, None => true | _, _ => false end.

Definition all_pairs {A} (f:A -> A -> bool) (l:list A) : bool := forallb (fun x => forallb (f x) l) l.

Definition check_events (tddl per_mig:bool) (r:run) (evs:list event) : bool :=
  let E := strip_sep evs in
  let A := ann 0 false E in
  list_eqb event_eqb (filter content evs) (expected_content r) &&
  if tddl then
    match run_depth false E with Some false => true | _ => false end &&
    forallb (fun x => match x with (e, _, i) => Bool.eqb i (negb (is_auto e)) end) A &&
    forallb (fun x => match x with (e, b, _) => negb (is_auto e) || (Nat.leb 1 b && Nat.ltb b (count_begin E)) end) A &&
    (if per_mig then
       all_pairs (fun x y => match x, y with (e, b, i), (e', b', i') =>
                    negb (Nat.eqb b b' && i && i') || optN_eqb (step_of e) (step_of e') end) A &&
       forallb (fun js => match js with (j, s) =>
                    negb (no_auto s) ||
                    all_pairs (fun x y => match x, y with (e, b, i), (e', b', i') =>
                       negb (optN_eqb (step_of e) (Some (N.of_nat j)) && optN_eqb (step_of e') (Some (N.of_nat j)))
                       || (Nat.eqb b b' && i && i') end) A end)
               (combine (seq 0 (length (r_steps r))) (r_steps r))
     else
       negb (forallb no_auto (r_steps r)) ||
       all_pairs (fun x y => match x, y with (_, b, i), (_, b', i') => Nat.eqb b b' && i && i' end) A)
  else
    forallb (fun e => negb (is_marker e)) evs.

Definition check_cut (tddl:bool) (r:run) (evs:list event) : bool :=
  let E := strip_sep evs in
  list_eqb event_eqb (filter content evs) (expected_cut 0 (r_init_empty r) (r_steps r)) &&
  if tddl then
    match run_depth false E with Some _ => true | None => false end &&
    forallb (fun x => match x with (e, _, i) => Bool.eqb i (negb (is_auto e)) end) (ann 0 false E)
  else forallb (fun e => negb (is_marker e)) evs.

Definition check_C18 (i:in_C18) (o:out_C18) : bool :=
  let '(d, c, r) := i in
  if r_cut r then check_cut (effective_tddl d c) r (tokenize d o)
  else check_events (effective_tddl d c) (c_per_mig c) r (tokenize d o).

(* ------------------------------------------------------------------ exact correspondence *)
Definition rchunk_eqb (a b:rchunk) : bool :=
  match a, b with
  | RRaw t, RRaw t' => str_eqb t t'
  | RRunning k, RRunning k' | RCreate k, RCreate k' => N.eqb k k'
  | RVersion k j, RVersion k' j' => N.eqb k k' && N.eqb j j'
  | RStmt k p a, RStmt k' p' a' => N.eqb k k' && N.eqb p p' && Bool.eqb a a'
  | RDrop, RDrop => true
  | _, _ => false
  end.
Definition corr_C18 (i:in_C18) (o:out_C18) : bool :=
  let '(d, c, r) := i in list_eqb rchunk_eqb (offline_out d c r) o.

(* hypotheses of the theorems as a predicate on inputs *)
Definition inclass_C18 (i:in_C18) : bool := let '(d, _, _) := i in table_wf d.
