(* C03 — "Version table always holds exactly the heads of the applied set":
   the property as a Prop over a trace of observed steps, the boolean decider applied to the
   implementation's trace, and the exact model-vs-implementation comparison. *)
From AV Require Export Model.Heads.

(* ---------- the mathematical objects ---------- *)
(* `A` is the applied set: ghost state of the specification (add r on an upgrade step of r,
   remove it on a downgrade step); the model never sees it *)
Definition closed (G:graph) (A:list N) : Prop := forall x p, In x A -> In p (all_down G x) -> In p A.
Definition is_head (G:graph) (A:list N) (x:N) : Prop :=
  In x A /\ forall y, In y A -> y <> x -> ~ path (all_down G) y x.

(* what the property text asks of the rows after a step *)
Definition rows_ok (G:graph) (A rws:list N) : Prop :=
  NoDup rws /\                                                                    (* no row is duplicated *)
  (forall x, In x rws <-> is_head G A x) /\                                       (* exactly the maximal applied revisions *)
  (forall x y, In x rws -> In y rws -> x <> y -> ~ path (all_down G) x y) /\      (* no row is an ancestor/dependency of another *)
  (forall z, In z A <-> exists h, In h rws /\ path (all_down G) h z).             (* the rows imply exactly the applied set *)

Definition one_row (s:stmt) : Prop :=
  match s with Ins _ => True | Del _ n => n = 1 | Upd _ _ n => n = 1 end.

(* a step the planners may emit (C01/C02 are about the planners; here it is a hypothesis, checked on every real plan) *)
Definition valid_step (G:graph) (A:list N) (r:N) (up:bool) : Prop :=
  if up then In r (ids G) /\ incl (all_down G r) A /\ ~ In r A
  else In r A /\ forall y, In y A -> ~ In r (all_down G y).
Definition ghost (r:N) (up:bool) (A:list N) : list N := if up then r :: A else removeN r A.

Fixpoint steps_hold (G:graph) (A:list N) (steps:list step) (os:list obs) : Prop :=
  match steps, os with
  | [], [] => True
  | RevStep r up :: steps', ObsOk rws stmts :: os' =>
      valid_step G A r up /\ rows_ok G (ghost r up A) rws /\ Forall one_row stmts /\
      steps_hold G (ghost r up A) steps' os'
  | _, _ => False           (* an exception, a missing observation, or a step that is not a revision step *)
  end.

Fixpoint ghost_steps (steps:list step) (A:list N) : list N :=
  match steps with
  | RevStep r up :: s' => ghost_steps s' (ghost r up A)
  | _ :: s' => ghost_steps s' A
  | [] => A
  end.
Fixpoint last_rows (os:list obs) (rws:list N) : list N :=
  match os with
  | ObsOk r _ :: os' => last_rows os' r
  | _ :: os' => last_rows os' rws
  | [] => rws
  end.

(* how a command was asked to end *)
Inductive endk := EndNone | EndHeads | EndBase.
Definition cmd := (endk * list step)%type.

Definition no_child_in_G (G:graph) (x:N) : Prop := forall c, In c (ids G) -> ~ In x (all_down G c).
Definition end_ok (G:graph) (e:endk) (rws:list N) : Prop :=
  match e with
  | EndNone => True
  | EndHeads => forall x, In x rws <-> In x (ids G) /\ no_child_in_G G x      (* upgrade heads: the history's heads *)
  | EndBase => rws = []                                                        (* downgrade base: empty table *)
  end.

Fixpoint cmds_hold (G:graph) (A rws:list N) (cmds:list cmd) (outs:list (list obs)) : Prop :=
  match cmds, outs with
  | [], [] => True
  | (e, steps) :: cmds', os :: outs' =>
      steps_hold G A steps os /\ end_ok G e (last_rows os rws) /\
      cmds_hold G (ghost_steps steps A) (last_rows os rws) cmds' outs'
  | _, _ => False
  end.

(* the state the trace starts from must be a state of the property's domain: duplicate-free rows that are
   revisions of G and are the heads of what they imply (the empty database is one).  Decidable, depends on
   the input only. *)
Definition has_child_in (G:graph) (A:list N) (x:N) : bool := existsb (fun y => memN x (all_down G y)) A.
Definition maxl (G:graph) (A:list N) : list N := filter (fun x => negb (has_child_in G A x)) A.
Definition closure (G:graph) (rws:list N) : option (list N) := reach_set (all_down G) G rws.

(* reset = false: the commands run one after the other on one database that starts with rows rws0;
   reset = true: every command runs on its own database that starts with rows rws0 *)
Definition noselfb (G:graph) : bool := forallb (fun r => negb (memN (r_id r) (all_down_r r))) G.   (* Revision.__init__ rejects these *)
Definition c03_in := (graph * list N * bool * list cmd)%type.
Definition c03_out := list (list obs).

Definition pre_C03 (i:c03_in) : bool :=
  let '(G, rws0, _, _) := i in
  wf_refsb G && noselfb G && nodupb rws0 && subsetN rws0 (ids G) &&
  match closure G rws0 with Some A0 => permb rws0 (maxl G A0) | None => false end.

Fixpoint each_hold (G:graph) (A rws:list N) (cmds:list cmd) (outs:list (list obs)) : Prop :=
  match cmds, outs with
  | [], [] => True
  | c :: cmds', os :: outs' => cmds_hold G A rws [c] [os] /\ each_hold G A rws cmds' outs'
  | _, _ => False
  end.

Definition C03_holds (i:c03_in) (o:c03_out) : Prop :=
  let '(G, rws0, reset, cmds) := i in
  pre_C03 i = true ->
  exists A0, closure G rws0 = Some A0 /\
             if reset then each_hold G A0 rws0 cmds o else cmds_hold G A0 rws0 cmds o.

(* ---------- the decider ---------- *)
Definition valid_stepb (G:graph) (A:list N) (r:N) (up:bool) : bool :=
  if up then memN r (ids G) && subsetN (all_down G r) A && negb (memN r A)
  else memN r A && negb (has_child_in G A r).
Definition rows_okb (G:graph) (A rws:list N) : bool :=
  nodupb rws && permb rws (maxl G A) &&
  match closure G rws with Some C => seteqN C A | None => false end.
Definition one_rowb (s:stmt) : bool :=
  match s with Ins _ => true | Del _ n => Nat.eqb n 1 | Upd _ _ n => Nat.eqb n 1 end.

Fixpoint steps_holdb (G:graph) (A:list N) (steps:list step) (os:list obs) : bool :=
  match steps, os with
  | [], [] => true
  | RevStep r up :: steps', ObsOk rws stmts :: os' =>
      valid_stepb G A r up && rows_okb G (ghost r up A) rws && forallb one_rowb stmts &&
      steps_holdb G (ghost r up A) steps' os'
  | _, _ => false
  end.
Definition real_heads (G:graph) : list N := map r_id (filter (fun r => is_nil (all_nextrev G (r_id r))) G).
Definition end_okb (G:graph) (e:endk) (rws:list N) : bool :=
  match e with
  | EndNone => true
  | EndHeads => seteqN rws (real_heads G)
  | EndBase => is_nil rws
  end.
Fixpoint cmds_holdb (G:graph) (A rws:list N) (cmds:list cmd) (outs:list (list obs)) : bool :=
  match cmds, outs with
  | [], [] => true
  | (e, steps) :: cmds', os :: outs' =>
      steps_holdb G A steps os && end_okb G e (last_rows os rws) &&
      cmds_holdb G (ghost_steps steps A) (last_rows os rws) cmds' outs'
  | _, _ => false
  end.

Fixpoint each_holdb (G:graph) (A rws:list N) (cmds:list cmd) (outs:list (list obs)) : bool :=
  match cmds, outs with
  | [], [] => true
  | c :: cmds', os :: outs' => cmds_holdb G A rws [c] [os] && each_holdb G A rws cmds' outs'
  | _, _ => false
  end.

Definition check_C03 (i:c03_in) (o:c03_out) : bool :=
  let '(G, rws0, reset, cmds) := i in
  if pre_C03 i then
    match closure G rws0 with
    | Some A0 => if reset then each_holdb G A0 rws0 cmds o else cmds_holdb G A0 rws0 cmds o
    | None => false
    end
  else true.

(* ---------- exact correspondence ---------- *)
(* RevisionMap._normalize_depends_on: the set stored in _normalized_resolved_dependencies *)
Definition deps (G:graph) : N -> list N := of_rev r_deps G.
Definition normalize (G:graph) (r:revision) : option (list N) :=
  if is_nil (r_deps r) then Some []
  else match reach_set (down G) G [r_id r] with
       | Some ancs => Some (diffN (r_deps r)
                              (flat_map (fun a => if N.eqb a (r_id r) then [] else deps G a) ancs))
       | None => None
       end.
(* the observed r_ndeps of every revision is, as a set, what the model of _normalize_depends_on computes *)
Definition ndeps_okb (G:graph) : bool :=
  forallb (fun r => match normalize G r with Some l => seteqN (r_ndeps r) l && nodupb (r_ndeps r) | None => false end) G.

Definition herr_eqb (a b:herr) : bool :=
  match a, b with
  | EKey, EKey | EAssert, EAssert | ECommand, ECommand | EIndex, EIndex | EFuel, EFuel | EOther, EOther => true
  | _, _ => false
  end.
(* statements are compared exactly, except that WHICH of the un-merged revisions is written by the UPDATE and
   which by the INSERTs is an iteration order of a Python set: the values written are compared as a multiset *)
Definition stmt_shape_eqb (a b:stmt) : bool :=
  match a, b with
  | Ins _, Ins _ => true
  | Del v n, Del w m => N.eqb v w && Nat.eqb n m
  | Upd f _ n, Upd g _ m => N.eqb f g && Nat.eqb n m
  | _, _ => false
  end.
Definition written (s:stmt) : list N := match s with Ins v => [v] | Del _ _ => [] | Upd _ t _ => [t] end.
Definition stmts_eqb (a b:list stmt) : bool :=
  list_eqb stmt_shape_eqb a b && permb (flat_map written a) (flat_map written b).
Definition obs_eqb (a b:obs) : bool :=
  match a, b with
  | ObsOk r s, ObsOk r' s' => permb r r' && stmts_eqb s s'
  | ObsErr e, ObsErr e' => herr_eqb e e'
  | _, _ => false
  end.

Definition model_C03 (i:c03_in) : c03_out :=
  let '(G, rws0, reset, cmds) := i in
  if reset then map (fun c => fst (run_cmd G (fun l => l) (snd c) rws0)) cmds
  else run_cmds G (fun l => l) (map snd cmds) rws0.

Definition corr_C03 (i:c03_in) (o:c03_out) : bool :=
  let '(G, _, _, _) := i in
  ndeps_okb G && list_eqb (list_eqb obs_eqb) (model_C03 i) o.

(* ================================================================== offline (--sql) mode *)
(* what is observed offline after one step: the statements as emitted into the script (there is no rowcount: the
   count field is 0) and the heads handed to on_version_apply; or the exception class *)
Inductive sobs := SOk (heads_after : list N) (stmts : list stmt) | SErr (e:herr).
Definition erase (s:stmt) : stmt := match s with Ins v => Ins v | Del v _ => Del v 0 | Upd f t _ => Upd f t 0 end.

(* executing emitted statements on a table: new rows, and the statement with the number of rows it matched *)
Definition exec_stmt (s:stmt) (rws:list N) : list N * stmt :=
  match s with
  | Ins v => (rws ++ [v], Ins v)
  | Del v _ => (removeN v rws, Del v (countN v rws))
  | Upd f t _ => (upd_rows f t rws, Upd f t (countN f rws))
  end.
Fixpoint exec_stmts (l:list stmt) (rws:list N) : list N * list stmt :=
  match l with
  | [] => (rws, [])
  | s :: r => let (rws1, s') := exec_stmt s rws in let (rws2, r') := exec_stmts r rws1 in (rws2, s' :: r')
  end.
(* the script of one command executed on a table holding rws *)
Fixpoint replay (os:list sobs) (rws:list N) : list obs :=
  match os with
  | [] => []
  | SOk _ st :: r => let (rws', st') := exec_stmts st rws in ObsOk rws' st' :: replay r rws'
  | SErr e :: _ => [ObsErr e]
  end.

(* an offline case: every command is one `--sql` run starting from starting_rev = rws0 (the input's reset flag is true) *)
Definition off_out := list (list sobs).
Definition Offline_holds (i:c03_in) (o:off_out) : Prop :=
  let '(_, rws0, _, _) := i in C03_holds i (map (fun os => replay os rws0) o).
Definition check_offline (i:c03_in) (o:off_out) : bool :=
  let '(_, rws0, _, _) := i in check_C03 i (map (fun os => replay os rws0) o).

Definition to_sobs (o:obs) : sobs := match o with ObsOk r st => SOk r (map erase st) | ObsErr e => SErr e end.
Definition model_offline (i:c03_in) : off_out :=
  let '(G, rws0, _, cmds) := i in
  map (fun c => map to_sobs (fst (run_cmd_g true G (fun l => l) (snd c) rws0))) cmds.
Definition stmts_eqb0 (a b:list stmt) : bool := stmts_eqb a b.
Definition sobs_eqb (a b:sobs) : bool :=
  match a, b with
  | SOk h s, SOk h' s' => permb h h' && stmts_eqb s s'
  | SErr e, SErr e' => herr_eqb e e'
  | _, _ => false
  end.
Definition corr_offline (i:c03_in) (o:off_out) : bool :=
  let '(G, _, _, _) := i in
  ndeps_okb G && list_eqb (list_eqb sobs_eqb) (model_offline i) o.

(* what the engine evaluates *)
Inductive c03_any := COn (i:c03_in) | COff (i:c03_in).
Inductive c03_anyout := OOn (o:c03_out) | OOff (o:off_out).
Definition C03_any_holds (i:c03_any) (o:c03_anyout) : Prop :=
  match i, o with COn i, OOn o => C03_holds i o | COff i, OOff o => Offline_holds i o | _, _ => False end.
Definition check_C03_any (i:c03_any) (o:c03_anyout) : bool :=
  match i, o with COn i, OOn o => check_C03 i o | COff i, OOff o => check_offline i o | _, _ => false end.
Definition corr_C03_any (i:c03_any) (o:c03_anyout) : bool :=
  match i, o with COn i, OOn o => corr_C03 i o | COff i, OOff o => corr_offline i o | _, _ => false end.
Definition model_C03_any (i:c03_any) : c03_anyout :=
  match i with COn i => OOn (model_C03 i) | COff i => OOff (model_offline i) end.
