(* C05 — "Stamp moves only the branches that share lineage with the target". *)
From AV Require Export Model.Stamp.
From AV Require Import Spec.C03.       (* ndeps_okb: the observed r_ndeps agree with the model of _normalize_depends_on *)

Definition c05_in := (graph * bool * target * list N)%type.       (* history, --purge, target, rows before *)
Definition c05_out := res (list step * list obs).                 (* steps of _stamp_revs, what each did; or the exception of _stamp_revs *)

(* ---------- the mathematical objects ---------- *)
Definition lineage (G:graph) (R:list N) (h:N) : Prop :=
  exists t, In t R /\ (path (all_down G) t h \/ path (all_down G) h t).      (* ancestor or descendant, directly or through dependencies *)
Definition antichain (G:graph) (rws:list N) : Prop :=
  forall x y, In x rws -> In y rws -> x <> y -> ~ path (all_down G) x y.
Definition one_row5 (s:stmt) : Prop :=
  match s with Ins _ => True | Del _ n => n = 1 | Upd _ _ n => n = 1 end.
Definition obs_fine (o:obs) : Prop := match o with ObsOk _ s => Forall one_row5 s | ObsErr _ => False end.
Fixpoint final_rows (os:list obs) (rws:list N) : list N :=
  match os with
  | ObsOk r _ :: os' => final_rows os' r
  | _ :: os' => final_rows os' rws
  | [] => rws
  end.
Definition targets_of (t:target) : list N := match t with TBase => [] | THeads o => o | TIds l => l end.

(* rows' == (H \ lineage(R)) U R, duplicate-free, an antichain; base empties the table *)
Definition stamped_ok (G:graph) (t:target) (H rws':list N) : Prop :=
  NoDup rws' /\ antichain G rws' /\
  match t with
  | TBase => rws' = []
  | _ => forall x, In x rws' <-> (In x H /\ ~ lineage G (targets_of t) x) \/ In x (targets_of t)
  end.

(* decidable domain of the statement: a well-formed history, a duplicate-free antichain of revisions as the
   state, targets that are distinct, pairwise unrelated revisions (otherwise "(H \ lineage R) U R" is not an antichain
   and the statement is unsatisfiable); for `heads` the oracle order is a permutation of the real heads *)
Definition closure_d (G:graph) (l:list N) : option (list N) := reach_set (all_down G) G l.      (* ancestors-or-self *)
Definition closure_u (G:graph) (l:list N) : option (list N) := reach_set (all_nextrev G) G l.   (* descendants-or-self *)
Definition antichainb (G:graph) (rws:list N) : bool :=
  forallb (fun x => match closure_d G [x] with
                    | Some a => forallb (fun y => N.eqb y x || negb (memN y a)) rws
                    | None => false end) rws.
Definition pre_C05 (i:c05_in) : bool :=
  let '(G, _, t, H) := i in
  wf_refsb G && nodupb H && subsetN H (ids G) && antichainb G H &&
  nodupb (targets_of t) && subsetN (targets_of t) (ids G) && antichainb G (targets_of t) &&
  match t with THeads o => permb o (real_heads_of G) | TIds l => negb (is_nil l) | TBase => true end.

Definition C05_holds (i:c05_in) (o:c05_out) : Prop :=
  let '(G, purge, t, H) := i in
  pre_C05 i = true ->
  exists steps os, o = Ok (steps, os) /\ length os = length steps /\ Forall obs_fine os /\
    let H0 := if purge then [] else H in
    stamped_ok G t H0 (final_rows os H0).

(* ---------- the decider ---------- *)
Definition lineageb (G:graph) (R:list N) (h:N) : bool :=
  match closure_d G [h], closure_u G [h] with
  | Some a, Some d => negb (is_nil (interN R (a ++ d)))
  | _, _ => true
  end.
Definition fuel_ok (G:graph) (l:list N) : bool :=
  forallb (fun h => match closure_d G [h], closure_u G [h] with Some _, Some _ => true | _, _ => false end) l.
Definition one_row5b (s:stmt) : bool :=
  match s with Ins _ => true | Del _ n => Nat.eqb n 1 | Upd _ _ n => Nat.eqb n 1 end.
Definition obs_fineb (o:obs) : bool := match o with ObsOk _ s => forallb one_row5b s | ObsErr _ => false end.
Definition stamped_okb (G:graph) (t:target) (H rws':list N) : bool :=
  nodupb rws' && antichainb G rws' &&
  match t with
  | TBase => is_nil rws'
  | _ => fuel_ok G H && seteqN rws' (filter (fun h => negb (lineageb G (targets_of t) h)) H ++ targets_of t)
  end.
Definition check_C05 (i:c05_in) (o:c05_out) : bool :=
  let '(G, purge, t, H) := i in
  if pre_C05 i then
    match o with
    | Ok (steps, os) =>
      Nat.eqb (length os) (length steps) && forallb obs_fineb os &&
      let H0 := if purge then [] else H in stamped_okb G t H0 (final_rows os H0)
    | Err _ => false
    end
  else true.

(* the class on which the statement is proved: at most one target shares lineage with a row of the table, or every
   target that does is itself a row (single target, base, purge are inside; `stamp heads` with two affected branches is
   outside: C05_multi_refuted — note that its two affected targets have DISJOINT lineages with the rows, so disjointness
   is not enough: every StampStep receives all filtered heads) *)
Definition related_targets (G:graph) (R H:list N) : list N :=
  filter (fun t => negb (is_nil (filter (lineageb G [t]) H))) R.
Definition inclass_C05 (i:c05_in) : bool :=
  let '(G, purge, t, H) := i in
  let H0 := if purge then [] else H in
  pre_C05 i && (Nat.leb (length (related_targets G (targets_of t) H0)) 1 || subsetN (related_targets G (targets_of t) H0) H0).

(* ---------- exact correspondence ---------- *)
Definition herr_eqb5 (a b:herr) : bool :=
  match a, b with
  | EKey, EKey | EAssert, EAssert | ECommand, ECommand | EIndex, EIndex | EFuel, EFuel | EOther, EOther => true
  | _, _ => false
  end.
Definition stmt_eqb (a b:stmt) : bool :=
  match a, b with
  | Ins v, Ins w => N.eqb v w
  | Del v n, Del w m => N.eqb v w && Nat.eqb n m
  | Upd f t n, Upd g u m => N.eqb f g && N.eqb t u && Nat.eqb n m
  | _, _ => false
  end.
Definition step_eqb (a b:step) : bool :=
  match a, b with
  | RevStep r u, RevStep r' u' => N.eqb r r' && Bool.eqb u u'
  | StampStep f t u m, StampStep f' t' u' m' =>
      list_eqb N.eqb f f' && list_eqb N.eqb t t' && Bool.eqb u u' && Bool.eqb m m'
  | _, _ => false
  end.
Definition obs_eqb5 (a b:obs) : bool :=
  match a, b with
  | ObsOk r s, ObsOk r' s' => permb r r' && list_eqb stmt_eqb s s'
  | ObsErr e, ObsErr e' => herr_eqb5 e e'
  | _, _ => false
  end.
Definition model_C05 (i:c05_in) : c05_out :=
  let '(G, purge, t, H) := i in
  match stamp G purge t H with Ok (steps, os, _) => Ok (steps, os) | Err e => Err e end.
Definition corr_C05 (i:c05_in) (o:c05_out) : bool :=
  (let '(G, _, _, _) := i in ndeps_okb G) &&
  match model_C05 i, o with
  | Ok (s, os), Ok (s', os') => list_eqb step_eqb s s' && list_eqb obs_eqb5 os os'
  | Err e, Err e' => herr_eqb5 e e'
  | _, _ => false
  end.

(* ================================================================== end to end: command.stamp on a database file *)
(* history, --purge, resolved groups / dests (see Model.Stamp.stamp_revs_gen), rows in the table before; the output is
   what a fresh connection reads after the command, or the exception class of the command *)
Definition e2e_in := (graph * bool * list (list N) * option (list N) * list N)%type.
Definition e2e_out := res (list N).
Definition e2e_target (dests:option (list N)) : target := match dests with None => TBase | Some l => TIds l end.
(* the rows the stamp starts from: --purge empties the table first, whatever it held (also ids unknown to the history) *)
Definition e2e_start (purge:bool) (H:list N) : list N := if purge then [] else H.

Definition E2E_holds (i:e2e_in) (o:e2e_out) : Prop :=
  let '(G, purge, _, dests, H) := i in
  pre_C05 (G, false, e2e_target dests, e2e_start purge H) = true ->
  exists rws', o = Ok rws' /\ stamped_ok G (e2e_target dests) (e2e_start purge H) rws'.
Definition check_e2e (i:e2e_in) (o:e2e_out) : bool :=
  let '(G, purge, _, dests, H) := i in
  if pre_C05 (G, false, e2e_target dests, e2e_start purge H) then
    match o with Ok rws' => stamped_okb G (e2e_target dests) (e2e_start purge H) rws' | Err _ => false end
  else true.
Definition model_e2e (i:e2e_in) : e2e_out :=
  let '(G, purge, groups, dests, H) := i in stamp_cmd G purge groups dests H.
Definition corr_e2e (i:e2e_in) (o:e2e_out) : bool :=
  (let '(G, _, _, _, _) := i in ndeps_okb G) &&
  match model_e2e i, o with
  | Ok a, Ok b => permb a b
  | Err e, Err e' => herr_eqb5 e e'
  | _, _ => false
  end.

(* ---------- label targets, end to end ---------- *)
Definition label_in := (graph * bool * ltarget * list N)%type.
(* <label>@base: every row that shares lineage with the revision declaring the label is deleted, nothing else changes *)
Definition label_base_ok (G:graph) (lr:N) (H rws':list N) : Prop :=
  NoDup rws' /\ antichain G rws' /\ forall x, In x rws' <-> In x H /\ ~ lineage G [lr] x.
Definition Label_holds (i:label_in) (o:e2e_out) : Prop :=
  let '(G, purge, t, H) := i in
  let H0 := e2e_start purge H in
  match resolve_label G t with
  | Ok ([[lr; h]], Some [h']) =>       (* <label>@head resolved to the head h: the statement for the single target h *)
      pre_C05 (G, false, TIds [h], H0) = true -> exists rws', o = Ok rws' /\ stamped_ok G (TIds [h]) H0 rws'
  | Ok ([[lr]], None) =>
      pre_C05 (G, false, TBase, H0) = true -> exists rws', o = Ok rws' /\ label_base_ok G lr H0 rws'
  | _ => True                           (* the label does not resolve (unknown label, several heads): nothing is claimed *)
  end.
Definition check_label (i:label_in) (o:e2e_out) : bool :=
  let '(G, purge, t, H) := i in
  let H0 := e2e_start purge H in
  match resolve_label G t with
  | Ok ([[lr; h]], Some [h']) =>
      if pre_C05 (G, false, TIds [h], H0) then
        match o with Ok rws' => stamped_okb G (TIds [h]) H0 rws' | Err _ => false end
      else true
  | Ok ([[lr]], None) =>
      if pre_C05 (G, false, TBase, H0) then
        match o with
        | Ok rws' => nodupb rws' && antichainb G rws' && seteqN rws' (filter (fun x => negb (lineageb G [lr] x)) H0)
        | Err _ => false
        end
      else true
  | _ => true
  end.
Definition model_label (i:label_in) : e2e_out := let '(G, purge, t, H) := i in stamp_label G purge t H.
Definition corr_label (i:label_in) (o:e2e_out) : bool :=
  (let '(G, _, _, _) := i in ndeps_okb G) &&
  match model_label i, o with
  | Ok a, Ok b => permb a b
  | Err e, Err e' => herr_eqb5 e e'
  | _, _ => false
  end.
(* the class on which <label>@head is right: no row shares lineage with the labelled revision only *)
Definition label_class (i:label_in) : bool :=
  let '(G, purge, t, H) := i in
  match resolve_label G t with
  | Ok ([[lr; h]], Some _) => forallb (fun x => negb (lineageb G [lr] x) || lineageb G [h] x) (e2e_start purge H)
  | _ => true
  end.

(* ---------- partial ids, end to end ---------- *)
Definition partial_in := (graph * bool * list (str * N) * list str * list N)%type.   (* history, purge, _revision_map keys, targets as typed, rows *)
Definition Partial_holds (i:partial_in) (o:e2e_out) : Prop :=
  let '(G, purge, keys, targets, H) := i in
  match resolve_partials keys targets with
  | Ok ts => E2E_holds (G, purge, map (fun x => [x]) ts, Some ts, H) o     (* the statement for the revisions the prefixes denote *)
  | Err _ => True                                                           (* no / ambiguous match: nothing is claimed *)
  end.
Definition check_partial (i:partial_in) (o:e2e_out) : bool :=
  let '(G, purge, keys, targets, H) := i in
  match resolve_partials keys targets with
  | Ok ts => check_e2e (G, purge, map (fun x => [x]) ts, Some ts, H) o
  | Err _ => true
  end.
Definition model_partial (i:partial_in) : e2e_out :=
  let '(G, purge, keys, targets, H) := i in stamp_partial G purge keys targets H.
Definition corr_partial (i:partial_in) (o:e2e_out) : bool :=
  (let '(G, _, _, _, _) := i in ndeps_okb G) &&
  match model_partial i, o with
  | Ok a, Ok b => permb a b
  | Err e, Err e' => herr_eqb5 e e'
  | _, _ => false
  end.

(* ---------- several databases in one run ---------- *)
Definition multi_in := (graph * bool * list (list N) * option (list N) * list (list N))%type.   (* ..., the rows of every database *)
Definition multi_out := res (list (list N)).
Fixpoint each_db (G:graph) (purge:bool) (groups:list (list N)) (dests:option (list N)) (dbs rs:list (list N)) : Prop :=
  match dbs, rs with
  | [], [] => True
  | H :: dbs', r :: rs' => E2E_holds (G, purge, groups, dests, H) (Ok r) /\ each_db G purge groups dests dbs' rs'
  | _, _ => False
  end.
Definition all_in_domain (G:graph) (purge:bool) (dests:option (list N)) (dbs:list (list N)) : bool :=
  forallb (fun H => pre_C05 (G, false, e2e_target dests, e2e_start purge H)) dbs.
(* every database ends as the single-database statement says for its own rows *)
Definition Multi_holds (i:multi_in) (o:multi_out) : Prop :=
  let '(G, purge, groups, dests, dbs) := i in
  all_in_domain G purge dests dbs = true -> exists rs, o = Ok rs /\ each_db G purge groups dests dbs rs.
Fixpoint each_dbb (G:graph) (purge:bool) (groups:list (list N)) (dests:option (list N)) (dbs rs:list (list N)) : bool :=
  match dbs, rs with
  | [], [] => true
  | H :: dbs', r :: rs' => check_e2e (G, purge, groups, dests, H) (Ok r) && each_dbb G purge groups dests dbs' rs'
  | _, _ => false
  end.
Definition check_multi (i:multi_in) (o:multi_out) : bool :=
  let '(G, purge, groups, dests, dbs) := i in
  if all_in_domain G purge dests dbs then
    match o with Ok rs => each_dbb G purge groups dests dbs rs | Err _ => false end
  else true.
Definition model_multi (i:multi_in) : multi_out :=
  let '(G, purge, groups, dests, dbs) := i in stamp_multi G purge groups dests dbs.
Definition corr_multi (i:multi_in) (o:multi_out) : bool :=
  (let '(G, _, _, _, _) := i in ndeps_okb G) &&
  match model_multi i, o with
  | Ok a, Ok b => list_eqb permb a b
  | Err e, Err e' => herr_eqb5 e e'
  | _, _ => false
  end.

(* what the engine evaluates: any kind of case *)
Inductive c05_any := CStamp (i:c05_in) | CE2E (i:e2e_in) | CLabel (i:label_in) | CPartial (i:partial_in) | CMulti (i:multi_in).
Inductive c05_anyout := OStamp (o:c05_out) | OE2E (o:e2e_out) | OMulti (o:multi_out).
Definition C05_any_holds (i:c05_any) (o:c05_anyout) : Prop :=
  match i, o with
  | CStamp i, OStamp o => C05_holds i o | CE2E i, OE2E o => E2E_holds i o | CLabel i, OE2E o => Label_holds i o
  | CPartial i, OE2E o => Partial_holds i o | CMulti i, OMulti o => Multi_holds i o
  | _, _ => False end.
Definition check_C05_any (i:c05_any) (o:c05_anyout) : bool :=
  match i, o with
  | CStamp i, OStamp o => check_C05 i o | CE2E i, OE2E o => check_e2e i o | CLabel i, OE2E o => check_label i o
  | CPartial i, OE2E o => check_partial i o | CMulti i, OMulti o => check_multi i o
  | _, _ => false end.
Definition corr_C05_any (i:c05_any) (o:c05_anyout) : bool :=
  match i, o with
  | CStamp i, OStamp o => corr_C05 i o | CE2E i, OE2E o => corr_e2e i o | CLabel i, OE2E o => corr_label i o
  | CPartial i, OE2E o => corr_partial i o | CMulti i, OMulti o => corr_multi i o
  | _, _ => false end.
Definition model_C05_any (i:c05_any) : c05_anyout :=
  match i with
  | CStamp i => OStamp (model_C05 i) | CE2E i => OE2E (model_e2e i) | CLabel i => OE2E (model_label i)
  | CPartial i => OE2E (model_partial i) | CMulti i => OMulti (model_multi i)
  end.
