(* C09 — transparent decidable equalities on the types of Model/Ops.v (so that vm_compute evaluates the
   deciders) and two small option helpers.  Helper of Spec/C09.v and Model/C09Ddl.v. *)
From AV Require Export Model.Ops.

(* ------------------------------------------------------------------ decidable equality
   (transparent, so that vm_compute evaluates the deciders) *)
Definition str_eq_dec : forall a b : str, {a = b} + {a <> b} := list_eq_dec N.eq_dec.
Definition option_eq_dec {A} (d : forall a b : A, {a = b} + {a <> b}) : forall a b : option A, {a = b} + {a <> b}.
Proof. decide equality. Defined.
Definition ostr_eq_dec := option_eq_dec str_eq_dec.
Definition obool_eq_dec := option_eq_dec bool_dec.
Definition otok_eq_dec := option_eq_dec N.eq_dec.
Definition lstr_eq_dec := list_eq_dec str_eq_dec.
Definition tri_eq_dec {A} (d : forall a b : A, {a = b} + {a <> b}) : forall a b : tri A, {a = b} + {a <> b}.
Proof. decide equality. apply option_eq_dec; exact d. Defined.

Ltac dec_eq :=
  decide equality;
  first [ apply N.eq_dec | apply bool_dec | apply str_eq_dec | apply ostr_eq_dec | apply obool_eq_dec
        | apply otok_eq_dec | apply lstr_eq_dec | apply (tri_eq_dec N.eq_dec) | apply (tri_eq_dec str_eq_dec) | idtac ].

Definition column_eq_dec : forall a b : column, {a = b} + {a <> b}. Proof. dec_eq. Defined.
Definition fkopts_eq_dec : forall a b : fkopts, {a = b} + {a <> b}. Proof. dec_eq. Defined.
Definition constr_eq_dec : forall a b : constr, {a = b} + {a <> b}. Proof. dec_eq; apply fkopts_eq_dec. Defined.
Definition iexpr_eq_dec : forall a b : iexpr, {a = b} + {a <> b}. Proof. dec_eq. Defined.
Definition index_eq_dec : forall a b : index, {a = b} + {a <> b}. Proof. dec_eq; apply (list_eq_dec iexpr_eq_dec). Defined.
Definition tdesc_eq_dec : forall a b : tdesc, {a = b} + {a <> b}.
Proof. dec_eq; first [apply (list_eq_dec constr_eq_dec) | apply (list_eq_dec column_eq_dec) | apply (list_eq_dec index_eq_dec)]. Defined.
Definition addcons_eq_dec : forall a b : addcons, {a = b} + {a <> b}. Proof. dec_eq; apply fkopts_eq_dec. Defined.
Definition ctype_eq_dec : forall a b : ctype, {a = b} + {a <> b}. Proof. decide equality. Defined.
Definition cindex_eq_dec : forall a b : cindex, {a = b} + {a <> b}. Proof. dec_eq; apply (list_eq_dec iexpr_eq_dec). Defined.
Definition trev_eq_dec : forall a b : trev, {a = b} + {a <> b}.
Proof. dec_eq; first [apply (list_eq_dec constr_eq_dec) | apply (list_eq_dec column_eq_dec)]. Defined.
Definition altercol_eq_dec : forall a b : altercol, {a = b} + {a <> b}. Proof. dec_eq. Defined.
Definition addcolrev_eq_dec : forall a b : str * column * option str, {a = b} + {a <> b}.
Proof. decide equality; [apply ostr_eq_dec | decide equality; [apply column_eq_dec | apply str_eq_dec]]. Defined.
Definition op_eq_dec : forall a b : op, {a = b} + {a <> b}.
Proof. dec_eq; first [ apply addcons_eq_dec | apply (option_eq_dec addcons_eq_dec) | apply (option_eq_dec ctype_eq_dec)
                     | apply cindex_eq_dec | apply (option_eq_dec cindex_eq_dec) | apply (option_eq_dec str_eq_dec)
                     | apply tdesc_eq_dec | apply (option_eq_dec trev_eq_dec) | apply altercol_eq_dec
                     | apply column_eq_dec | apply (option_eq_dec addcolrev_eq_dec) ]. Defined.
Definition top_eq_dec : forall a b : top, {a = b} + {a <> b}.
Proof. dec_eq; first [apply op_eq_dec | apply (list_eq_dec op_eq_dec)]. Defined.
Definition err_eq_dec : forall a b : err, {a = b} + {a <> b}. Proof. decide equality. Defined.
Definition res_eq_dec {A} (d : forall a b : A, {a = b} + {a <> b}) : forall a b : res A, {a = b} + {a <> b}.
Proof. decide equality. apply err_eq_dec. Defined.
Definition ddl_eq_dec : forall a b : ddl, {a = b} + {a <> b}.
Proof. dec_eq; first [ apply constr_eq_dec | apply (option_eq_dec ctype_eq_dec) | apply index_eq_dec | apply tdesc_eq_dec
                     | apply altercol_eq_dec | apply column_eq_dec ]. Defined.
Definition adiff_eq_dec : forall a b : adiff, {a = b} + {a <> b}. Proof. dec_eq. Defined.
Definition difft_eq_dec : forall a b : difft, {a = b} + {a <> b}.
Proof. dec_eq; first [ apply constr_eq_dec | apply index_eq_dec | apply tdesc_eq_dec | apply column_eq_dec | apply (list_eq_dec adiff_eq_dec) ]. Defined.
Definition kind_eq_dec : forall a b : kind, {a = b} + {a <> b}.
Proof. decide equality; first [apply ctype_eq_dec | apply (option_eq_dec ctype_eq_dec)]. Defined.
Definition tkind_eq_dec : forall a b : tkind, {a = b} + {a <> b}.
Proof. decide equality; first [apply kind_eq_dec | apply (list_eq_dec kind_eq_dec) | apply str_eq_dec | apply ostr_eq_dec]. Defined.

Definition decb {A} (d : forall a b : A, {a = b} + {a <> b}) (a b : A) : bool := if d a b then true else false.
Lemma decb_true {A} (d : forall a b : A, {a = b} + {a <> b}) a b : decb d a b = true <-> a = b.
Proof. unfold decb. destruct (d a b); split; congruence. Qed.


Definition tri_is_set {A} (t : tri A) : bool := match t with Unset => false | SetTo _ => true end.
Definition is_some {A} (o : option A) : bool := match o with Some _ => true | None => false end.
