(* C13 — "alter_column changes only what it was asked to change, on every dialect".

   The property as a Prop over (input, emitted abstract statements + exception), a boolean
   decider applied to the implementation's output, and the exact model-vs-implementation
   comparison.  Statement of the property (properties.jsonl):

     the DDL emitted for a column alteration changes each requested attribute to the requested
     value and no other attribute; where a dialect must restate the whole column definition,
     every restated attribute that was not requested equals the stated existing value; dialects
     that cannot express a requested change raise instead of emitting something else.       *)
From AV Require Export Model.AlterCol.
From Coq Require Export List NArith Bool.
Export ListNotations.

(* ------------------------------------------------------------------ attributes and tagged values *)
Inductive attr := AName | AType | ANull | ADefault | AComment | AAutoinc.
Definition all_attrs := [AName; AType; ANull; ADefault; AComment; AAutoinc].

Inductive aval :=
| VName (n:N) | VType (t:ty) | VNull (b:bool) | VDefault (d:option N) | VComment (c:option N) | VAutoinc (b:bool).

Definition attr_of (v:aval) : attr :=
  match v with VName _ => AName | VType _ => AType | VNull _ => ANull | VDefault _ => ADefault
             | VComment _ => AComment | VAutoinc _ => AAutoinc end.

Definition get (a:attr) (st:colstate) : aval :=
  match a with
  | AName => VName (c_name st) | AType => VType (c_type st) | ANull => VNull (c_null st)
  | ADefault => VDefault (c_default st) | AComment => VComment (c_comment st) | AAutoinc => VAutoinc (c_autoinc st)
  end.

Definition set (st:colstate) (v:aval) : colstate :=
  match v with
  | VName n => mkCol n (c_type st) (c_null st) (c_default st) (c_comment st) (c_autoinc st)
  | VType t => mkCol (c_name st) t (c_null st) (c_default st) (c_comment st) (c_autoinc st)
  | VNull b => mkCol (c_name st) (c_type st) b (c_default st) (c_comment st) (c_autoinc st)
  | VDefault d => mkCol (c_name st) (c_type st) (c_null st) d (c_comment st) (c_autoinc st)
  | VComment c => mkCol (c_name st) (c_type st) (c_null st) (c_default st) c (c_autoinc st)
  | VAutoinc b => mkCol (c_name st) (c_type st) (c_null st) (c_default st) (c_comment st) b
  end.

(* every statement is a constant assignment to some attributes (proved equal to [sem] in the proofs) *)
Definition spec_vals (s:colspec) : list aval :=
  [VType (cs_type s); VNull (cs_null s); VDefault (cs_default s); VComment (cs_comment s); VAutoinc (cs_autoinc s)].
Definition assign (s:stmt) : list aval :=
  match s with
  | SetNull _ b => [VNull b]
  | SetDefault _ d | MySQLAlterDefault _ d => [VDefault d]
  | SetType _ t _ => [VType t]
  | SetComment _ c => [VComment c]
  | Rename _ n | MSSQLSpRename _ n => [VName n]
  | MySQLChange _ n s => VName n :: spec_vals s
  | MySQLModify _ s => spec_vals s
  | MSSQLAlterNull _ t b => [VType t; VNull b]
  | MSSQLAlterType _ t => [VType t; VNull true]
  | MSSQLDropDefault _ => [VDefault None]
  | MSSQLAddDefault _ v | AddIdentity _ v | AlterIdentity _ v _ => [VDefault (Some v)]
  | DropIdentity _ => [VDefault None]
  | DropConstraint _ | AddConstraint _ _ | AlterIdentityEmpty _ => []
  end.

(* the effect of a statement list when every statement addresses the column correctly *)
Definition run_total (ss:list stmt) (st:colstate) : colstate := fold_left apply ss st.

(* ... and whether it does: starting from the name [cur], every statement that names a column names the
   column's current name; a rename changes the current name for the statements after it *)
Definition name_after (cur:N) (s:stmt) : N :=
  match s with Rename _ n | MSSQLSpRename _ n | MySQLChange _ n _ => n | _ => cur end.
Fixpoint addr_ok (cur:N) (ss:list stmt) : bool :=
  match ss with
  | [] => true
  | s :: r => match addr s with Some c => N.eqb c cur | None => true end && addr_ok (name_after cur s) r
  end.

(* the attributes a statement rewrites as part of *restating* the column definition, i.e. whether or
   not they were requested: MySQL CHANGE/MODIFY restate everything but the name, the MSSQL alter
   restates type and nullability (without NULL/NOT NULL it resets nullability) *)
Definition restates (s:stmt) : list attr :=
  match s with
  | MySQLChange _ _ _ | MySQLModify _ _ => [AType; ANull; ADefault; AComment; AAutoinc]
  | MSSQLAlterNull _ _ _ => [AType; ANull]
  | MSSQLAlterType _ _ => [ANull]
  | _ => []
  end.

(* ------------------------------------------------------------------ input / output of one call *)
(* the table the operation is about: (schema or None, table name) *)
Definition target := (option N * N)%type.
Record c13_in := mkIn { i_d : dialect; i_target : target; i_req : request; i_ex : existing }.
(* output of the implementation: every emitted statement with the (schema, table) it targets *)
Definition iout := (list (target * stmt) * option err)%type.

(* requested value of an attribute, if it was requested *)
Definition tri_val (f:option N -> aval) (t:tri N) : option aval :=
  match t with TFalse => None | TNone => Some (f None) | TSome v => Some (f (Some v)) end.
Definition req_val (req:request) (a:attr) : option aval :=
  match a with
  | AName => option_map VName (r_name req)
  | AType => option_map VType (r_type req)
  | ANull => option_map VNull (r_null req)
  | ADefault => tri_val VDefault (r_default req)
  | AComment => tri_val VComment (r_comment req)
  | AAutoinc => option_map VAutoinc (r_autoinc req)
  end.

(* stated existing value of an attribute, if it was stated.  existing_server_default=None states "no
   default" (the unstated value is False); existing_comment=None is "not stated" *)
Definition stated_val (ex:existing) (a:attr) : option aval :=
  match a with
  | AName => Some (VName (e_name ex))
  | AType => option_map VType (e_type ex)
  | ANull => option_map VNull (e_null ex)
  | ADefault => tri_val VDefault (e_default ex)
  | AComment => option_map (fun c => VComment (Some c)) (e_comment ex)
  | AAutoinc => option_map VAutoinc (e_autoinc ex)
  end.

(* every stated existing_* value is the column's actual value *)
Definition matches (ex:existing) (st0:colstate) : Prop :=
  forall a v, stated_val ex a = Some v -> get a st0 = v.

(* what a restating statement puts for an attribute that is neither requested nor stated:
   NULL, no default, no comment, not auto_increment.  (no reading for type and name) *)
Definition default_reading (a:attr) : option aval :=
  match a with
  | ANull => Some (VNull true) | ADefault => Some (VDefault None)
  | AComment => Some (VComment None) | AAutoinc => Some (VAutoinc false)
  | AName | AType => None
  end.

(* the documented requirement "state the existing attributes": an attribute that a restating
   statement rewrites and that was not requested is either stated, or the column happens to have
   the value the restatement falls back to *)
Definition known (ex:existing) (st0:colstate) (a:attr) : Prop :=
  stated_val ex a <> None \/ default_reading a = Some (get a st0).
Definition stated_enough (ss:list stmt) (req:request) (ex:existing) (st0:colstate) : Prop :=
  forall s a, In s ss -> In a (restates s) -> req_val req a = None -> known ex st0 a.

(* changes a dialect has no way to express (each raises in the current code) *)
Definition unsupported (i:c13_in) : bool :=
  let req := i_req i in let ex := i_ex i in
  (* a Computed / Identity object on either side of the server default *)
  let comp := _server_default_is_computed (r_default req) (r_dkind req) (e_default ex) (e_dkind ex) in
  let ident := _server_default_is_identity (r_default req) (r_dkind req) (e_default ex) (e_dkind ex) in
  let sdg := given (r_default req) in
  match i_d i with
  | Ddefault | Dsqlite => given (r_comment req) || (sdg && (comp || ident))
  | Dmssql => given (r_comment req) || (sdg && (comp || ident))
              || (isSome (r_null req) && negb (isSome (r_type req)) && negb (isSome (e_type ex)))
  | Dmysql | Dmariadb =>
      (negb (isSome (r_type req)) && negb (isSome (e_type ex))
       && (isSome (r_name req) || isSome (r_null req) || isSome (r_autoinc req) || given (r_comment req)))
      (* no way to alter a generated / identity column, or to make a column one *)
      || ((comp || ident)
          && (sdg || isSome (r_name req) || isSome (r_null req) || isSome (r_type req) || isSome (r_autoinc req)
              || given (r_comment req)
              (* a DateTime column is always restated with CHANGE, even when nothing is requested *)
              || _is_mysql_allowed_functional_default (or_else (r_type req) (e_type ex)) (r_default req)))
  | Dpostgresql => (isSome (r_using req) && negb (isSome (r_type req))) || (sdg && comp)
  | Doracle => (sdg && comp)
               (* an identity column cannot be given a plain default through MODIFY ... <identity options> *)
               || (sdg && ident && negb comp && is_kind KPlain (r_default req) (r_dkind req))
  end.

(* no statement gives an attribute that was not requested a value other than the stated one *)
Definition no_invention (req:request) (ex:existing) (ss:list stmt) : Prop :=
  forall s v w, In s ss -> In v (assign s) -> req_val req (attr_of v) = None ->
                stated_val ex (attr_of v) = Some w -> v = w.

(* a statement that restates the type was given one: the type is requested or stated (there is no fall-back
   reading for a type, so otherwise the restated type is invented) *)
Definition type_given (req:request) (ex:existing) (ss:list stmt) : Prop :=
  forall s, In s ss -> In AType (restates s) -> req_val req AType <> None \/ stated_val ex AType <> None.

Definition C13_holds (i:c13_in) (o:iout) : Prop :=
  let req := i_req i in let ex := i_ex i in
  let (tss, e) := o in
  let ss := map snd tss in
  (* every statement is about the operation's schema + table *)
  (forall ts, In ts tss -> fst ts = i_target i) /\
  no_invention req ex ss /\
  type_given req ex ss /\
  match e with
  | None =>
      unsupported i = false /\
      (* no statement addresses a column name the column does not have at that point (run = Some _),
         and the final state is "existing overridden by requested" *)
      forall st0, matches ex st0 -> stated_enough ss req ex st0 -> run ss st0 = Some (override st0 req)
  | Some _ =>
      (* raised: only because the change cannot be expressed, and what was emitted before the
         exception addressed the column correctly and moved attributes only to their requested values *)
      unsupported i = true /\
      forall st0, matches ex st0 -> stated_enough ss req ex st0 ->
        exists st', run ss st0 = Some st' /\
        forall a, get a st' = get a st0 \/ get a st' = get a (override st0 req)
  end.

(* ------------------------------------------------------------------ boolean equalities *)
Definition opt_eqb {A} (f:A->A->bool) (a b:option A) : bool :=
  match a, b with Some x, Some y => f x y | None, None => true | _, _ => false end.
Definition ty_eqb (a b:ty) : bool :=
  N.eqb (ty_id a) (ty_id b) && Bool.eqb (ty_dt a) (ty_dt b) && opt_eqb N.eqb (ty_ck a) (ty_ck b).
Definition attr_eqb (a b:attr) : bool :=
  match a, b with
  | AName, AName | AType, AType | ANull, ANull | ADefault, ADefault | AComment, AComment | AAutoinc, AAutoinc => true
  | _, _ => false
  end.
Definition aval_eqb (a b:aval) : bool :=
  match a, b with
  | VName x, VName y => N.eqb x y
  | VType x, VType y => ty_eqb x y
  | VNull x, VNull y => Bool.eqb x y
  | VDefault x, VDefault y => opt_eqb N.eqb x y
  | VComment x, VComment y => opt_eqb N.eqb x y
  | VAutoinc x, VAutoinc y => Bool.eqb x y
  | _, _ => false
  end.
Definition spec_eqb (a b:colspec) : bool :=
  ty_eqb (cs_type a) (cs_type b) && Bool.eqb (cs_null a) (cs_null b) && Bool.eqb (cs_autoinc a) (cs_autoinc b)
  && opt_eqb N.eqb (cs_default a) (cs_default b) && opt_eqb N.eqb (cs_comment a) (cs_comment b).
Definition stmt_eqb (a b:stmt) : bool :=
  match a, b with
  | SetNull c x, SetNull c' y => N.eqb c c' && Bool.eqb x y
  | SetDefault c x, SetDefault c' y => N.eqb c c' && opt_eqb N.eqb x y
  | SetType c t u, SetType c' t' u' => N.eqb c c' && ty_eqb t t' && opt_eqb N.eqb u u'
  | SetComment c x, SetComment c' y => N.eqb c c' && opt_eqb N.eqb x y
  | Rename c x, Rename c' y => N.eqb c c' && N.eqb x y
  | MySQLChange c n s, MySQLChange c' n' s' => N.eqb c c' && N.eqb n n' && spec_eqb s s'
  | MySQLModify c s, MySQLModify c' s' => N.eqb c c' && spec_eqb s s'
  | MySQLAlterDefault c x, MySQLAlterDefault c' y => N.eqb c c' && opt_eqb N.eqb x y
  | MSSQLAlterNull c t b, MSSQLAlterNull c' t' b' => N.eqb c c' && ty_eqb t t' && Bool.eqb b b'
  | MSSQLAlterType c t, MSSQLAlterType c' t' => N.eqb c c' && ty_eqb t t'
  | MSSQLDropDefault c, MSSQLDropDefault c' => N.eqb c c'
  | MSSQLAddDefault c x, MSSQLAddDefault c' y => N.eqb c c' && N.eqb x y
  | MSSQLSpRename c x, MSSQLSpRename c' y => N.eqb c c' && N.eqb x y
  | DropConstraint x, DropConstraint y => N.eqb x y
  | AddConstraint c x, AddConstraint c' y => N.eqb c c' && N.eqb x y
  | AddIdentity c x, AddIdentity c' y => N.eqb c c' && N.eqb x y
  | DropIdentity c, DropIdentity c' => N.eqb c c'
  | AlterIdentity c x f, AlterIdentity c' y f' => N.eqb c c' && N.eqb x y && Bool.eqb f f'
  | AlterIdentityEmpty c, AlterIdentityEmpty c' => N.eqb c c' 
  | _, _ => false
  end.
Definition err_eqb (a b:err) : bool :=
  match a, b with
  | CommandError, CommandError | CompileError, CompileError | NotImplementedErr, NotImplementedErr
  | OtherErr, OtherErr => true
  | _, _ => false
  end.
Fixpoint stmts_eqb (a b:list stmt) : bool :=
  match a, b with
  | [], [] => true
  | x :: a', y :: b' => stmt_eqb x y && stmts_eqb a' b'
  | _, _ => false
  end.

(* ------------------------------------------------------------------ the decider *)
(* the last value the statement list assigns to attribute a, if any *)
Definition lastset (a:attr) (vs:list aval) : option aval :=
  fold_left (fun acc v => if attr_eqb (attr_of v) a then Some v else acc) vs None.
Definition all_assign (ss:list stmt) : list aval := flat_map assign ss.
Definition restated_attrs (ss:list stmt) : list attr := flat_map restates ss.
Definition mem_attr (a:attr) (l:list attr) : bool := existsb (attr_eqb a) l.

(* a value left in an attribute that was not requested is harmless iff it is the stated one, or the
   attribute is unstated, restated by some statement, and the value is the fall-back reading *)
Definition unrequested_ok (ex:existing) (ss:list stmt) (a:attr) (v:aval) : bool :=
  match stated_val ex a with
  | Some u => aval_eqb v u
  | None => mem_attr a (restated_attrs ss)
            && match default_reading a with Some u => aval_eqb v u | None => false end
  end.

Definition check_attr (req:request) (ex:existing) (ss:list stmt) (a:attr) : bool :=
  match lastset a (all_assign ss), req_val req a with
  | Some v, Some w => aval_eqb v w
  | None, Some w => match stated_val ex a with Some u => aval_eqb u w | None => false end
  | None, None => true
  | Some v, None => unrequested_ok ex ss a v
  end.

Definition check_attr_prefix (req:request) (ex:existing) (ss:list stmt) (a:attr) : bool :=
  match lastset a (all_assign ss) with
  | None => true
  | Some v => match req_val req a with
              | Some w => aval_eqb v w || match stated_val ex a with Some u => aval_eqb v u | None => false end
              | None => unrequested_ok ex ss a v
              end
  end.

Definition check_no_invention (req:request) (ex:existing) (ss:list stmt) : bool :=
  forallb (fun s => forallb (fun v =>
     match req_val req (attr_of v), stated_val ex (attr_of v) with
     | None, Some w => aval_eqb v w
     | _, _ => true
     end) (assign s)) ss.

Definition target_eqb (a b:target) : bool := opt_eqb N.eqb (fst a) (fst b) && N.eqb (snd a) (snd b).

Definition check_type_given (req:request) (ex:existing) (ss:list stmt) : bool :=
  negb (mem_attr AType (restated_attrs ss))
  || match req_val req AType with Some _ => true | None => false end
  || match stated_val ex AType with Some _ => true | None => false end.

Definition check_C13 (i:c13_in) (o:iout) : bool :=
  let req := i_req i in let ex := i_ex i in
  let (tss, e) := o in
  let ss := map snd tss in
  forallb (fun ts => target_eqb (fst ts) (i_target i)) tss &&
  check_no_invention req ex ss &&
  check_type_given req ex ss &&
  addr_ok (e_name ex) ss &&
  match e with
  | None => negb (unsupported i) && forallb (check_attr req ex ss) all_attrs
  | Some _ => unsupported i && forallb (check_attr_prefix req ex ss) all_attrs
  end.

(* ------------------------------------------------------------------ exact correspondence *)
Definition model_C13 (i:c13_in) : out := plan (i_d i) (i_req i) (i_ex i).
(* the impl-level call without the toimpl layer (used to structure the proofs) *)
Definition inner_C13 (i:c13_in) : out := alter_column (i_d i) (i_req i) (i_ex i).
Definition noop (s:stmt) : bool := match s with DropConstraint _ | AddConstraint _ _ => true | _ => false end.
(* every construct of one call is built with the call's own table_name / schema *)
Definition tagged_C13 (i:c13_in) : iout :=
  (map (fun s => (i_target i, s)) (fst (model_C13 i)), snd (model_C13 i)).

Fixpoint tstmts_eqb (a b:list (target * stmt)) : bool :=
  match a, b with
  | [], [] => true
  | (t, x) :: a', (t', y) :: b' => target_eqb t t' && stmt_eqb x y && tstmts_eqb a' b'
  | _, _ => false
  end.
Definition corr_C13 (i:c13_in) (o:iout) : bool :=
  let (ms, me) := tagged_C13 i in
  let (tss, e) := o in
  tstmts_eqb ms tss && opt_eqb err_eqb me e.

(* targets used by the harness encoders: schema 's' = 60, table 't' = 61 *)
Definition tS : target := (Some 60%N, 61%N).
Definition tN : target := (None, 61%N).

(* the class on which C13_effect is proved at full strength: a requested autoincrement is honoured
   only by MySQL/MariaDB (elsewhere it is a no-op request only if the stated existing value equals it) *)
Definition autoinc_honoured (i:c13_in) : bool :=
  match r_autoinc (i_req i) with
  | None => true
  | Some b => is_mysql (i_d i) || opt_eqb Bool.eqb (e_autoinc (i_ex i)) (Some b)
  end.

(* the class on which the model satisfies the property at full strength *)
(* server defaults are plain strings on both sides; Identity / Computed defaults are in the model and in the
   correspondence, and C13_raises_iff_unsupported covers them, but the effect theorems are stated for plain
   defaults *)
Definition plain_defaults (i:c13_in) : bool :=
  dkind_eqb (r_dkind (i_req i)) KPlain && dkind_eqb (e_dkind (i_ex i)) KPlain.
Definition inclass_C13 (i:c13_in) : bool := autoinc_honoured i && plain_defaults i.

(* ------------------------------------------------------------------ the existing_* values each dialect needs
   (C13_stated_enough_exact proves that, for the statements the model emits, [stated_enough] is exactly this) *)
Definition mysql_restates (req:request) (ex:existing) : bool :=
  isSome (or_else (r_type req) (e_type ex)) &&
  (isSome (r_name req)
   || _is_mysql_allowed_functional_default (or_else (r_type req) (e_type ex)) (r_default req)
   || isSome (r_null req) || isSome (r_type req) || isSome (r_autoinc req) || given (r_comment req)).

Definition existing_needed (i:c13_in) (st0:colstate) : Prop :=
  let req := i_req i in let ex := i_ex i in
  match i_d i with
  | Dmysql | Dmariadb =>
      (* CHANGE / MODIFY is emitted: every attribute that is not requested *)
      mysql_restates req ex = true ->
      forall a, In a [AType; ANull; ADefault; AComment; AAutoinc] -> req_val req a = None -> known ex st0 a
  | Dmssql =>
      (* type_ without nullable: existing_nullable *)
      isSome (r_type req) = true -> r_null req = None -> known ex st0 ANull
  | Ddefault | Dsqlite | Dpostgresql | Doracle => True
  end.

(* "the requirement fails at attribute a only": stated values are right, every other attribute is known *)
Definition unknown_only_at (req:request) (ex:existing) (st0:colstate) (a:attr) : Prop :=
  matches ex st0 /\ (forall b, b <> a -> req_val req b = None -> known ex st0 b) /\
  req_val req a = None /\ ~ known ex st0 a.

(* dialect d really needs attribute a: an input on which only a is unknown, no exception, wrong effect *)
Definition needed_witness (d:dialect) (a:attr) : Prop :=
  exists i st0, i_d i = d /\ autoinc_honoured i = true /\ unknown_only_at (i_req i) (i_ex i) st0 a /\
                snd (model_C13 i) = None /\
                exists st', run (fst (model_C13 i)) st0 = Some st' /\ st' <> override st0 (i_req i).
