(* C19 — "Every revision file in the configured locations is loaded exactly once".

   The reference below is written from the documented rules (alembic.ini template, tutorial "sourceless",
   "version_locations", "version_path_separator", "recursive_version_locations", changelog 0.9.6 on __pycache__),
   by *path algebra over an enumeration of the whole tree* — every real file of the tree is enumerated exactly
   once and kept when the rules say it is a revision file of one of the configured locations — not by walking
   the locations the way the code does.

   WHAT DECIDES WHICH FILES BECOME REVISIONS, and how each item is treated (E = modelled exactly in Model/Loader.v
   and compared exactly with the real ScriptDirectory on materialised trees; A = assumption / outside):
   E  from_config: version_locations unset/empty -> <script_location>/versions; version_path_separator = space /
      newline / os / ":" / ";" / none (legacy regex ", *| +") / anything else (ValueError); strip; blank items dropped
   E  %(here)s in alembic.ini: the harness writes it, ConfigParser expands it to the absolute root ("/R" in the model)
   E  abspath normalisation of an item ("", ".", "..", "//", trailing "/"); missing locations are skipped
      (os.path.exists); a location that is a symlink / passes through a symlink; a location that is a file
   A  a relative item containing ":" (package resource), an absolute item outside the tree, leaving the tree by ".."
   E  Script._list_py_dir: os.walk top-down, non-recursive = first directory only, recursive = every real
      sub-directory (links to directories are listed under dirs and not followed), any directory whose path ends
      in "__pycache__" contributes nothing itself but its sub-directories are visited; hidden and "_"-directories
      are ordinary; sourceless: os.listdir(root/__pycache__) minus the names whose first dot-component is that of
      a *.py/*.pyc/*.pyo file of root (this is how "x.cpython-312.pyc" is tied to "x.py": no has_pep3147 /
      cache_from_source call is involved in listing)
   E  listing order: the tree value lists the entries of a directory in os.listdir order (observed by the harness);
      the model sorts where the code sorts — sorted(files); dirs.sort(), which `continue` jumps over below a
      ...__pycache__ directory; os.listdir(__pycache__) unsorted; locations in configured order.  It only matters
      for which Script stays in the map when an id is defined twice: C19_order_invariant / C19_map_order_refuted
   E  os.path.realpath de-duplication (`dupes`), the "loaded twice" warning, basename/dirname of the REAL path
      (a link is judged by the name of its target)
   E  _only_source_rev_file / _sourceless_rev_file as predicates on the name: suffix .py (.pyc/.pyo when sourceless),
      not ".#...", not "__init__..."; case sensitive ("a.PY" is not a revision file); hidden ".a.py" is one;
      other suffixes ("a.py.bak", "a.txt", "a") are not; "a.pyc.py" is a source, "a.py.pyc" a compiled file
   E  precedence: .py over .pyc over .pyo in the same directory (os.path.exists of the sibling)
   E  util.load_python_file: which loader the suffix selects, extension lost by os.path.splitext (".py", "..pyc"),
      .pyo through SourcelessFileLoader, content that cannot be imported -> the exception propagates (one error kind)
   A  pyc_file_from_path / cache_from_source: only reached when the ".py" path handed to load_python_file does not
      exist, which cannot happen for the realpath of a listed file (broken links are outside wf_tree); it serves
      env.py loading, not revision loading
   E  `module.revision`; a module without it gets its id from _legacy_rev.match(filename) (hex digits + ".py", so
      never for compiled files) or CommandError
   E  the Script record: Script(module, revision, path) hands module.down_revision / branch_labels / depends_on to
      Revision.__init__ unchanged; the model identifies the module (its tag = docstring) and the revision id, the
      harness reads both back from the real Script; interpretation of those attributes is C16/C17
   E  RevisionMap._revision_map as far as ids go: "present more than once" warning per repeated id (there is no
      error for a duplicated revision id), the last Script listed with an id stays in the map
   A  module.down_revision missing (AttributeError), revision ids that fail Revision.verify_rev_id, names with "\n" *)
From AV Require Export Model.Loader.
From Coq Require Export Permutation.

(* ------------------------------------------------------------------ the tree as a set of real entries *)
Fixpoint all_dirs (d:path) (n:node) {struct n} : list (path * list entry) :=
  match n with
  | Dir es =>
      (d, es) ::
      (fix sub (l:list entry) : list (path * list entry) :=
         match l with
         | [] => []
         | (nm, c) :: r => all_dirs (d ++ [nm]) c ++ sub r
         end) es
  | _ => []
  end.
Definition all_entries (T:node) : list lentry :=
  flat_map (fun de => map (fun e : entry => (fst de, fst e, snd e)) (snd de)) (all_dirs [] T).

(* ------------------------------------------------------------------ which names are revision files *)
(* a revision script is NAME.py; in sourceless mode also NAME.pyc / NAME.pyo; never editor lock files (".#...")
   nor package markers ("__init__...") *)
Definition is_rev_name (sl:bool) (n:str) : bool :=
  negb (prefixb s_lock n) && negb (prefixb s_init n) &&
  (suffixb s_py n || (sl && (suffixb s_pyc n || suffixb s_pyo n))).
(* a compiled file is superseded by its source next to it, a .pyo also by the .pyc *)
Definition superseded (T:node) (d:path) (nm:str) : bool :=
  if suffixb s_py nm then false
  else exists_in T d (removelast nm) || (suffixb s_pyo nm && exists_in T d (removelast nm ++ [99])).

(* ------------------------------------------------------------------ which directories a location contributes *)
Fixpoint is_prefix (p q:path) : bool :=
  match p, q with
  | [], _ => true
  | a :: p', b :: q' => str_eqb a b && is_prefix p' q'
  | _ :: _, [] => false
  end.
(* the location directory itself; with recursive_version_locations every real directory below it; directories
   whose name ends in __pycache__ never contribute their files directly *)
Definition loc_covers (rec:bool) (l:rloc) (d:path) : bool :=
  if path_eqb d (fst (fst l)) then negb (snd l)
  else rec && is_prefix (fst (fst l)) d && negb (ends_pycache (last d [])).

(* module names (first dot-component, as the code has it) of the python files (.py/.pyc/.pyo, editor lock files
   excepted) lying directly in D: a file in D/__pycache__ with one of these names duplicates a file of D *)
Definition version_file_stems (T:node) (D:path) : list str :=
  match lookup T D with
  | Some (Dir es) => map (fun e : entry => stem (fst e))
                         (filter (fun e : entry => negb (is_dirlike T (snd e)) && py_suffixed (fst e)
                                                   && negb (prefixb s_lock (fst e))) es)
  | _ => []
  end.

(* entry (d, nm, c) of the tree is handed to the loader by location l *)
Definition listed_by (T:node) (sl rec:bool) (le:lentry) (l:rloc) : bool :=
  let '(d, nm, c) := le in
  (negb (is_dirlike T c) && loc_covers rec l d)
  || (sl && match d with
            | [] => false
            | _ => str_eqb (last d []) s_pycache && loc_covers rec l (removelast d)
                   && negb (mem_str (stem nm) (version_file_stems T (removelast d)))
            end).
Definition entry_listed (T:node) (sl rec:bool) (locs:list rloc) (le:lentry) : bool :=
  existsb (listed_by T sl rec le) locs.

(* a real entry is reached either under its own name or through a symbolic link that is listed *)
Definition reached (T:node) (sl rec:bool) (locs:list rloc) (f:lentry) : bool :=
  entry_listed T sl rec locs f
  || existsb (fun l : lentry => match snd l with
                               | Link t => path_eqb t (le_path f) && entry_listed T sl rec locs l
                               | _ => false
                               end) (all_entries T).

Definition is_file (le:lentry) : bool := match snd le with File _ => true | _ => false end.
Definition wanted (T:node) (sl rec:bool) (locs:list rloc) (f:lentry) : bool :=
  is_file f && is_rev_name sl (snd (fst f)) && negb (superseded T (fst (fst f)) (snd (fst f)))
  && reached T sl rec locs f.
Definition expected_files (T:node) (sl rec:bool) (locs:list rloc) : list lentry :=
  filter (wanted T sl rec locs) (all_entries T).

(* the Script a revision file yields: its module with the module's `revision`, or for a module without that
   attribute the legacy id read off the file name (none: the load must fail) *)
Definition file_id (f:lentry) : option N :=
  match snd f with File (Some code) => module_revision (snd (fst f)) code | _ => None end.
Fixpoint ids_of (l:list lentry) : option (list N) :=
  match l with
  | [] => Some []
  | f :: r => match file_id f, ids_of r with
              | Some id, Some ids => Some (id :: ids)
              | _, _ => None
              end
  end.
(* every expected file contributes its id; a revision file that cannot be imported must make the load fail *)
Definition expected_from (T:node) (sl rec:bool) (locs:list rloc) : res (list N) :=
  match ids_of (expected_files T sl rec locs) with
  | Some ids => Ok ids
  | None => Err ELoad
  end.

(* ------------------------------------------------------------------ which locations are configured *)
Fixpoint fields (isdelim : N -> bool) (s:str) : list str :=
  match s with
  | [] => [[]]
  | x :: r => if isdelim x then [] :: fields isdelim r else cons_head x (fields isdelim r)
  end.
(* version_locations is split at version_path_separator ("os" = ":" on POSIX), items are stripped; without a
   separator, at spaces and/or commas.  Blank items are not locations. *)
Definition spec_split (sp:sep) (s:str) : list str :=
  match sp with
  | SepNone => filter nonempty (fields (fun c => N.eqb c 32 || N.eqb c 44) s)
  | _ => filter nonempty (map strip (fields (N.eqb (sep_char sp)) s))
  end.
Definition spec_locations (sp:sep) (s:option str) : res (list (option path)) :=
  match s with
  | None | Some [] => Ok [Some [s_sd; s_versions]]
  | Some s =>
      match sp with
      | SepBad => Err EValue
      | _ => match spec_split sp s with
             | [] => Ok [Some [s_sd; s_versions]]
             | l => Ok (map norm_path l)
             end
      end
  end.

Definition expected (i:input) : res (list N) :=
  match spec_locations (i_sep i) (i_locs i) with
  | Err e => Err e
  | Ok ps => expected_from (i_tree i) (i_sl i) (i_rec i) (flat_map (resolve_loc (i_tree i)) ps)
  end.

(* ------------------------------------------------------------------ the property *)
Definition count (x:N) (l:list N) : nat := count_occ N.eq_dec l x.

Definition C19_holds (i:input) (o:res obs) : Prop :=
  match o, expected i with
  | Ok ob, Ok ids =>
      Permutation (o_ids ob) ids                                   (* one Script per revision file, nothing else *)
      /\ (forall x, count x (o_dups ob) = pred (count x (map rid_of ids)))   (* an id defined by k files is reported k-1 times *)
      /\ NoDup (map rid_of (o_map ob))                             (* the map holds one Script per revision id, *)
      /\ incl (o_map ob) ids                                       (* each of them the Script of an expected file, *)
      /\ incl (map rid_of ids) (map rid_of (o_map ob))             (* and no revision id is missing *)
  | Err e, Err e' => e = e'                                        (* fails exactly when it has to, with that kind *)
  | _, _ => False
  end.

Definition lerr_eqb (a b:lerr) : bool :=
  match a, b with EValue, EValue | ELoad, ELoad | EOther, EOther => true | _, _ => false end.
Definition countb (x:N) (l:list N) : nat := length (filter (N.eqb x) l).
Definition same_counts (a b:list N) : bool := forallb (fun x => Nat.eqb (countb x a) (countb x b)) (a ++ b).

Definition check_C19 (i:input) (o:res obs) : bool :=
  match o, expected i with
  | Ok ob, Ok ids => same_counts (o_ids ob) ids
                     && forallb (fun x => Nat.eqb (countb x (o_dups ob)) (pred (countb x (map rid_of ids))))
                                (o_dups ob ++ map rid_of ids)
                     && nodupb (map rid_of (o_map ob)) && subsetN (o_map ob) ids
                     && subsetN (map rid_of ids) (map rid_of (o_map ob))
  | Err e, Err e' => lerr_eqb e e'
  | _, _ => false
  end.

(* exact correspondence on the observable: multiset of loaded ids, number of "loaded twice" warnings, multiset of
   ids in "present more than once" warnings, set of Scripts in the final revision map, or the error kind *)
Definition corr_C19 (i:input) (o:res obs) : bool :=
  match load_revisions i, o with
  | Ok a, Ok b => same_counts (o_ids a) (o_ids b) && N.eqb (o_twice a) (o_twice b) && same_counts (o_dups a) (o_dups b)
                  && same_counts (o_map a) (o_map b)
  | Err a, Err b => lerr_eqb a b
  | _, _ => false
  end.

(* ------------------------------------------------------------------ the class the theorems cover *)
Fixpoint nodup_str (l:list str) : bool :=
  match l with [] => true | x :: r => negb (mem_str x r) && nodup_str r end.
(* a name made of dots followed by "py"/"pyc"/"pyo" loses its extension in os.path.splitext *)
Definition weird_name (nm:str) : bool :=
  (suffixb s_py nm && ext_lost nm KSrc) || ((suffixb s_pyc nm || suffixb s_pyo nm) && ext_lost nm KC).
Definition is_dir (c:node) : bool := match c with Dir _ => true | _ => false end.
(* unique, non-empty names in every directory; links point at real files / directories; an entry named __pycache__ is a real
   directory and contains only files and links to files, none of them hidden (".name"); no weird names *)
(* inpyc: n is an entry of a __pycache__ directory; ispyc: n is itself named __pycache__ *)
Fixpoint wf_node (T:node) (inpyc ispyc:bool) (n:node) {struct n} : bool :=
  match n with
  | File _ => true
  | Link t => match lookup T t with
              | Some (File _) => true
              | Some (Dir _) => negb inpyc
              | _ => false
              end
  | Dir es =>
      negb inpyc && nodup_str (map fst es) &&
      (fix all (l:list entry) : bool :=
         match l with
         | [] => true
         | (nm, c) :: r =>
             nonempty nm && negb (weird_name nm) && (negb ispyc || negb (prefixb [46] nm))
             && (if str_eqb nm s_pycache then is_dir c else true)
             && wf_node T ispyc (str_eqb nm s_pycache) c && all r
         end) es
  end.
Definition wf_tree (T:node) : bool := wf_node T false false T.

(* every configured item is a relative path inside the tree (not absolute, not a package resource), and a
   non-recursive location is not called ...__pycache__ (there os.walk order decides what is listed) *)
Definition clean_config (i:input) : bool :=
  match spec_locations (i_sep i) (i_locs i) with
  | Ok ps => forallb (fun p => match p with
                               | Some p => negb (ends_pycache (last p [])) || i_rec i
                               | None => false
                               end) ps
  | Err _ => true
  end.
Definition inclass_C19 (i:input) : bool :=
  wf_tree (i_tree i) && clean_config i.

(* ------------------------------------------------------------------ independence of the listing order *)
(* two results that differ at most in the order things were met: same Scripts, same warnings; the same map whenever
   no revision id is defined twice *)
Definition obs_equiv (a b : res obs) : Prop :=
  match a, b with
  | Ok x, Ok y => Permutation (o_ids x) (o_ids y) /\ o_twice x = o_twice y /\ Permutation (o_dups x) (o_dups y)
                  /\ (NoDup (map rid_of (o_ids x)) -> Permutation (o_map x) (o_map y))
  | Err e, Err e' => e = e'
  | _, _ => False
  end.
