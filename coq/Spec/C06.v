(* C06 — autogenerate is quiet on a matching database and converges in one pass.
   The property as a Prop, its boolean decider (applied to what the real code did), and the exact
   model-vs-implementation comparison. *)
From AV Require Export Model.Diff.

(* ---------------------------------------------------------------- what one case observes *)
(* outcome of executing the rendered upgrade against a fresh db(A):
   Applied post second : it ran; `post` is the abstraction of the database reflected afterwards,
                         `second` the operations of a second compare_metadata against B
   NotRun              : executing the rendered code raised *)
Inductive apply_res := Applied (post:schema) (second:list op) | NotRun.
Record run := mkRun {
  r_cfg : cfg;
  r_quiet : list op;        (* compare db(A) with A *)
  r_ops : list op;          (* compare db(A) with B *)
  r_plain : apply_res;      (* render_as_batch = False *)
  r_batch : apply_res }.    (* render_as_batch = True *)
Record c06_out := mkOut { o_refl : schema; o_runs : list run }.
Definition c06_in : Type := schema * schema.

Definition all_cfgs : list cfg := [mkCfg true true; mkCfg true false; mkCfg false true; mkCfg false false].

(* the model of one case: db(A) holds A itself, the inspector sees reflect_sqlite of it *)
Definition model_apply (g:cfg) (A B:schema) : apply_res :=
  let post := apply_ops (diff g (reflect_sqlite A) B) A in
  Applied (reflect_sqlite post) (diff g (reflect_sqlite post) B).
Definition model_run (A B:schema) (g:cfg) : run :=
  mkRun g (diff g (reflect_sqlite A) A) (diff g (reflect_sqlite A) B) (model_apply g A B) (model_apply g A B).
Definition model_C06 (i:c06_in) : c06_out :=
  mkOut (reflect_sqlite (fst i)) (map (model_run (fst i) (snd i)) all_cfgs).

(* operations that SQLite cannot execute with plain ALTER (alembic raises NotImplementedError, or the
   database rejects the statement): these need batch mode, so a plain-mode upgrade containing one may fail
   loudly; that is outside the property ("running the upgrade" presupposes it runs) *)
Definition batch_only (o:op) : bool :=
  match o with
  | OpAlterColumn _ _ _ _ _ _ _ _ => true
  | OpAddCons _ (Uq _ _) => true
  | OpDropCons _ false _ => true
  | OpDropColumn _ _ => true
  | OpAddColumn _ c => negb (c_null c) || c_pk c || match c_default c with Some (DExpr _) | Some (DComputed _ _) => true | _ => false end
  | OpAddFk _ _ | OpDropFk _ _ _ | OpAddUUq _ _ => true
  | _ => false
  end.

(* ---------------------------------------------------------------- the property *)
Definition converged (r:apply_res) : Prop := exists post, r = Applied post [].
Definition run_holds (r:run) : Prop :=
  r_quiet r = [] /\ converged (r_batch r) /\
  (converged (r_plain r) \/ (r_plain r = NotRun /\ exists o, In o (r_ops r) /\ batch_only o = true)).
Definition C06_holds (i:c06_in) (o:c06_out) : Prop :=
  map r_cfg (o_runs o) = all_cfgs /\ forall r, In r (o_runs o) -> run_holds r.

Definition is_nil {A} (l:list A) : bool := match l with [] => true | _ => false end.
Definition convergedb (r:apply_res) : bool := match r with Applied _ s => is_nil s | NotRun => false end.
Definition cfg_eqb (a b:cfg) : bool :=
  Bool.eqb (compare_type a) (compare_type b) && Bool.eqb (compare_server_default a) (compare_server_default b).
Definition run_holdsb (r:run) : bool :=
  is_nil (r_quiet r) && convergedb (r_batch r) &&
  match r_plain r with Applied _ s => is_nil s | NotRun => existsb batch_only (r_ops r) end.
Definition check_C06 (i:c06_in) (o:c06_out) : bool :=
  list_eqb cfg_eqb (map r_cfg (o_runs o)) all_cfgs && forallb run_holdsb (o_runs o).

(* ---------------------------------------------------------------- exact comparison with the model *)
(* multiset equality by removing matches one at a time *)
Fixpoint remove_first {A} (e:A->A->bool) (x:A) (l:list A) : option (list A) :=
  match l with
  | [] => None
  | y :: r => if e x y then Some r else match remove_first e x r with Some r' => Some (y :: r') | None => None end
  end.
Fixpoint mset_eqb {A} (e:A->A->bool) (a b:list A) : bool :=
  match a with
  | [] => is_nil b
  | x :: a' => match remove_first e x b with Some b' => mset_eqb e a' b' | None => false end
  end.
(* tables of a schema as a set; columns of a table in order; constraints and indexes as a set *)
Definition table_equiv (a b:table) : bool :=
  N.eqb (t_name a) (t_name b) && list_eqb col_eqb (t_cols a) (t_cols b) && mset_eqb cons_eqb (t_cons a) (t_cons b)
  && mset_eqb fk_eqb (t_fks a) (t_fks b) && mset_eqb uuq_eqb (t_uuqs a) (t_uuqs b).
Definition op_eqb (a b:op) : bool :=
  match a, b with
  | OpCreateTable t, OpCreateTable t' => table_equiv t t'     (* Table.constraints is a set *)
  | OpDropTable t, OpDropTable t' => N.eqb t t'
  | OpAddColumn t c, OpAddColumn t' c' => N.eqb t t' && col_eqb c c'
  | OpDropColumn t c, OpDropColumn t' c' => N.eqb t t' && N.eqb c c'
  | OpAlterColumn t c en et ed mn mt md, OpAlterColumn t' c' en' et' ed' mn' mt' md' =>
      N.eqb t t' && N.eqb c c' && Bool.eqb en en' && ty_eqb et et' && opt_eqb dflt_eqb ed ed'
      && opt_eqb Bool.eqb mn mn' && opt_eqb ty_eqb mt mt' && opt_eqb (opt_eqb dflt_eqb) md md'
  | OpAddFk t f, OpAddFk t' f' => N.eqb t t' && fk_eqb f f'
  | OpDropFk t n nm, OpDropFk t' n' nm' => N.eqb t t' && Bool.eqb nm nm' && (negb nm || N.eqb n n')
  | OpAddUUq t u, OpAddUUq t' u' => N.eqb t t' && uuq_eqb u u'
  | OpAddCons t k, OpAddCons t' k' => N.eqb t t' && cons_eqb k k'
  | OpDropCons t i n, OpDropCons t' i' n' => N.eqb t t' && Bool.eqb i i' && N.eqb n n'
  | _, _ => false
  end.
Definition schema_equiv (a b:schema) : bool := mset_eqb table_equiv a b.
(* after an upgrade the order of columns is not part of the observable (batch mode rebuilds tables) *)
Definition table_equiv_u (a b:table) : bool :=
  N.eqb (t_name a) (t_name b) && mset_eqb col_eqb (t_cols a) (t_cols b) && mset_eqb cons_eqb (t_cons a) (t_cons b)
  && mset_eqb fk_eqb (t_fks a) (t_fks b) && mset_eqb uuq_eqb (t_uuqs a) (t_uuqs b).
Definition schema_equiv_u (a b:schema) : bool := mset_eqb table_equiv_u a b.
Definition ops_equiv (a b:list op) : bool := mset_eqb op_eqb a b.

Definition apply_corr (ops:list op) (plain:bool) (model impl:apply_res) : bool :=
  match model, impl with
  | Applied mp ms, Applied ip is_ => schema_equiv_u mp ip && ops_equiv ms is_
  | Applied _ _, NotRun => plain && existsb batch_only ops       (* the model has no notion of "cannot ALTER" *)
  | _, _ => false
  end.
Definition run_corr (m i:run) : bool :=
  cfg_eqb (r_cfg m) (r_cfg i) && ops_equiv (r_quiet m) (r_quiet i) && ops_equiv (r_ops m) (r_ops i)
  && apply_corr (r_ops m) true (r_plain m) (r_plain i) && apply_corr (r_ops m) false (r_batch m) (r_batch i).
Fixpoint list_forall2b {A B} (f:A->B->bool) (a:list A) (b:list B) : bool :=
  match a, b with [], [] => true | x::a', y::b' => f x y && list_forall2b f a' b' | _, _ => false end.
Definition corr_C06 (i:c06_in) (o:c06_out) : bool :=
  schema_equiv (o_refl (model_C06 i)) (o_refl o) && list_forall2b run_corr (o_runs (model_C06 i)) (o_runs o).

(* ---------------------------------------------------------------- the class the theorems cover *)
(* side condition of the property text that the theorems do not need but the reflection table does:
   no two constraints/indexes of a table over the same set of columns *)
Fixpoint sigs_distinct (ks:list cons) : bool :=
  match ks with
  | [] => true
  | k :: r => negb (existsb (fun k' => permb (k_cols k) (k_cols k')) r) && sigs_distinct r
  end.
(* side condition of the property text: no table dropped by A -> B is still referenced by a foreign key of a table of A that
   stays (autogenerate emits drop_table before the operations on existing tables; batch mode cannot reflect a table whose
   referred table is gone) *)
Definition no_dangling_fk (A B:schema) : bool :=
  forallb (fun t => negb (memN (t_name t) (keys t_name B)) || forallb (fun f => memN (f_rtable f) (keys t_name B)) (t_fks t)) A.
(* no two foreign keys of a table with the same (columns, referred table, referred columns): reflection on SQLite tells
   foreign keys apart by exactly this, whatever their options *)
Definition fk_cols_eqb (a b:fk) : bool :=
  list_eqb N.eqb (f_cols a) (f_cols b) && N.eqb (f_rtable a) (f_rtable b) && list_eqb N.eqb (f_rcols a) (f_rcols b).
Fixpoint fk_sigs_distinct (fs:list fk) : bool :=
  match fs with [] => true | f :: r => negb (existsb (fk_cols_eqb f) r) && fk_sigs_distinct r end.
(* "all constraints named" *)
Definition all_named (S:schema) : bool := forallb (fun t => forallb f_named (t_fks t)) S.
(* batch mode cannot rebuild a table that has a generated column (INSERT INTO the new table names every column; SQLite: "cannot
   INSERT into generated column"), so no upgrade that needs batch mode runs on such a table: generated columns are outside C06 *)
Definition no_computed (S:schema) : bool := forallb (fun t => forallb (fun c => negb (is_computed (c_default c))) (t_cols t)) S.
Definition inclass_C06_core (i:c06_in) : bool :=
  no_dangling_fk (fst i) (snd i) && forallb (fun t => fk_sigs_distinct (t_fks t)) (fst i) && forallb (fun t => fk_sigs_distinct (t_fks t)) (snd i) &&
  wf_schemab (fst i) && wf_schemab (snd i) && defaults_ok (fst i) && defaults_ok (snd i)
  && forallb (fun t => sigs_distinct (t_cons t)) (fst i) && forallb (fun t => sigs_distinct (t_cons t)) (snd i).
Definition inclass_C06 (i:c06_in) : bool :=
  all_named (fst i) && all_named (snd i) && no_unnamed_uq (fst i) && no_unnamed_uq (snd i) && no_computed (fst i) && no_computed (snd i) && fk_names_ok (fst i) (snd i) && inclass_C06_core i.
