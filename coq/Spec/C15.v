(* C15 — the property as a Prop over the mathematical object, and as a boolean decider
   applied to the implementation's observable output. *)
From AV Require Export Model.Cycle.

(* graph-theoretic heads and bases *)
Definition no_child (f : revision -> list N) (G:graph) (x:N) : Prop := forall c, In c G -> ~ In x (f c).

Definition C15_holds (G:graph) (out:load_res) : Prop :=
  (is_cycle_err out = true <-> cyclic (all_down G)) /\
  out <> LoadErr EFuel /\ out <> LoadErr EOther /\
  forall l, out = Loaded l ->
    (forall x, In x (l_heads l) <-> In x (ids G) /\ no_child r_down G x) /\
    (forall x, In x (l_real_heads l) <-> In x (ids G) /\ no_child all_down_r G x) /\
    (forall x, In x (l_bases l) <-> exists r, In r G /\ r_id r = x /\ r_down r = []) /\
    (forall x, In x (l_real_bases l) <-> exists r, In r G /\ r_id r = x /\ r_down r = [] /\ r_deps r = []).

(* decider: cyclicity is decided by the elimination procedure (proved equivalent to `cyclic`
   in Proofs/CycleProof.v), heads/bases by direct filters *)
Definition cyclicb (G:graph) : bool :=
  match self_loop G, kahn all_down_r G with
  | None, Some [] => false
  | _, _ => true
  end.

Definition check_C15g (G:graph) (out:load_res) : bool :=
  Bool.eqb (is_cycle_err out) (cyclicb G) &&
  match out with
  | Loaded l => seteqN (l_heads l) (heads_of G) && seteqN (l_real_heads l) (real_heads_of G)
                && seteqN (l_bases l) (bases_of G) && seteqN (l_real_bases l) (real_bases_of G)
  | LoadErr EFuel | LoadErr EOther => false
  | LoadErr _ => true
  end.

(* exact correspondence between model and implementation output *)
Definition load_err_eqb (a b : load_err) : bool :=
  match a, b with
  | ELoop, ELoop | EDepLoop, EDepLoop | ECycle, ECycle | EDepCycle, EDepCycle | EFuel, EFuel | EOther, EOther => true
  | _, _ => false
  end.
Definition load_res_eqb (m out : load_res) : bool :=
  match m, out with
  | Loaded a, Loaded b => list_eqb N.eqb (l_heads a) (l_heads b) && list_eqb N.eqb (l_bases a) (l_bases b)
                          && list_eqb N.eqb (l_real_heads a) (l_real_heads b) && list_eqb N.eqb (l_real_bases a) (l_real_bases b)
  | LoadErr a, LoadErr b => load_err_eqb a b
  | _, _ => false
  end.

(* the checks as run by the harness: the history is given with depends_on as written (ids or labels) *)
Definition check_C15 (R:rawgraph) (out:load_res) : bool := check_C15g (resolve_graph R) out.
Definition corr_C15 (R:rawgraph) (out:load_res) : bool := load_res_eqb (load_raw R) out.
Definition inclass_C15 (R:rawgraph) : bool := wf_refsb (resolve_graph R).
