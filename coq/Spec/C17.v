(* C17 — the property over a sequence of generate_revision / merge calls, the decider applied to what the
   implementation wrote and loaded, the model's outputs, the exact comparison, the proved class. *)
From Coq Require Import String.
From AV Require Export Model.RevHeader Model.Incremental.

(* one accepted call: the revision as requested (keys interned), the same as strings, the code points of those
   strings that str.isprintable rejects, the docstring body the template produces (message and the three lines) *)
(* directories: normalised absolute paths as lists of interned components *)
Definition path := list N.
Definition path_eqb (a b:path) : bool := list_eqb N.eqb a b.
Fixpoint is_prefix (l p:path) : bool :=
  match l, p with
  | [], _ => true
  | a :: l', b :: p' => N.eqb a b && is_prefix l' p'
  | _ :: _, [] => false
  end.
(* generate_revision: os.path.normpath(os.path.abspath(version_path)) must EQUAL a configured version location *)
Definition accept_path (locs:list path) (p:path) : bool := existsb (path_eqb p) locs.
(* _load_revisions / Script._list_py_dir: the files of every configured location and, with
   recursive_version_locations, of every directory below one *)
Definition scanned (rec:bool) (locs:list path) (p:path) : bool :=
  existsb (fun l => path_eqb l p || (rec && is_prefix l p)) locs.

(* s_locs / s_rec: the configured version locations and recursive_version_locations; s_vp: the directory asked for
   (version_path if given, else the directory alembic derives: the first head's, or the only location) *)
(* s_tpl / s_msg / s_trunc: file_template as pieces, the message, truncate_slug_length; s_words / s_lower: the characters of the
   message that match \w, and the lower-casing of those that change (finite tables of the two Unicode oracles) *)
Record step := mkStep { s_rev : frev; s_id : str; s_down : list str; s_labels : list str; s_deps : list str;
                        s_nonprint : list N; s_doc : str; s_locs : list path; s_rec : bool; s_vp : path;
                        s_tpl : list tpiece; s_msg : str; s_trunc : nat; s_words : list N; s_lower : list (N * str) }.
Definition accepts (s:step) : bool := accept_path (s_locs s) (s_vp s).
(* the name _rev_path gives the file *)
Definition step_file (s:step) : str :=
  rev_filename (word_of (s_words s)) (lower_of (s_lower s)) (s_tpl s) (s_id s) (s_msg s) (s_trunc s).
Definition c17_in := list step.

(* what was observed after the call: the four identifier lines of the written file; the loaded Script has the
   requested attributes; the module could be imported; the in-memory map and a freshly loaded one *)
(* so_rejected: the call raised CommandError; so_file_left: a new file exists although it did; so_dir: where the file went *)
Record step_out := mkSO { so_header : str; so_loaded : bool; so_module_ok : bool; so_views : option (view * view);
                          so_rejected : bool; so_file_left : bool; so_dir : path; so_file : str }.
Definition rejected_out : step_out := mkSO [] false false None true false [] [].
Definition c17_out := list step_out.

Definition step_fields (s:step) : fields := mkFields (s_id s) (s_down s) (s_labels s) (s_deps s).
Definition fields_eqb (a b:fields) : bool :=
  str_eqb (fd_rev a) (fd_rev b) && list_eqb str_eqb (fd_down a) (fd_down b) && list_eqb str_eqb (fd_labels a) (fd_labels b)
  && list_eqb str_eqb (fd_deps a) (fd_deps b).

(* the files written by the accepted calls: directory and name; no two calls may write the same file *)
Definition out_files (o:c17_out) : list (path * str) :=
  map (fun x => (so_dir x, so_file x)) (filter (fun x => negb (so_rejected x)) o).
Definition file_eqb (a b : path * str) : bool := path_eqb (fst a) (fst b) && str_eqb (snd a) (snd b).
Fixpoint files_nodupb (l:list (path * str)) : bool :=
  match l with [] => true | x :: r => negb (existsb (file_eqb x) r) && files_nodupb r end.

(* ---------------------------------------------------------------- the model on a sequence *)
Definition res_view (r:mres rmap) : option view := match r with MOk L => Some (view_of L) | MErr _ => None end.
Definition model_step (printable:N -> bool) (mem:mres rmap) (G:hist) (s:step) : step_out * mres rmap :=
  let mem' := match mem with MOk L => add_revision L (s_rev s) | MErr e => MErr e end in
  let ok := doc_ok (s_doc s) [] in
  (mkSO (write_header printable (mk_args (s_id s) (s_down s) (s_labels s) (s_deps s))) ok ok
        (if ok then match res_view mem', res_view (load (G ++ [s_rev s])) with Some a, Some b => Some (a, b) | _, _ => None end else None)
        false false (s_vp s) (step_file s),
   mem').
(* a file whose name the loader skips: it is written, Script._from_path returns None, nothing is added to either map *)
Definition skipped_out (printable:N -> bool) (mem:mres rmap) (G:hist) (s:step) : step_out :=
  mkSO (write_header printable (mk_args (s_id s) (s_down s) (s_labels s) (s_deps s))) false true
       (match res_view mem, res_view (load G) with Some a, Some b => Some (a, b) | _, _ => None end)
       false false (s_vp s) (step_file s).
Definition has_views (o:step_out) : bool := match so_views o with Some _ => true | None => false end.
(* fs: the files written so far.  A call that would write one of them again overwrites a revision file: the model makes no
   statement about it or anything after it (it stops); the decider still sees the repeated file in the real output *)
Fixpoint model_steps (mem:mres rmap) (G:hist) (fs:list (path * str)) (l:list step) : c17_out :=
  match l with
  | [] => []
  | s :: r => if negb (accepts s) then rejected_out :: model_steps mem G fs r      (* CommandError: nothing written, nothing changed *)
              else if existsb (file_eqb (s_vp s, step_file s)) fs then []
              else if negb (loadable_name (step_file s)) then [skipped_out (printable_of (s_nonprint s)) mem G s]
              else
              let (o, mem') := model_step (printable_of (s_nonprint s)) mem G s in
              o :: (if so_module_ok o && has_views o then model_steps mem' (G ++ [s_rev s]) ((s_vp s, step_file s) :: fs) r else [])
  end.
Definition model_C17 (i:c17_in) : c17_out := model_steps (load []) [] [] i.

(* ---------------------------------------------------------------- exact comparison *)
Definition oviews_eqb (a b:option (view*view)) : bool :=
  match a, b with
  | Some (a1, a2), Some (b1, b2) => view_eqb a1 b1 && view_eqb a2 b2
  | None, None => true
  | _, _ => false
  end.
Definition step_out_eqb (a b:step_out) : bool :=
  str_eqb (so_header a) (so_header b) && Bool.eqb (so_loaded a) (so_loaded b) && Bool.eqb (so_module_ok a) (so_module_ok b)
  && oviews_eqb (so_views a) (so_views b) && Bool.eqb (so_rejected a) (so_rejected b) && Bool.eqb (so_file_left a) (so_file_left b)
  && path_eqb (so_dir a) (so_dir b) && str_eqb (so_file a) (so_file b).
Definition in_files (i:c17_in) : list (path * str) := map (fun s => (s_vp s, step_file s)) (filter accepts i).
(* exact on everything the model states: the whole output, or its prefix up to an overwriting call *)
Definition corr_C17 (i:c17_in) (o:c17_out) : bool :=
  let m := model_C17 i in
  list_eqb step_out_eqb m (firstn (length m) o) && (Nat.eqb (length m) (length o) || negb (files_nodupb (in_files i))).

(* ---------------------------------------------------------------- the property *)
(* a rejected call leaves nothing behind; an accepted one wrote into a directory that a reload scans, the file
   reads back as requested, and the in-memory map equals the reloaded one *)
Definition step_holds (s:step) (o:step_out) : Prop :=
  if so_rejected o then so_file_left o = false else
  scanned (s_rec s) (s_locs s) (so_dir o) = true /\ loadable_name (so_file o) = true /\
  read_header (so_header o) = Some (step_fields s) /\ so_loaded o = true /\ so_module_ok o = true /\
  exists a b, so_views o = Some (a, b) /\ view_eqb a b = true.
Definition C17_holds (i:c17_in) (o:c17_out) : Prop := Forall2 step_holds i o /\ files_nodupb (out_files o) = true.

Definition check_step (s:step) (o:step_out) : bool :=
  if so_rejected o then negb (so_file_left o) else
  scanned (s_rec s) (s_locs s) (so_dir o) && loadable_name (so_file o) &&
  match read_header (so_header o) with Some f => fields_eqb f (step_fields s) | None => false end
  && so_loaded o && so_module_ok o && match so_views o with Some (a, b) => view_eqb a b | None => false end.
Fixpoint check_steps (i:c17_in) (o:c17_out) : bool :=
  match i, o with
  | [], [] => true
  | s :: i', x :: o' => check_step s x && check_steps i' o'
  | _, _ => false
  end.
Definition check_C17 (i:c17_in) (o:c17_out) : bool := check_steps i o && files_nodupb (out_files o).

(* ---------------------------------------------------------------- the class the theorems cover *)
Definition hist_ids (G:hist) : list N := map f_id G.
Definition hist_labels (G:hist) : list N := flat_map f_labels G.
(* the new revision has a fresh id and fresh distinct labels, and refers only to what exists *)
Definition wf_new (G:hist) (r:frev) : bool :=
  negb (memN (f_id r) (hist_ids G ++ hist_labels G)) && nodupb (f_id r :: f_labels r)
  && forallb (fun l => negb (memN l (hist_ids G ++ hist_labels G))) (f_labels r)
  && subsetN (f_down r) (hist_ids G) && subsetN (f_deps r) (hist_ids G ++ hist_labels G).
Fixpoint wf_hist_from (G:hist) (l:list frev) : bool :=
  match l with [] => true | r :: l' => wf_new G r && wf_hist_from (G ++ [r]) l' end.
Definition strs_valid (l:list str) : bool := forallb valid_strb l.
Definition step_class (s:step) : bool :=
  valid_strb (s_id s) && strs_valid (s_down s) && strs_valid (s_labels s) && strs_valid (s_deps s) && doc_safe (s_doc s).
(* the files the accepted calls are going to write have names the loader accepts and are pairwise different *)
Definition names_class (i:c17_in) : bool := forallb (fun f => loadable_name (snd f)) (in_files i) && files_nodupb (in_files i).
Definition inclass_C17 (i:c17_in) : bool := wf_hist_from [] (map s_rev (filter accepts i)) && forallb step_class i && names_class i.
