(* C09 — "the generated downgrade undoes the generated upgrade": the statement over operation
   objects as a Prop, its boolean decider (applied to what the real alembic returned), the exact
   model-vs-implementation comparison, and the class predicates of the theorems.

   INVENTORY of alembic/operations/ops.py and operations/toimpl.py (E = modelled exactly on the stated fields and compared
   exactly with the real code on every run; P = partially; N = not modelled).

   MigrateOperation subclasses and their methods
   E  AddConstraintOp.from_constraint (dispatch on the constraint class), .reverse, .to_diff_tuple
   E  CreatePrimaryKeyOp / CreateUniqueConstraintOp / CreateCheckConstraintOp .from_constraint / .to_constraint:
        constraint_name, table_name, columns | condition (opaque token), schema, deferrable, initially (`if x:` filter),
        remaining **kw = dialect kwargs (one opaque token)
   E  CreateForeignKeyOp.from_constraint / .to_constraint / .to_diff_tuple ("add_fk"): constraint_name, source_table,
        referent_table, local_cols, remote_cols, source_schema, referent_schema, onupdate, ondelete, initially, match
        (`if x:` filters), deferrable (`is not None`), dialect kwargs token.  N: use_alter (not DDL)
   E  DropConstraintOp.from_constraint, .to_constraint (stored `_reverse`, renamed to the op's name/table/schema, also for a
        self-referential foreign key), .reverse, .to_diff_tuple ("remove_fk" iff type_ == "foreignkey"; ValueError without `_reverse`)
   E  CreateIndexOp.from_index / .to_index / .reverse / .to_diff_tuple: index_name, table_name (`or "no_table"`), columns
        (names and text()/expression tokens), schema, unique, if_not_exists, dialect kwargs token
   E  DropIndexOp.from_index / .to_index / .reverse / .to_diff_tuple: index_name, table_name (None), schema, if_exists, the
        `unique` entry of kw, dialect kwargs token, stored `_reverse` (its columns; ["x"] without it)
   P  CreateTableOp.from_table / .to_table / .reverse / .to_diff_tuple: table_name, schema, comment, prefixes, dialect kwargs + info
        (one token), if_not_exists, _constraints_included, and the Table that to_table() returns: columns {name, type token,
        nullable, server default token, comment, unique=/index= flags}, non-type-bound constraints, Index objects.
        Not expressed: _namespace_metadata; the step from raw `columns` elements to the Table (done by SQLAlchemy, observed);
        foreign key / check constraints with dialect kwargs inside the table (SQLAlchemy's _copy drops them)
   P  DropTableOp.from_table / .to_table / .reverse / .to_diff_tuple: table_name, schema, if_exists, comment, prefixes, table_kw + info,
        `_reverse` = (columns, constraints, _constraints_included).  Not expressed: a stored original whose table name differs
        together with a self-referential foreign key; a stored original with flagged columns and _constraints_included false
   E  CreateTableCommentOp / DropTableCommentOp .reverse / .to_table / .to_diff_tuple: table_name, comment, existing_comment, schema
   E  AlterColumnOp.reverse (every existing_/modify_ pair swapped, the rename turned round) / .to_diff_tuple (all four entries):
        table_name, column_name, schema, existing_type, existing_server_default (False | None | value), existing_nullable,
        existing_comment, modify_nullable, modify_comment (False | None | value), modify_server_default, modify_name, modify_type,
        **kw as one token.  N: has_changes(), `modify_*` / `existing_*` keys inside **kw (they would take part in the swap)
   E  AddColumnOp.reverse / .to_diff_tuple / .from_column_and_tablename / .from_column / .to_column: table_name, column, schema
   E  DropColumnOp.reverse / .to_diff_tuple / .from_column_and_tablename / .to_column: table_name, column_name, schema, **kw token,
        `_reverse` (table, column, schema); ValueError without it; Column(name, NULLTYPE) = type token 0
   E  RenameTableOp, BulkInsertOp: reverse() and to_diff_tuple() raise NotImplementedError; ExecuteSQLOp: reverse() raises,
        to_diff_tuple() = ("execute", sqltext).  Their payload is opaque (table_name/new_table_name/schema; sqltext; table, rows)
   P  OpContainer.as_diffs/_ops_as_diffs, ModifyTableOps.reverse, UpgradeOps.reverse_into / .reverse, DowngradeOps.reverse:
        exact for two levels (container of leaves and ModifyTableOps of leaves); deeper nesting not modelled
   N  MigrationScript (upgrade_ops / downgrade_ops list accessors), MigrateOperation.info, the classmethods that build an op from
        the `op.` proxy arguments and invoke it (create_table(), batch_*(), ...): they only construct the objects above

   toimpl functions: each is the projection `ddl_view` (exactly the attributes / to_*() results it hands to the dialect
   implementation; E for every function) followed by the dialect's SQL spelling (N: measured by comparing SQL on five
   dialects).  alter_column's dropping/adding of type-bound CHECK constraints (Boolean/Enum) and add_column's emission of the
   constraints, indexes and comment of the column are inside the opaque type token / column record (P).  The abstract
   effect of each function on a database state is apply_op in Model/C09Ddl.v (columns, named constraints, indexes, comments).

   The statement about database states (C09_undo) lives in Model/C09Ddl.v + Properties/C09.v. *)
From AV Require Export Model.Ops Spec.C09Dec Model.C09Ddl.

(* ------------------------------------------------------------------ inputs and outputs *)

(* InOp: one operation (or ModifyTableOps container), reversed once and twice.
   InUp: the content of an UpgradeOps (autogenerated from a pair of schemas), reversed into the
   DowngradeOps and back; the harness also runs upgrade and downgrade on SQLite. *)
(* InAuto: the tables of a database as reflection delivers them, and the UpgradeOps the real autogenerate comparators
   produced against them (comment-capable dialects, no server); the downgrade must restore that very database *)
(* InChange: as InAuto, for a pair of schemas that differ by exactly one object of table (t, s) that compare.py reports as
   CHANGED; the UpgradeOps content is then also predicted by the model of the capture (Ops.capture_ops) *)
Inductive c09_in := InOp (x : top) | InUp (up : list top) | InAuto (tables : list tdesc) (up : list top)
                  | InChange (tables : list tdesc) (t : str) (s : option str) (ch : change).

(* the abstract database holding exactly these tables (with their own indexes) *)
Definition db_of (tables : list tdesc) : db :=
  fold_left (fun A t => put (qkey (t_schema t) (t_name t)) (ts_of t) A) tables [].
Inductive c09_out :=
| OutOp (r rr : res top) (diffs diffs_r : res (list difft)) (sql_same : bool)
    (* abstraction of x.reverse() and x.reverse().reverse(); whether x and x.reverse().reverse()
       emitted the same SQL on all five dialects (true when the second reversal does not exist);
       diffs = UpgradeOps([x]).as_diffs() and diffs_r = UpgradeOps([x.reverse()]).as_diffs(), the tuples compare_metadata reports *)
| OutAuto (down : res (list top))
    (* upgrade_ops.reverse_into(DowngradeOps) of the comparator output *)
| OutUp (down upup : res (list top)) (db_restored : bool)
| OutChange (up : list top) (down : res (list top)).
    (* what the real comparators produced, and its reverse_into *)
    (* upgrade_ops.reverse_into(DowngradeOps), its own reverse(); whether compare_metadata finds
       nothing after running upgrade and downgrade on SQLite *)

Definition model_C09 (i : c09_in) : c09_out :=
  match i with
  | InOp x => let r := reverse_top x in OutOp r (bind r reverse_top) (as_diffs [x]) (bind r (fun x' => as_diffs [x'])) true
  | InUp up => let d := reverse_ops up in OutUp d (bind d reverse_ops) true
  | InAuto _ up => OutAuto (reverse_ops up)
  | InChange _ t s ch => OutChange (capture_ops t s ch) (reverse_ops (capture_ops t s ch))
  end.

(* ------------------------------------------------------------------ inverse diff tuples *)

(* the four existing_ values an AlterColumnOp diff entry reports (three in its dictionary, one in sixth position) *)
Record astate := mkAS { as_type : option tok; as_nullable : option bool; as_default : tri tok; as_comment : option str }.
Definition adiff_before (d : adiff) : astate :=
  match d with
  | ModifyType _ _ _ en esd ec et _ => mkAS et en esd ec
  | ModifyNullable _ _ _ et esd ec en _ => mkAS et en esd ec
  | ModifyDefault _ _ _ en et ec esd _ => mkAS et en esd ec
  | ModifyComment _ _ _ en et esd ec _ => mkAS et en esd ec
  end.
(* ... and after the entry's own change *)
Definition adiff_apply (st : astate) (d : adiff) : astate :=
  match d with
  | ModifyType _ _ _ _ _ _ _ mt => mkAS (Some mt) (as_nullable st) (as_default st) (as_comment st)
  | ModifyNullable _ _ _ _ _ _ _ mn => mkAS (as_type st) (Some mn) (as_default st) (as_comment st)
  | ModifyDefault _ _ _ _ _ _ _ msd => mkAS (as_type st) (as_nullable st) (SetTo msd) (as_comment st)
  | ModifyComment _ _ _ _ _ _ _ mc => mkAS (as_type st) (as_nullable st) (as_default st) mc
  end.
(* the entry that undoes d when the column is in state `after`: same attribute, old and new value exchanged;
   None when d does not say what the old value was.  (The column name is not part of the comparison: a rename is
   not reported in the diff tuples.) *)
Definition adiff_inverse (after : astate) (d : adiff) : option adiff :=
  match d with
  | ModifyType s t c _ _ _ (Some et) _ => Some (ModifyType s t c (as_nullable after) (as_default after) (as_comment after) (as_type after) et)
  | ModifyType _ _ _ _ _ _ None _ => None
  | ModifyNullable s t c _ _ _ (Some en) _ => Some (ModifyNullable s t c (as_type after) (as_default after) (as_comment after) (as_nullable after) en)
  | ModifyNullable _ _ _ _ _ _ None _ => None
  | ModifyDefault s t c _ _ _ (SetTo esd) _ => Some (ModifyDefault s t c (as_nullable after) (as_type after) (as_comment after) (as_default after) esd)
  | ModifyDefault _ _ _ _ _ _ Unset _ => None
  | ModifyComment s t c _ _ _ ec _ => Some (ModifyComment s t c (as_nullable after) (as_type after) (as_default after) (as_comment after) ec)
  end.
Definition adiff_set_col (c : str) (d : adiff) : adiff :=
  match d with
  | ModifyType s t _ a b e f g => ModifyType s t c a b e f g
  | ModifyNullable s t _ a b e f g => ModifyNullable s t c a b e f g
  | ModifyDefault s t _ a b e f g => ModifyDefault s t c a b e f g
  | ModifyComment s t _ a b e f g => ModifyComment s t c a b e f g
  end.
Fixpoint all_some {A} (l : list (option A)) : option (list A) :=
  match l with
  | [] => Some []
  | Some a :: r => match all_some r with Some r' => Some (a :: r') | None => None end
  | None :: _ => None
  end.
Definition adiffs_inverse (l : list adiff) : option (list adiff) :=
  match l with
  | [] => Some []
  | d :: _ => all_some (map (adiff_inverse (fold_left adiff_apply l (adiff_before d))) l)
  end.

(* inside a Table the unique=/index= flags spell nothing themselves *)
Definition inv_diffb (d d' : difft) : bool :=
  match d, d' with
  | DfAddConstraint c, DfRemoveConstraint c' | DfRemoveConstraint c, DfAddConstraint c'
  | DfAddFk c, DfRemoveFk c' | DfRemoveFk c, DfAddFk c' => decb constr_eq_dec c c'
  | DfAddIndex i, DfRemoveIndex i' | DfRemoveIndex i, DfAddIndex i' => decb index_eq_dec i i'
  | DfAddTable t, DfRemoveTable t' | DfRemoveTable t, DfAddTable t' => decb tdesc_eq_dec (erase_flags t) (erase_flags t')
  | DfAddTableComment t s c None, DfRemoveTableComment t' s' => decb str_eq_dec t t' && decb ostr_eq_dec s s'
  | DfAddTableComment t s c (Some e), DfAddTableComment t' s' c' e' =>
      decb str_eq_dec t t' && decb ostr_eq_dec s s' && decb ostr_eq_dec c' (Some e) && decb ostr_eq_dec e' c
  | DfRemoveTableComment t s, DfAddTableComment t' s' _ e' => decb str_eq_dec t t' && decb ostr_eq_dec s s' && negb (is_some e')
  | DfAddColumn s t c, DfRemoveColumn s' t' c' | DfRemoveColumn s t c, DfAddColumn s' t' c' =>
      decb ostr_eq_dec s s' && decb str_eq_dec t t' && decb column_eq_dec c c'
  | DfAlter l, DfAlter l' =>
      match adiffs_inverse l with
      | Some e => decb (list_eq_dec adiff_eq_dec) (map (adiff_set_col []) l') (map (adiff_set_col []) e)
      | None => false
      end
  | _, _ => false
  end.
Definition inv_diff (d d' : difft) : Prop := inv_diffb d d' = true.
Definition leaf_count (x : top) : nat := match x with Leaf _ => 1%nat | ModifyTableOps _ _ l => length l end.

(* ------------------------------------------------------------------ the property *)

(* an autogenerated upgrade is reversible, has the inverse kinds in reverse order, applies to the database it was computed
   against, the downgrade run after it gives that database back, and what its operations remember (the stored original, the existing_ values)
   is the database's side of every change *)
Definition restores (tables : list tdesc) (up : list top) (down : res (list top)) : Prop :=
  exists d B, down = Ok d /\ kinds d = rev (map inverse_tkind (kinds up)) /\
              apply_ops up (db_of tables) = Some B /\ apply_ops d B = Some (db_of tables) /\
              undoable_ops up (db_of tables) = true.

Definition C09_holds (i : c09_in) (o : c09_out) : Prop :=
  match i, o with
  | InOp x, OutOp r rr df dfr sql =>
      (forall x', r = Ok x' -> tkind_of x' = inverse_tkind (tkind_of x)) /\
      (forall x'', rr = Ok x'' -> ddl_equiv_top x'' x /\ sql = true) /\
      (* what compare_metadata would report for the reversed operation is the inverse report, in reverse order *)
      (forall ds ds', df = Ok ds -> dfr = Ok ds' -> Forall2 inv_diff (rev ds) ds') /\
      (* ... and as_diffs reports one tuple per leaf operation, also inside a container *)
      (forall ds, df = Ok ds -> length ds = leaf_count x)
  | InUp up, OutUp down upup ok =>
      (forall d, down = Ok d -> kinds d = rev (map inverse_tkind (kinds up)) /\ ok = true) /\
      (forall u, upup = Ok u -> Forall2 ddl_equiv_top u up)
  | InAuto tables up, OutAuto down =>
      restores tables up down
  | InChange tables _ _ _, OutChange up down => restores tables up down
  | _, _ => False
  end.

(* ------------------------------------------------------------------ the decider *)

Definition ddl_equivb (a b : op) : bool := decb ddl_eq_dec (ddl_view a) (ddl_view b).
Fixpoint forall2b {A} (f : A -> A -> bool) (a b : list A) : bool :=
  match a, b with
  | [], [] => true
  | x :: a', y :: b' => f x y && forall2b f a' b'
  | _, _ => false
  end.
Definition ddl_equivb_top (a b : top) : bool :=
  match a, b with
  | Leaf x, Leaf y => ddl_equivb x y
  | ModifyTableOps t s l, ModifyTableOps t' s' l' =>
      decb str_eq_dec t t' && decb ostr_eq_dec s s' && forall2b ddl_equivb l l'
  | _, _ => false
  end.

Definition restoresb (tables : list tdesc) (up : list top) (down : res (list top)) : bool :=
  match down, apply_ops up (db_of tables) with
  | Ok d, Some B => decb (list_eq_dec tkind_eq_dec) (kinds d) (rev (map inverse_tkind (kinds up))) &&
                    decb (option_eq_dec (smap_eq_dec tstate_eq_dec)) (apply_ops d B) (Some (db_of tables)) &&
                    undoable_ops up (db_of tables)
  | _, _ => false
  end.

Definition check_C09 (i : c09_in) (o : c09_out) : bool :=
  match i, o with
  | InOp x, OutOp r rr df dfr sql =>
      match r with Ok x' => decb tkind_eq_dec (tkind_of x') (inverse_tkind (tkind_of x)) | Err _ => true end &&
      match rr with Ok x'' => ddl_equivb_top x'' x && sql | Err _ => true end &&
      match df, dfr with Ok ds, Ok ds' => forall2b inv_diffb (rev ds) ds' | _, _ => true end &&
      match df with Ok ds => Nat.eqb (length ds) (leaf_count x) | Err _ => true end
  | InUp up, OutUp down upup ok =>
      match down with
      | Ok d => decb (list_eq_dec tkind_eq_dec) (kinds d) (rev (map inverse_tkind (kinds up))) && ok
      | Err _ => true end &&
      match upup with Ok u => forall2b ddl_equivb_top u up | Err _ => true end
  | InAuto tables up, OutAuto down => restoresb tables up down
  | InChange tables _ _ _, OutChange up down => restoresb tables up down
  | _, _ => false
  end.

(* ------------------------------------------------------------------ exact correspondence
   (the two SQL/database flags are measurements of the harness, not outputs of reverse()) *)
Definition corr_C09 (i : c09_in) (o : c09_out) : bool :=
  match model_C09 i, o with
  | OutOp r rr df dfr _, OutOp r' rr' df' dfr' _ =>
      decb (res_eq_dec top_eq_dec) r r' && decb (res_eq_dec top_eq_dec) rr rr' && decb (res_eq_dec (list_eq_dec difft_eq_dec)) df df'
      && decb (res_eq_dec (list_eq_dec difft_eq_dec)) dfr dfr'
  | OutUp d u _, OutUp d' u' _ =>
      decb (res_eq_dec (list_eq_dec top_eq_dec)) d d' && decb (res_eq_dec (list_eq_dec top_eq_dec)) u u'
  | OutAuto d, OutAuto d' => decb (res_eq_dec (list_eq_dec top_eq_dec)) d d'
  | OutChange u d, OutChange u' d' => decb (list_eq_dec top_eq_dec) u u' && decb (res_eq_dec (list_eq_dec top_eq_dec)) d d'
  | _, _ => false
  end.

(* ------------------------------------------------------------------ the class of the involution theorem:
   no option is set that the SQLAlchemy object the reversal travels through cannot carry
   (stable_s: an option given as the empty string is dropped by the `if x:` filters of from_constraint;
   a Table's Index objects are not taken by CreateTableOp.from_table) *)
Definition stable_b (x : option bool) : bool := match x with Some false => false | _ => true end.
Definition stable_t (x : option bool) : bool := match x with Some true => false | _ => true end.
Definition stable_s (x : option str) : bool := match x with Some [] => false | _ => true end.
Definition fkopts_stable (o : fkopts) : bool :=
  stable_s (fo_onupdate o) && stable_s (fo_ondelete o) && stable_s (fo_initially o) && stable_s (fo_match o).
Definition addcons_stable (a : addcons) : bool :=
  match a with
  | CreateUniqueConstraintOp _ _ _ _ _ i _ => stable_s i
  | CreateForeignKeyOp _ _ _ _ _ _ _ o _ => fkopts_stable o
  | _ => true
  end.
Definition alter_has_existing (a : altercol) : bool :=
  (negb (is_some (ac_modify_type a)) || is_some (ac_existing_type a)) &&
  (negb (is_some (ac_modify_nullable a)) || is_some (ac_existing_nullable a)) &&
  (negb (tri_is_set (ac_modify_server_default a)) || tri_is_set (ac_existing_server_default a)).

Definition roundtrip_safe (o : op) : bool :=
  match o with
  | AddConstraintOp a => addcons_stable a
  | DropConstraintOp _ _ ty _ (Some a) => decb (option_eq_dec ctype_eq_dec) ty (Some (addcons_type a))
  | DropConstraintOp _ _ _ _ None => true
  | CreateIndexOp c => stable_t (ci_if_not_exists c)
  | DropIndexOp _ _ _ ie _ _ _ => stable_t ie
  | CreateTableOp t ine _ => stable_t ine && match t_idx t with [] => true | _ => false end
  | DropTableOp _ _ ie _ _ _ _ => stable_t ie
  | CreateTableCommentOp _ c e _ => is_some c || negb (is_some e)
  | DropTableCommentOp _ _ _ => true
  | AlterColumnOp a => alter_has_existing a
  | AddColumnOp _ _ _ => true
  | DropColumnOp _ _ _ kw _ => N.eqb kw 0
  | RenameTableOp _ _ _ | ExecuteSQLOp _ | BulkInsertOp _ _ => true
  end.
Definition roundtrip_safe_top (x : top) : bool :=
  match x with Leaf o => roundtrip_safe o | ModifyTableOps _ _ l => forallb roundtrip_safe l end.
(* the class of the inverse-diff theorem: roundtrip_safe, and the stored original of a DropConstraintOp has no
   option given as the empty string (the diff tuple shows the constraint object itself) *)
Definition diff_safe (o : op) : bool :=
  roundtrip_safe o && match o with DropConstraintOp _ _ _ _ (Some a) => addcons_stable a | _ => true end.
Definition diff_safe_top (x : top) : bool :=
  match x with Leaf o => diff_safe o | ModifyTableOps _ _ l => forallb diff_safe l end.

Definition inclass_C09 (i : c09_in) : bool :=
  match i with
  | InOp x => roundtrip_safe_top x && diff_safe_top x
  | InUp up => forallb roundtrip_safe_top up
  | InAuto tables up => undoable_ops up (db_of tables)     (* what the operations remember is what the database holds *)
  | InChange tables t s ch => undoable_ops (capture_ops t s ch) (db_of tables)
  end.

(* ------------------------------------------------------------------ the class on which reverse is an involution
   on the nose (reverse (reverse o) = o as objects, every field): besides roundtrip_safe, what the operation
   stores beside its own fields must already be in the shape the from_* constructors give it *)
Definition nonempty (s : str) : bool := match s with [] => false | _ => true end.
Definition exact_class (o : op) : bool :=
  match o with
  | AddConstraintOp a => addcons_stable a
  | DropConstraintOp n t ty s (Some a) =>
      decb (option_eq_dec ctype_eq_dec) ty (Some (addcons_type a)) &&
      decb addcons_eq_dec (from_constraint (retarget n t s (to_constraint a))) a
  | CreateIndexOp c => negb (is_some (ci_if_not_exists c)) && nonempty (ci_table c)
  | DropIndexOp n (Some t) s None (Some u) kw (Some r) =>
      nonempty t && decb cindex_eq_dec r (mkCI n t (ci_cols r) s u None kw)
  | CreateTableOp t None true =>
      decb tdesc_eq_dec t (mkT (t_name t) (t_schema t) (map clear_flags (t_cols t))
                               (map (onto_table (t_name t) (t_schema t)) (t_cons t)) [] (t_comment t) (t_prefixes t) (t_kw t))
  | DropTableOp n s None c p kw (Some r) =>
      tr_ci r && decb (list_eq_dec column_eq_dec) (tr_cols r) (map clear_flags (tr_cols r))
      && decb (list_eq_dec constr_eq_dec) (tr_cons r) (map (onto_table n s) (tr_cons r))
  | CreateTableCommentOp _ c e _ => is_some c || negb (is_some e)
  | DropTableCommentOp _ _ _ => true
  | AlterColumnOp a => alter_has_existing a
  | AddColumnOp _ _ _ => true
  | DropColumnOp t cn s kw (Some (t0, c, s0)) =>
      N.eqb kw 0 && decb str_eq_dec cn (c_name c) && decb str_eq_dec t0 t && decb ostr_eq_dec s0 s
  | _ => false
  end.
