(* C07 — autogenerate detects every supported kind of model change, and nothing unrelated.
   Mutation catalogue over the universe of Model/Schema.v, the property, its decider, the exact comparison. *)
From AV Require Export Model.Diff Spec.C06.

(* ---------------------------------------------------------------- the documented-detectable catalogue *)
Inductive mut :=
| MAddTable (t:table)             (* table added *)
| MDropTable (n:N)                (* table removed *)
| MAddColumn (t:N) (c:col)        (* column added *)
| MDropColumn (t c:N)             (* column removed *)
| MFlipNullable (t c:N)           (* nullability changed *)
| MChangeType (t c:N) (y:ty)      (* type changed to a different type family *)
| MChangeDefault (t c:N) (d:option dflt)   (* server default changed (added, removed, other value) *)
| MAddCons (t:N) (k:cons)         (* index / named unique constraint added *)
| MDropCons (t n:N)               (* ... removed *)
| MChangeCons (t:N) (k:cons)      (* ... changed: same name and kind, other columns or unique flag *)
| MAddFk (t:N) (f:fk)             (* foreign key added *)
| MDropFk (t n:N).                (* foreign key removed *)


(* not in the catalogue because the code does not detect them on SQLite (see the header of Model/Schema.v): CHECK constraints,
   expression indexes, a change of / to / from a Computed default, comments *)
Definition on_table (t:N) (f:table->table) (S:schema) : schema := kupdate t_name t f S.
Definition with_cols (f:list col->list col) (tb:table) : table := mkTable (t_name tb) (f (t_cols tb)) (t_cons tb) (t_fks tb) (t_uuqs tb).
Definition with_cons (f:list cons->list cons) (tb:table) : table := mkTable (t_name tb) (t_cols tb) (f (t_cons tb)) (t_fks tb) (t_uuqs tb).
Definition with_fks (f:list fk->list fk) (tb:table) : table := mkTable (t_name tb) (t_cols tb) (t_cons tb) (f (t_fks tb)) (t_uuqs tb).
(* the changed model states the new nullability explicitly *)
Definition flip_null (x:col) : col := mkCol (c_name x) (c_ty x) (negb (c_null x)) (c_pk x) (c_default x) true.
Definition set_ty (y:ty) (x:col) : col := mkCol (c_name x) y (c_null x) (c_pk x) (c_default x) (c_null_set x).
Definition set_default (d:option dflt) (x:col) : col := mkCol (c_name x) (c_ty x) (c_null x) (c_pk x) d (c_null_set x).

Definition apply_mut (m:mut) (A:schema) : schema :=
  match m with
  | MAddTable t => A ++ [t]
  | MDropTable n => kremove t_name n A
  | MAddColumn t c => on_table t (with_cols (fun cs => cs ++ [c])) A
  | MDropColumn t c => on_table t (with_cols (kremove c_name c)) A
  | MFlipNullable t c => on_table t (with_cols (kupdate c_name c flip_null)) A
  | MChangeType t c y => on_table t (with_cols (kupdate c_name c (set_ty y))) A
  | MChangeDefault t c d => on_table t (with_cols (kupdate c_name c (set_default d))) A
  | MAddCons t k => on_table t (with_cons (fun ks => ks ++ [k])) A
  | MDropCons t n => on_table t (with_cons (kremove k_name n)) A
  | MChangeCons t k => on_table t (with_cons (kupdate k_name (k_name k) (fun _ => k))) A
  | MAddFk t f => on_table t (with_fks (fun fs => fs ++ [f])) A
  | MDropFk t n => on_table t (with_fks (kremove f_name n)) A
  end.

Definition in_table (t:N) (A:schema) (p:table->bool) : bool := match kfind t_name t A with Some tb => p tb | None => false end.
Definition applicable (m:mut) (A:schema) : bool :=
  match m with
  | MAddTable t => negb (memN (t_name t) (keys t_name A))
  | MDropTable n => memN n (keys t_name A)
  | MAddColumn t c => in_table t A (fun tb => negb (memN (c_name c) (keys c_name (t_cols tb))))
  | MDropColumn t c | MFlipNullable t c => in_table t A (fun tb => memN c (keys c_name (t_cols tb)))
  | MChangeType t c y => in_table t A (fun tb => match kfind c_name c (t_cols tb) with
                                                   | Some x => negb (column_types_match (c_ty x) y)     (* a different family *)
                                                   | None => false end)
  | MChangeDefault t c d =>       (* the old and the new default differ after the documented normalisation *)
      in_table t A (fun tb => match kfind c_name c (t_cols tb) with
                              | Some x => negb (is_computed (c_default x)) && negb (is_computed d)     (* generated columns cannot be altered *)
                                          && negb (opt_eqb (list_eqb N.eqb) (option_map (fun o => norm_default (d_txt o)) (c_default x))
                                                                         (option_map (fun o => norm_default (d_txt o)) d))
                              | None => false end)
  | MAddCons t k => in_table t A (fun tb => negb (memN (k_name k) (keys k_name (t_cons tb))))
  | MDropCons t n => in_table t A (fun tb => memN n (keys k_name (t_cons tb)))
  | MChangeCons t k => in_table t A (fun tb => match kfind k_name (k_name k) (t_cons tb) with
                                                 | Some old => Bool.eqb (is_ix old) (is_ix k) && negb (sig_equal k old)
                                                 | None => false end)
  (* a foreign key is what its signature says: adding one means a signature the table does not have yet, removing one
     means its signature disappears *)
  | MAddFk t f => in_table t A (fun tb => negb (memN (f_name f) (keys f_name (t_fks tb))) && negb (existsb (fk_sig_eqb f) (t_fks tb)))
  | MDropFk t n => in_table t A (fun tb => match kfind f_name n (t_fks tb) with
                                             | Some old => negb (existsb (fk_sig_eqb old) (kremove f_name n (t_fks tb)))
                                             | None => false end)
  end.
(* type changes are only looked for with compare_type on, default changes with compare_server_default on *)
Definition enabled (g:cfg) (m:mut) : bool :=
  match m with MChangeType _ _ _ => compare_type g | MChangeDefault _ _ _ => compare_server_default g | _ => true end.

(* ---------------------------------------------------------------- what an operation is about *)
Inductive objref := RTable (t:N) | RColumn (t c:N) | RCons (t n:N) | RFk (t n:N) | RUUq (t h:N).
Definition objref_eqb (a b:objref) : bool :=
  match a, b with
  | RTable t, RTable t' => N.eqb t t'
  | RColumn t c, RColumn t' c' => N.eqb t t' && N.eqb c c'
  | RCons t n, RCons t' n' | RFk t n, RFk t' n' | RUUq t n, RUUq t' n' => N.eqb t t' && N.eqb n n'
  | _, _ => false
  end.
Definition op_target (o:op) : objref :=
  match o with
  | OpCreateTable t => RTable (t_name t)
  | OpDropTable t => RTable t
  | OpAddColumn t c => RColumn t (c_name c)
  | OpDropColumn t c | OpAlterColumn t c _ _ _ _ _ _ => RColumn t c
  | OpAddCons t k => RCons t (k_name k)
  | OpDropCons t _ n => RCons t n
  | OpAddFk t f => RFk t (f_name f)
  | OpDropFk t n _ => RFk t n
  | OpAddUUq t u => RUUq t (u_h u)
  end.
Inductive opkind := KCreateTable | KDropTable | KAddColumn | KDropColumn | KAlterNullable | KAlterType | KAlterDefault
                  | KAddIndex | KAddUq | KDropIndex | KDropUq | KAddFk | KDropFk.
Definition op_has_kind (o:op) (k:opkind) : bool :=
  match o, k with
  | OpCreateTable _, KCreateTable | OpDropTable _, KDropTable | OpAddColumn _ _, KAddColumn | OpDropColumn _ _, KDropColumn => true
  | OpAlterColumn _ _ _ _ _ (Some _) _ _, KAlterNullable => true
  | OpAlterColumn _ _ _ _ _ _ (Some _) _, KAlterType => true
  | OpAlterColumn _ _ _ _ _ _ _ (Some _), KAlterDefault => true
  | OpAddFk _ _, KAddFk | OpDropFk _ _ _, KDropFk => true
  | OpAddCons _ c, KAddIndex => is_ix c
  | OpAddCons _ c, KAddUq => is_uq c
  | OpDropCons _ ix _, KDropIndex => ix
  | OpDropCons _ ix _, KDropUq => negb ix
  | _, _ => false
  end.

Definition target (m:mut) : objref :=
  match m with
  | MAddTable t => RTable (t_name t)
  | MDropTable n => RTable n
  | MAddColumn t c => RColumn t (c_name c)
  | MDropColumn t c | MFlipNullable t c | MChangeType t c _ | MChangeDefault t c _ => RColumn t c
  | MAddCons t k | MChangeCons t k => RCons t (k_name k)
  | MDropCons t n => RCons t n
  | MAddFk t f => RFk t (f_name f)
  | MDropFk t n => RFk t n
  end.
(* the operation kinds that must appear on the target *)
Definition kinds_of (A:schema) (m:mut) : list opkind :=
  match m with
  | MAddTable _ => [KCreateTable]
  | MDropTable _ => [KDropTable]
  | MAddColumn _ _ => [KAddColumn]
  | MDropColumn _ _ => [KDropColumn]
  | MFlipNullable _ _ => [KAlterNullable]
  | MChangeType _ _ _ => [KAlterType]
  | MChangeDefault _ _ _ => [KAlterDefault]
  | MAddCons _ k => [if is_ix k then KAddIndex else KAddUq]
  | MDropCons t n => [if in_table t A (fun tb => match kfind k_name n (t_cons tb) with Some k => is_ix k | None => false end)
                      then KDropIndex else KDropUq]
  | MChangeCons _ k => if is_ix k then [KDropIndex; KAddIndex] else [KDropUq; KAddUq]
  | MAddFk _ _ => [KAddFk]
  | MDropFk _ _ => [KDropFk]
  end.
(* the objects the change is about: the target; for a whole table also everything inside it *)
Definition inside (tb:table) : list objref :=
  RTable (t_name tb) :: map (fun c => RColumn (t_name tb) (c_name c)) (t_cols tb) ++ map (fun k => RCons (t_name tb) (k_name k)) (t_cons tb)
  ++ map (fun f => RFk (t_name tb) (f_name f)) (t_fks tb).
Definition touches (A:schema) (m:mut) : list objref :=
  match m with
  | MAddTable t => inside t
  | MDropTable n => match kfind t_name n A with Some tb => inside tb | None => [RTable n] end
  | _ => [target m]
  end.

(* ---------------------------------------------------------------- the property *)
Definition detects (A:schema) (m:mut) (ops:list op) : Prop :=
  forall k, In k (kinds_of A m) -> exists o, In o ops /\ op_has_kind o k = true /\ op_target o = target m.
Definition nothing_else (A:schema) (m:mut) (ops:list op) : Prop :=
  forall o, In o ops -> In (op_target o) (touches A m).

Definition c07_in : Type := schema * mut.
Definition c07_out : Type := list (cfg * list op).          (* compare db(A) with m(A) under each setting *)
Definition C07_holds (i:c07_in) (out:c07_out) : Prop :=
  map fst out = all_cfgs /\
  forall g ops, In (g, ops) out -> (enabled g (snd i) = true -> detects (fst i) (snd i) ops) /\ nothing_else (fst i) (snd i) ops.

Definition detectsb (A:schema) (m:mut) (ops:list op) : bool :=
  forallb (fun k => existsb (fun o => op_has_kind o k && objref_eqb (op_target o) (target m)) ops) (kinds_of A m).
Definition nothing_elseb (A:schema) (m:mut) (ops:list op) : bool :=
  forallb (fun o => existsb (objref_eqb (op_target o)) (touches A m)) ops.
Definition check_C07 (i:c07_in) (out:c07_out) : bool :=
  list_eqb cfg_eqb (map fst out) all_cfgs &&
  forallb (fun r => implb (enabled (fst r) (snd i)) (detectsb (fst i) (snd i) (snd r)) && nothing_elseb (fst i) (snd i) (snd r)) out.

Definition model_C07 (i:c07_in) : c07_out :=
  map (fun g => (g, diff g (reflect_sqlite (fst i)) (apply_mut (snd i) (fst i)))) all_cfgs.
Definition corr_C07 (i:c07_in) (out:c07_out) : bool :=
  list_forall2b (fun m r => cfg_eqb (fst m) (fst r) && ops_equiv (snd m) (snd r)) (model_C07 i) out.
Definition inclass_C07 (i:c07_in) : bool :=
  no_unnamed_uq (fst i) && no_unnamed_uq (apply_mut (snd i) (fst i)) &&
  wf_schemab (fst i) && applicable (snd i) (fst i) && wf_schemab (apply_mut (snd i) (fst i))
  && defaults_ok (fst i) && defaults_ok (apply_mut (snd i) (fst i))
  && forallb (fun t => sigs_distinct (t_cons t)) (fst i) && forallb (fun t => sigs_distinct (t_cons t)) (apply_mut (snd i) (fst i)).

(* ---------------------------------------------------------------- several changes at once
   A list of catalogue mutations applied one after the other (a column removed and another added on the same table, a
   table removed together with the foreign key that pointed at it, ...).  Each change is looked at on the schema it is
   applied to (its stage).  Every change must be detected on its object, and every operation must be about an object
   one of the changes touches. *)
Fixpoint stages (ms:list mut) (A:schema) : list (schema * mut) :=
  match ms with [] => [] | m :: r => (A, m) :: stages r (apply_mut m A) end.
Fixpoint apply_muts (ms:list mut) (A:schema) : schema :=
  match ms with [] => A | m :: r => apply_muts r (apply_mut m A) end.
Definition touched (st:list (schema * mut)) : list objref := flat_map (fun x => touches (fst x) (snd x)) st.
Definition mem_ref (r:objref) (l:list objref) : bool := existsb (objref_eqb r) l.
Definition alter_tag (m:mut) : option N :=
  match m with MFlipNullable _ _ => Some 0%N | MChangeType _ _ _ => Some 1%N | MChangeDefault _ _ _ => Some 2%N | _ => None end.
Definition fk_clash (a b:mut) : bool :=
  match a, b with MAddFk t _, MDropFk t' _ | MDropFk t _, MAddFk t' _ => N.eqb t t' | _, _ => false end.
Definition ref_table (r:objref) : N := match r with RTable t | RColumn t _ | RCons t _ | RFk t _ | RUUq t _ => t end.
Definition whole_table (m:mut) : option N := match m with MAddTable t => Some (t_name t) | MDropTable n => Some n | _ => None end.
(* a change to a table that the same list adds or removes is part of that addition / removal *)
Definition table_clash (a b:mut) : bool := match whole_table a with Some n => N.eqb n (ref_table (target b)) | None => false end.
(* two changes do not interfere: they are about different objects, neither inside the other -- or they alter different
   properties of the same column; a foreign key added and another removed on one table could be the same signature under
   a new name, which is no change at all *)
Definition indep2 (x y:schema * mut) : bool :=
  negb (fk_clash (snd x) (snd y)) && negb (table_clash (snd x) (snd y)) && negb (table_clash (snd y) (snd x)) &&
  (match alter_tag (snd x), alter_tag (snd y) with
   | Some a, Some b => negb (N.eqb a b) && objref_eqb (target (snd x)) (target (snd y))
   | _, _ => false end
   || (negb (mem_ref (target (snd x)) (touches (fst y) (snd y))) && negb (mem_ref (target (snd y)) (touches (fst x) (snd x))))).
Fixpoint pairwise {X} (p:X -> X -> bool) (l:list X) : bool :=
  match l with [] => true | a :: r => forallb (p a) r && pairwise p r end.
Definition stages_applicable (st:list (schema * mut)) : bool := forallb (fun x => applicable (snd x) (fst x)) st.
Definition seq_ok (A:schema) (ms:list mut) : bool := stages_applicable (stages ms A) && pairwise indep2 (stages ms A).

Definition c07s_in : Type := schema * list mut.
Definition C07s_holds (i:c07s_in) (out:c07_out) : Prop :=
  map fst out = all_cfgs /\          (* the comparison ran (no exception) under every setting *)
  forall g ops, In (g, ops) out ->
    (forall x, In x (stages (snd i) (fst i)) -> enabled g (snd x) = true -> detects (fst x) (snd x) ops) /\
    (forall o, In o ops -> In (op_target o) (touched (stages (snd i) (fst i)))).
Definition check_C07s (i:c07s_in) (out:c07_out) : bool :=
  list_eqb cfg_eqb (map fst out) all_cfgs &&
  forallb (fun r => forallb (fun x => implb (enabled (fst r) (snd x)) (detectsb (fst x) (snd x) (snd r))) (stages (snd i) (fst i))
                    && forallb (fun o => mem_ref (op_target o) (touched (stages (snd i) (fst i)))) (snd r)) out.
Definition model_C07s (i:c07s_in) : c07_out :=
  map (fun g => (g, diff g (reflect_sqlite (fst i)) (apply_muts (snd i) (fst i)))) all_cfgs.
Definition corr_C07s (i:c07s_in) (out:c07_out) : bool :=
  list_forall2b (fun m r => cfg_eqb (fst m) (fst r) && ops_equiv (snd m) (snd r)) (model_C07s i) out.
Definition inclass_C07s (i:c07s_in) : bool :=
  seq_ok (fst i) (snd i) &&
  no_unnamed_uq (fst i) && no_unnamed_uq (apply_muts (snd i) (fst i)) &&
  wf_schemab (fst i) && wf_schemab (apply_muts (snd i) (fst i))
  && defaults_ok (fst i) && defaults_ok (apply_muts (snd i) (fst i))
  && forallb (fun t => sigs_distinct (t_cons t)) (fst i) && forallb (fun t => sigs_distinct (t_cons t)) (apply_muts (snd i) (fst i)).
