(* C12 — "Offline SQL script has the same effect as the online run".
   Input  : the starting database (abstracted), the revision(s) the offline run is told to start from,
            the plan (steps with their migration bodies and version-table bookkeeping), and one raw
            statement text used to tie the text-level post-processing of DefaultImpl._exec.
   Output : the observable of the database after the ONLINE command, the observable of a copy of the
            starting database after executing the OFFLINE script statement by statement (None = that
            side aborted with an error), and what _exec wrote for the raw statement.
   The harness delivers both observables in one canonical order (tables by name, rows sorted, ...), so
   "same effect" is plain equality of the two observables, including the raw sqlite_master lines. *)
From AV Require Export Model.OfflineEffect.
From Coq Require Import ZArith.
Import ListNotations.
Open Scope N_scope.

(* i_spell / i_map: how the start of the --sql range is spelled and the revision map it is looked up in *)
Record c12_in := mkIn { i_db : db; i_spell : spelling; i_map : list rinfo; i_steps : list step; i_raw : text; i_cfg : cfg }.
Definition i_start (i:c12_in) : list N := match resolve_start (i_map i) (i_spell i) with Some l => l | None => [] end.
Definition resolvesb (i:c12_in) : bool := match resolve_start (i_map i) (i_spell i) with Some _ => true | None => false end.
(* how one side ended: the observable of the database afterwards, after a completed run (ROk) or after an error (RErr) *)
Inductive robs := ROk (o:obs) | RErr (o:obs).
Record c12_out := mkOut { o_on : robs; o_off : robs; o_posted : text }.

(* The property.  Both runs complete with the same schema, data and version rows (an absent and an empty version table
   are identified), or both are stopped by an error.
   WHAT IS CLAIMED WHEN A STATEMENT FAILS: only that the other side fails as well (at the same statement, see
   C12_abort_same_statement).  The databases left behind are NOT claimed equal, and in general are not: the offline
   script executed statement by statement in autocommit keeps everything before the failing statement, while the
   online run rolls the open transaction back (with the sqlite3 driver: to the first DML statement of the failing
   step; DDL issued before it in that step stays, earlier steps are committed).  Both partial states are modelled
   (Aborted / rolled_back) and compared exactly with the real databases by corr_C12.
   CONFIGURATION: i_cfg = (transactional_ddl, transaction_per_migration) of the migration context, for both runs.  With
   transactional DDL the offline script carries its own BEGIN / COMMIT (around the whole run, or around every step and
   around the final DROP of the version table); the script is replayed on an autocommit connection, so these frame the
   transactions, a nested BEGIN or an unmatched COMMIT is an error, and an error inside a block rolls the block back.
   Online the same flags decide where the connection commits (once at the end, or after every step).
   START: the range start is spelled as base, a full id, a branch label, a unique prefix or `head`, and is resolved to the
   revision id (resolve_start) before anything else; `start` is then [] (base) or a single revision.  A multi-head start is not expressible: `upgrade a+b:heads` and
   `a,b:heads` are rejected (CommandError "Can't locate revision identified by 'a+b'"), and `heads:...` with two heads
   raises CommandError (MultipleHeads) in get_current_heads — probed on every run (evidence key
   multi_head_start_rejected). *)
Definition C12_holds (i:c12_in) (o:c12_out) : Prop :=
  match o_on o, o_off o with
  | ROk a, ROk b => a = b
  | RErr _, RErr _ => True
  | _, _ => False
  end.

(* ---- model output on the canonical observable *)
Definition TERM : text := [59].                  (* SQLiteImpl.command_terminator = ";" *)
Definition robs_of (x:outcome) : robs := match x with Done d => ROk (observable d) | Aborted d => RErr (observable d) end.
Definition model_C12 (i:c12_in) : c12_out :=
  mkOut (robs_of (online_outcome lit_c parse_c untext_c (i_cfg i) (i_db i) (i_steps i)))
        (robs_of (if resolvesb i then offline_outcome lit_c parse_c untext_c (i_cfg i) (i_db i) (i_start i) (i_steps i)
                  else Aborted (i_db i)))          (* the spelling does not resolve: CommandError, nothing is written *)
        (exec_post TERM (i_raw i)).

(* ---- decidable equality *)
Definition ovalue_eqb (a b : option value) : bool :=
  match a, b with Some x, Some y => value_eqb x y | None, None => true | _, _ => false end.
Definition col_eqb (a b : col) : bool :=
  N.eqb (c_name a) (c_name b) && N.eqb (c_type a) (c_type b) && ovalue_eqb (c_dflt a) (c_dflt b)
  && Bool.eqb (c_notnull a) (c_notnull b).
Definition row_eqb : list value -> list value -> bool := list_eqb value_eqb.
Definition table_eqb (a b : table) : bool :=
  N.eqb (t_name a) (t_name b) && list_eqb col_eqb (t_cols a) (t_cols b) && list_eqb (list_eqb N.eqb) (t_uniq a) (t_uniq b)
  && list_eqb row_eqb (t_rows a) (t_rows b).
Definition index_eqb (a b : index) : bool :=
  N.eqb (x_name a) (x_name b) && N.eqb (x_tab a) (x_tab b) && list_eqb N.eqb (x_cols a) (x_cols b)
  && Bool.eqb (x_unique a) (x_unique b).
Definition obs_eqb (a b : obs) : bool :=
  list_eqb table_eqb (ob_tabs a) (ob_tabs b) && list_eqb index_eqb (ob_idx a) (ob_idx b)
  && list_eqb N.eqb (ob_vers a) (ob_vers b) && list_eqb (list_eqb N.eqb) (ob_raw a) (ob_raw b).
Definition robs_holdsb (a b : robs) : bool :=
  match a, b with ROk x, ROk y => obs_eqb x y | RErr _, RErr _ => true | _, _ => false end.

(* decider, applied to the implementation's output *)
Definition check_C12 (i:c12_in) (o:c12_out) : bool := robs_holdsb (o_on o) (o_off o).

(* ---- exact model-vs-implementation comparison (order of tables / rows / indexes / version rows is
   not part of the observable: compared as multisets; the raw sqlite_master text is not modelled) *)
Fixpoint remove1 {A} (eqb : A -> A -> bool) (x:A) (l:list A) : option (list A) :=
  match l with
  | [] => None
  | y :: r => if eqb x y then Some r else match remove1 eqb x r with Some r' => Some (y :: r') | None => None end
  end.
Fixpoint perm_eqb {A} (eqb : A -> A -> bool) (a b : list A) : bool :=
  match a with
  | [] => match b with [] => true | _ => false end
  | x :: a' => match remove1 eqb x b with Some b' => perm_eqb eqb a' b' | None => false end
  end.
Definition table_sim (a b : table) : bool :=
  N.eqb (t_name a) (t_name b) && list_eqb col_eqb (t_cols a) (t_cols b)
  && perm_eqb (fun x y => seteqN x y) (t_uniq a) (t_uniq b) && perm_eqb row_eqb (t_rows a) (t_rows b).
Definition obs_sim (m impl : obs) : bool :=
  perm_eqb table_sim (ob_tabs m) (ob_tabs impl) && perm_eqb index_eqb (ob_idx m) (ob_idx impl)
  && perm_eqb N.eqb (ob_vers m) (ob_vers impl).
(* the partial state after an error is compared as exactly as the final state of a completed run *)
Definition robs_sim (m impl : robs) : bool :=
  match m, impl with ROk x, ROk y => obs_sim x y | RErr x, RErr y => obs_sim x y | _, _ => false end.
Definition corr_C12 (i:c12_in) (o:c12_out) : bool :=
  let m := model_C12 i in
  robs_sim (o_on m) (o_on o) && robs_sim (o_off m) (o_off o) && list_eqb N.eqb (o_posted m) (o_posted o).

(* ---- the class the theorems cover *)
Definition db_atb (d:db) (start : list N) : bool :=
  match start, snd d with
  | [], None => true
  | _ :: _, Some l => list_eqb N.eqb l start
  | _, _ => false
  end.
Definition no_tab_in_literalsb (steps : list step) : bool :=
  forallb (fun v => no_tab (lit_c v)) (steps_values steps) && forallb (fun w => no_tab (untext_c w)) (steps_texts steps).
Definition lits_roundtripb (steps : list step) : bool := forallb (fun v => value_eqb (parse_c (lit_c v)) v) (steps_values steps).
(* the starting database is at `start` (no version table at base), the heads are never empty between two steps,
   and a run from base has at least one step *)
Definition start_okb (i:c12_in) : bool :=
  db_atb (i_db i) (i_start i) && nodupb (i_start i)
  && mid_nonempty (i_start i) (i_steps i)
  && match i_start i, i_steps i with [], [] => false | _, _ => true end.
Definition inclass_C12 (i:c12_in) : bool :=
  no_tab_in_literalsb (i_steps i) && lits_roundtripb (i_steps i) && start_okb i && resolvesb i.
