(* C20 — objects excluded by the autogenerate filters never appear in the output; the rest is unchanged.
   The property for arbitrary predicates, the finite decision tables the harness installs as real
   include_object / include_name callables, the decider and the exact comparison (operations and the
   multiset of filter invocations). *)
From AV Require Export Model.Filters Spec.C06 Spec.C07.

Definition op_nref (o:op) : nref :=
  match o with
  | OpCreateTable t => NTable (t_name t)
  | OpDropTable n => NTable n
  | OpAddColumn t c => NColumn t (c_name c)
  | OpDropColumn t c | OpAlterColumn t c _ _ _ _ _ _ => NColumn t c
  | OpAddCons t k => kref t k
  | OpDropCons t ix n => if ix then NIx t n else NUq t n
  | OpAddFk t f => fkref t f
  | OpDropFk t n named => if named then NFk t n else NFkU t
  | OpAddUUq t _ => NUqU t
  end.
Definition drops_or_alters (o:op) : bool :=
  match o with OpDropTable _ | OpDropColumn _ _ | OpAlterColumn _ _ _ _ _ _ _ _ | OpDropCons _ _ _ | OpDropFk _ _ _ => true | _ => false end.

Definition lk_col (S:schema) (t n:N) : option col :=
  match kfind t_name t S with Some tb => kfind c_name n (t_cols tb) | None => None end.
Definition lk_cons (S:schema) (t n:N) : option cons :=
  match kfind t_name t S with Some tb => kfind k_name n (t_cons tb) | None => None end.

Definition lk_fk (S:schema) (t n:N) : option fk :=
  match kfind t_name t S with Some tb => kfind f_name n (t_fks tb) | None => None end.
Definition lk_fks (S:schema) (t:N) : list fk := match kfind t_name t S with Some tb => t_fks tb | None => [] end.

Section Acc.
  Variable io : obj -> bool -> option obj -> bool.
  Variable iname : nref -> bool.

  (* ---------------------------------------------------------- the three clauses, for arbitrary predicates *)
  (* an include_object call about exactly this object said yes *)
  Definition obj_accepted (r:nref) : Prop := exists ob refl cmp, obj_ref ob = r /\ io ob refl cmp = true.
  Definition object_filter_ok (ops:list op) : Prop :=
    forall o, In o ops -> obj_accepted (op_nref o) /\ obj_accepted (NTable (op_table o)).
  Definition name_filter_ok (ops:list op) : Prop :=
    forall o, In o ops -> drops_or_alters o = true ->
      iname (schema_ref (op_table o)) = true /\ iname (NTable (op_table o)) = true /\ iname (op_nref o) = true.

  (* "neither filter rejects the object": the names involved are accepted by include_name and the include_object
     calls that the unfiltered comparison would make for this operation (its table, then the object) say yes *)
  Definition name_ok (o:op) : bool := iname (schema_ref (op_table o)) && iname (NTable (op_table o)) && iname (op_nref o).
  (* a foreign key is matched by signature, not by name: the key an OpAddFk adds is "the same object" as a reflected key
     with the same signature, whatever that one is called; if include_name rejects that reflected name the object is
     rejected (it is then treated as absent and the metadata key is reported as added) *)
  Definition fk_twin_ok (conn:schema) (o:op) : bool :=
    match o with
    | OpAddFk tn mf => forallb (fun cf => implb (fk_sig_eqb mf cf) (iname (fkref tn cf))) (lk_fks conn tn)
    (* likewise an unnamed unique constraint is identified by its column signature *)
    | OpAddUUq tn u =>
        match kfind t_name tn conn with
        | Some c => forallb (fun k => implb (is_uq k && permb (u_cols u) (k_cols k)) (iname (kref tn k))) (t_cons c)
                    && implb (existsb (fun v => permb (u_cols u) (u_cols v)) (t_uuqs c)) (iname (NUqU tn))
        | None => true end
    | _ => true
    end.
  Definition table_guard (conn meta:schema) (tn:N) : bool :=
    match kfind t_name tn meta, kfind t_name tn conn with
    | Some m, Some c => io (OTable m) false (Some (OTable c))
    | Some m, None => io (OTable m) false None
    | None, Some c => io (OTable c) true None
    | None, None => true
    end.
  Definition obj_guard (conn meta:schema) (o:op) : bool :=
    match o with
    | OpCreateTable _ | OpDropTable _ => true
    | OpAddColumn tn mc => io (OColumn tn mc) false None
    | OpDropColumn tn n => match lk_col conn tn n with Some cc => io (OColumn tn cc) true None | None => true end
    | OpAlterColumn tn n _ _ _ _ _ _ =>
        match lk_col meta tn n, lk_col conn tn n with
        | Some mc, Some cc => io (OColumn tn mc) false (Some (OColumn tn cc))
        | _, _ => true end
    | OpAddCons tn k =>
        match lk_cons conn tn (k_name k) with
        | Some ck => if Bool.eqb (is_ix ck) (is_ix k) then io (OCons tn k) false (Some (OCons tn ck)) else io (OCons tn k) false None
        | None => io (OCons tn k) false None end
    | OpDropCons tn ix n =>
        match lk_cons conn tn n with
        | Some ck => match lk_cons meta tn n with
                     | Some mk => if Bool.eqb (is_ix ck) (is_ix mk) then io (OCons tn mk) false (Some (OCons tn ck))
                                  else io (OCons tn ck) true None
                     | None => io (OCons tn ck) true None end
        | None => true end
    | OpAddFk tn mf => io (OFk tn mf) false (option_map (OFk tn) (fk_by_name mf (lk_fks conn tn)))
    | OpDropFk tn n _ =>
        match lk_fk conn tn n with
        | Some cf => io (OFk tn cf) true (option_map (OFk tn) (fk_by_name cf (lk_fks meta tn)))
        | None => true end
    | OpAddUUq tn u => io (OUUq tn u) false None
    end.
  Definition acc (conn meta:schema) (o:op) : bool :=
    name_ok o && fk_twin_ok conn o && table_guard conn meta (op_table o) && obj_guard conn meta o.
End Acc.

(* ---------------------------------------------------------------- finite decision tables *)
Definition nref_eqb (a b:nref) : bool :=
  match a, b with
  | NSchema, NSchema => true
  | NTable t, NTable t' => N.eqb t t'
  | NColumn t c, NColumn t' c' | NUq t c, NUq t' c' | NIx t c, NIx t' c' | NFk t c, NFk t' c' => N.eqb t t' && N.eqb c c'
  | NFkU t, NFkU t' | NSchemaN t, NSchemaN t' | NUqU t, NUqU t' => N.eqb t t'
  | _, _ => false
  end.
Definition okey : Type := nref * bool * bool.       (* object, reflected, compare_to is not None *)
Definition okey_eqb (a b:okey) : bool :=
  nref_eqb (fst (fst a)) (fst (fst b)) && Bool.eqb (snd (fst a)) (snd (fst b)) && Bool.eqb (snd a) (snd b).
Fixpoint assoc {K} (e:K->K->bool) (k:K) (l:list (K*bool)) (d:bool) : bool :=
  match l with [] => d | (k',v) :: r => if e k k' then v else assoc e k r d end.
(* content rules: predicates that look INSIDE the object they are handed (and inside compare_to) *)
Inductive rule :=
| RTabHasCol (c:N)        (* reject a table that has a column named c *)
| RReflTabHasIx           (* reject a reflected table that has an index *)
| RTabHasFk               (* reject a table that has a foreign key *)
| RColFam (fam:N)         (* reject a column whose type family is fam *)
| RConsOnCol (c:N)        (* reject an index / unique constraint over column c *)
| RFkTo (t:N)             (* reject a foreign key that refers to table t *)
| RCmpTabHasCol (c:N).    (* reject when compare_to is a table with a column named c *)
Definition tab_has_col (c:N) (o:obj) : bool := match o with OTable t => memN c (keys c_name (t_cols t)) | _ => false end.
Definition rule_rejects (r:rule) (ob:obj) (refl:bool) (cmp:option obj) : bool :=
  match r with
  | RTabHasCol c => tab_has_col c ob
  | RReflTabHasIx => refl && match ob with OTable t => existsb is_ix (t_cons t) | _ => false end
  | RTabHasFk => match ob with OTable t => negb (is_nil (t_fks t)) | _ => false end
  | RColFam fam => match ob with OColumn _ c => N.eqb (ty_fam (c_ty c)) fam | _ => false end
  | RConsOnCol c => match ob with OCons _ k => memN c (k_cols k) | OUUq _ u => memN c (u_cols u) | _ => false end
  | RFkTo t => match ob with OFk _ f => N.eqb (f_rtable f) t | _ => false end
  | RCmpTabHasCol c => match cmp with Some o => tab_has_col c o | None => false end
  end.
(* fl_attached is environment, not filter: the ATTACHed databases (schemas) the connection reports *)
Record filt := mkFilt { fl_obj : list (okey*bool); fl_obj_d : bool; fl_name : list (nref*bool); fl_name_d : bool; fl_rules : list rule;
                        fl_attached : list N;
                        fl_none : bool }.      (* no callable installed at all: nothing is filtered and nothing is called *)
Definition expected_calls (f:filt) (io:obj -> bool -> option obj -> bool) (iname:nref -> bool) (conn meta:schema) : list tcall :=
  if fl_none f then [] else calls_f io iname (fl_attached f) conn meta.
Definition io_of (f:filt) : obj -> bool -> option obj -> bool :=
  fun ob refl cmp => assoc okey_eqb (obj_ref ob, refl, has_cmp cmp) (fl_obj f) (fl_obj_d f)
                     && negb (existsb (fun r => rule_rejects r ob refl cmp) (fl_rules f)).
Definition iname_of (f:filt) : nref -> bool := fun r => assoc nref_eqb r (fl_name f) (fl_name_d f).

(* EnvironmentContext.configure() may be called several times on one EnvironmentContext (the multi-database env.py): the filters
   in force for a comparison are exactly those of the LAST call; a call that passes none means no filter *)
Definition no_filter (attached:list N) : filt := mkFilt [] true [] true [] attached true.
Definition effective_filt (configure_calls:list (option filt)) (attached:list N) : filt :=
  match last configure_calls None with Some f => f | None => no_filter attached end.

(* ---------------------------------------------------------------- one case *)
Definition c20_in : Type := schema * schema * filt.
Record c20_out := mkOut20 { o_filtered : list op; o_plain : list op; o_calls : list tcall }.
Definition g20 : cfg := mkCfg true true.

Definition model_C20 (i:c20_in) : c20_out :=
  let '(A, B, f) := i in
  mkOut20 (diff_f (io_of f) (iname_of f) g20 (reflect_sqlite A) B) (diff g20 (reflect_sqlite A) B)
          (expected_calls f (io_of f) (iname_of f) (reflect_sqlite A) B).

(* membership modulo op_eqb (CreateTableOp carries its constraints as a set) *)
Definition inb (o:op) (l:list op) : bool := existsb (op_eqb o) l.
Definition conservativeb (a:op->bool) (filtered plain:list op) : bool :=
  forallb (fun o => implb (a o) (inb o plain)) filtered && forallb (fun o => implb (a o) (inb o filtered)) plain.

Definition tcall_eqb (a b:tcall) : bool :=
  match a, b with
  | TN r, TN r' => nref_eqb r r'
  | TO r x y d c, TO r' x' y' d' c' => nref_eqb r r' && Bool.eqb x x' && Bool.eqb y y' && list_eqb N.eqb d d' && list_eqb N.eqb c c'
  | _, _ => false
  end.
(* every include_name call the comparison has to make - (name, type_, parent_names) for the schema, for each reflected table of an
   accepted schema, for each reflected column / index / unique constraint / foreign key (named or not) of a table that is compared -
   is observed *)
Definition is_name_call (c:tcall) : bool := match c with TN _ => true | TO _ _ _ _ _ => false end.
Definition name_calls_okb (expected observed:list tcall) : bool :=
  forallb (fun c => implb (is_name_call c) (existsb (tcall_eqb c) observed)) expected.

Definition C20_holds (i:c20_in) (out:c20_out) : Prop :=
  let '(A, B, f) := i in
  object_filter_ok (io_of f) (o_filtered out) /\ name_filter_ok (iname_of f) (o_filtered out) /\
  conservativeb (acc (io_of f) (iname_of f) (reflect_sqlite A) B) (o_filtered out) (o_plain out) = true /\
  (* the name filter is consulted for every reflected object ... *)
  name_calls_okb (expected_calls f (io_of f) (iname_of f) (reflect_sqlite A) B) (o_calls out) = true /\
  (* ... and what it rejects is treated as absent, what include_object rejects is left alone: the operations are those of the
     specification diff_f.  (C20_name_absent: without an object filter diff_f is the plain comparison of the database from which the
     rejected objects have been removed; C20_object_filter / C20_conservative say what include_object does to it.) *)
  ops_equiv (diff_f (io_of f) (iname_of f) g20 (reflect_sqlite A) B) (o_filtered out) = true.

(* decider: "an include_object call about r said yes", searched among the calls that can really be made: the object is the
   reflected or the metadata object of that name, compare_to is absent or the counterpart *)
Definition objs_of (S:schema) (r:nref) : list obj :=
  match r with
  | NSchema | NSchemaN _ => []
  | NTable t => match kfind t_name t S with Some tb => [OTable tb] | None => [] end
  | NColumn t c => match lk_col S t c with Some x => [OColumn t x] | None => [] end
  | NUq t n | NIx t n => match lk_cons S t n with Some k => if nref_eqb (kref t k) r then [OCons t k] else [] | None => [] end
  | NFk t n => match lk_fk S t n with Some x => if f_named x then [OFk t x] else [] | None => [] end
  | NFkU t => map (OFk t) (filter (fun f => negb (f_named f)) (lk_fks S t))
  | NUqU t => match kfind t_name t S with Some tb => map (OUUq t) (t_uuqs tb) | None => [] end
  end.
Definition obj_acceptedb (f:filt) (conn meta:schema) (r:nref) : bool :=
  let cands := objs_of conn r ++ objs_of meta r in
  existsb (fun ob => existsb (fun refl => existsb (fun cmp => io_of f ob refl cmp) (None :: map Some cands)) [true; false]) cands.
Definition check_C20 (i:c20_in) (out:c20_out) : bool :=
  let '(A, B, f) := i in
  forallb (fun o => obj_acceptedb f (reflect_sqlite A) B (op_nref o) && obj_acceptedb f (reflect_sqlite A) B (NTable (op_table o))) (o_filtered out)
  && forallb (fun o => implb (drops_or_alters o)
                         (iname_of f (schema_ref (op_table o)) && iname_of f (NTable (op_table o)) && iname_of f (op_nref o))) (o_filtered out)
  && conservativeb (acc (io_of f) (iname_of f) (reflect_sqlite A) B) (o_filtered out) (o_plain out)
  && name_calls_okb (expected_calls f (io_of f) (iname_of f) (reflect_sqlite A) B) (o_calls out)
  && ops_equiv (diff_f (io_of f) (iname_of f) g20 (reflect_sqlite A) B) (o_filtered out).
Definition corr_C20 (i:c20_in) (out:c20_out) : bool :=
  let m := model_C20 i in
  ops_equiv (o_filtered m) (o_filtered out) && ops_equiv (o_plain m) (o_plain out) && mset_eqb tcall_eqb (o_calls m) (o_calls out).
(* unnamed foreign keys allowed on both sides, unnamed unique constraints in the database; the conservativity theorem assumes the
   metadata has no unnamed unique constraint (outside, only the decider and the exact correspondence speak) *)
Definition inclass_C20 (i:c20_in) : bool := inclass_C06_core (fst i) && no_unnamed_uq (snd (fst i)).
