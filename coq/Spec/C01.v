(* C01 — the upgrade plan is exactly the missing ancestors, in dependency order. *)
From AV Require Export Model.Plan.

Definition input01 : Type := graph * list N * list N.      (* history, resolved targets, current rows *)

(* y is an ancestor-or-self of x through down_revision and depends_on links *)
Definition Anc (G:graph) (x y : N) : Prop := path (all_down G) x y.
Definition AncOf (G:graph) (X : list N) (y:N) : Prop := exists x, In x X /\ Anc G x y.
Definition Overlapping (G:graph) (X : list N) : Prop := exists a b, In a X /\ In b X /\ a <> b /\ Anc G a b.

Definition C01_holds (i:input01) (out : pres (list N)) : Prop :=
  let '(G, T, Cur) := i in
  match out with
  | POk plan =>
      NoDup plan /\
      (forall r, In r plan <-> AncOf G T r /\ ~ AncOf G Cur r) /\
      (forall pre r post, plan = pre ++ r :: post ->
         forall p, In p (all_down G r) -> In p pre \/ AncOf G Cur p)
  | PErr PEOverlap => Overlapping G T \/ Overlapping G Cur      (* refused loudly, and only an overlapping request *)
  | PErr _ => False
  end.

(* ---- boolean decider, applied to the implementation's plan ---- *)
Definition ancs (G:graph) (X : list N) : list N := reach_or_nil (all_down G) G X.
Definition overlapping (G:graph) (X : list N) : bool :=
  existsb (fun a => existsb (fun b => negb (N.eqb a b) && memN b (ancs G [a])) X) X.
Fixpoint linext (G:graph) (applied plan : list N) : bool :=
  match plan with
  | [] => true
  | r :: rest => subsetN (all_down G r) applied && linext G (r :: applied) rest
  end.
Definition check_C01 (i:input01) (out : pres (list N)) : bool :=
  let '(G, T, Cur) := i in
  match out with
  | POk plan => nodupb plan && seteqN plan (diffN (ancs G T) (ancs G Cur)) && linext G (ancs G Cur) plan
  | PErr PEOverlap => overlapping G T || overlapping G Cur
  | PErr _ => false
  end.

Definition corr_C01 (i:input01) (out : pres (list N)) : bool :=
  let '(G, T, Cur) := i in pres_list_eqb (upgrade_plan G T Cur) out.

(* the class the theorems cover: well-formed acyclic history whose stored normalized
   dependencies are what _normalize_depends_on computes (in any order) *)
Definition acyclicb (G:graph) : bool :=
  match self_loop G, kahn all_down_r G with None, Some [] => true | _, _ => false end.
Definition wf_graphb (G:graph) : bool := wf_refsb G && acyclicb G && ndeps_okb G.
Definition inclass_C01 (i:input01) : bool :=
  let '(G, T, Cur) := i in wf_graphb G && subsetN T (ids G) && subsetN Cur (ids G).
Definition model_C01 (i:input01) : pres (list N) := let '(G, T, Cur) := i in upgrade_plan G T Cur.
