(* C01 — the upgrade plan is exactly the missing ancestors, in dependency order. *)
From AV Require Export Model.Plan.

(* the request as the user wrote it, structured (the harness renders it to the string it passes to alembic) *)
Inductive tgt :=
| TIds (xs : list N)            (* a full revision id, or a partial id that is a prefix of exactly this one id *)
| THeads                        (* "heads" *)
| THead                         (* "head" *)
| TLabelHead (l:N)              (* "label@head" *)
| TRelId (x:N) (k:nat)          (* "id+k", k > 0 *)
| TRelCur (k:nat)               (* "+k" *)
| TLabelRel (l:N) (k:nat)       (* "label@+k" *)
| TOther.                       (* any other spelling: no reference verdict *)

Definition input01 : Type := graph * tgt * list N * list N.      (* history, request, resolved targets, current rows *)

(* ---- reference meaning of a request, written from docs/build/tutorial.rst ("Relative Migration
   Identifiers", "Partial Revision Identifiers") and docs/build/branches.rst ("Referring to all heads at
   once", "Branch Labels", "label@head", "label@+N"), independently of revision.py ---- *)
Inductive ref_res := RefOk (xs : list N) | RefError | RefUnknown.

Definition ref_res_eqb (a b : ref_res) : bool :=
  match a, b with
  | RefOk x, RefOk y => seteqN x y
  | RefError, RefError | RefUnknown, RefUnknown => true
  | _, _ => false
  end.
Definition label_rev (G:graph) (l:N) : option N :=
  match filter (fun r => memN l (r_labels r)) G with [r] => Some (r_id r) | _ => None end.
Definition down_anc (G:graph) (x:N) : list N := reach_or_nil (down G) G [x].
(* a revision is on the branch of `lr` when one is a down_revision-ancestor of the other *)
Definition on_branch (G:graph) (lr c : N) : bool := memN lr (down_anc G c) || memN c (down_anc G lr).
Definition heads_down (G:graph) : list N := heads_of G.      (* revisions no other revision names as down_revision *)

(* walk k steps towards the heads along down_revision links; every step must have exactly one candidate *)
Fixpoint walk_up (G:graph) (lbl : option N) (k:nat) (cur : option N) : ref_res :=
  match k with
  | O => match cur with Some x => RefOk [x] | None => RefError end
  | S k' =>
    let cs0 := match cur with None => bases_of G | Some x => nextrev G x end in
    let cs := match lbl with Some lr => filter (on_branch G lr) cs0 | None => cs0 end in
    match cs with
    | [c] => walk_up G lbl k' (Some c)
    | _ => RefError
    end
  end.

Definition all_anc (G:graph) (X : list N) : list N := reach_or_nil (all_down G) G X.
(* the applied revisions on the branch of lr that are not an ancestor (through down_revision or depends_on
   links) of another applied revision of the branch: where the branch currently stands *)
Definition branch_tips (G:graph) (lr:N) (Cur : list N) : list N :=
  let applied := filter (on_branch G lr) (all_anc G Cur) in
  filter (fun x => negb (existsb (fun y => negb (N.eqb x y) && memN x (all_anc G [y])) applied)) applied.

Definition ref_targets (G:graph) (Cur : list N) (t:tgt) : ref_res :=
  match t with
  | TIds xs => RefOk xs
  | THeads => RefOk (real_heads_of G)
  | THead => match heads_down G with [h] => RefOk [h] | [] => RefUnknown | _ => RefError end
  | TLabelHead l =>
      match label_rev G l with
      | None => RefUnknown
      | Some lr => match filter (fun h => memN lr (down_anc G h)) (heads_down G) with [h] => RefOk [h] | _ => RefError end
      end
  | TRelId x k => match k with O => RefUnknown | _ => walk_up G None k (Some x) end
  | TRelCur k =>
      match k, Cur with
      | O, _ => RefUnknown
      | _, [] => walk_up G None k None
      | _, [c] => walk_up G None k (Some c)
      | _, _ => RefError                      (* ambiguous: several current revisions *)
      end
  | TLabelRel l k =>
      match k, label_rev G l with
      | O, _ | _, None => RefUnknown
      | _, Some lr =>
          match branch_tips G lr Cur with
          | [] => walk_up G (Some lr) k None
          | c :: cs =>           (* several places where the branch stands are fine as long as they lead to the same revision *)
              let r := walk_up G (Some lr) k (Some c) in
              if forallb (fun c' => ref_res_eqb (walk_up G (Some lr) k (Some c')) r) cs then r else RefError
          end
      end
  | TOther => RefUnknown
  end.

(* the targets alembic resolved agree with the reference (as sets) whenever the reference speaks;
   for "heads" what matters is that everything gets applied, i.e. the targets cover the history *)
Definition ref_agrees (G:graph) (Cur : list N) (t:tgt) (T : list N) : bool :=
  match t, ref_targets G Cur t with
  | THeads, _ => subsetN (ids G) (all_anc G T)
  | _, RefOk xs => seteqN T xs
  | _, RefError => false
  | _, RefUnknown => true
  end.

(* y is an ancestor-or-self of x through down_revision and depends_on links *)
Definition Anc (G:graph) (x y : N) : Prop := path (all_down G) x y.
Definition AncOf (G:graph) (X : list N) (y:N) : Prop := exists x, In x X /\ Anc G x y.
Definition Overlapping (G:graph) (X : list N) : Prop := exists a b, In a X /\ In b X /\ a <> b /\ Anc G a b.

Definition C01_holds (i:input01) (out : pres (list N)) : Prop :=
  let '(G, t, T, Cur) := i in
  ref_agrees G Cur t T = true /\
  match out with
  | POk plan =>
      NoDup plan /\
      (forall r, In r plan <-> AncOf G T r /\ ~ AncOf G Cur r) /\
      (forall pre r post, plan = pre ++ r :: post ->
         forall p, In p (all_down G r) -> In p pre \/ AncOf G Cur p)
  | PErr PEOverlap => Overlapping G T \/ Overlapping G Cur      (* refused loudly, and only an overlapping request *)
  | PErr _ => False
  end.

(* ---- boolean decider, applied to the implementation's plan ---- *)
Definition ancs (G:graph) (X : list N) : list N := reach_or_nil (all_down G) G X.
Definition overlapping (G:graph) (X : list N) : bool :=
  existsb (fun a => existsb (fun b => negb (N.eqb a b) && memN b (ancs G [a])) X) X.
Fixpoint linext (G:graph) (applied plan : list N) : bool :=
  match plan with
  | [] => true
  | r :: rest => subsetN (all_down G r) applied && linext G (r :: applied) rest
  end.
Definition check_C01 (i:input01) (out : pres (list N)) : bool :=
  let '(G, t, T, Cur) := i in
  ref_agrees G Cur t T &&
  match out with
  | POk plan => nodupb plan && seteqN plan (diffN (ancs G T) (ancs G Cur)) && linext G (ancs G Cur) plan
  | PErr PEOverlap => overlapping G T || overlapping G Cur
  | PErr _ => false
  end.

Definition corr_C01 (i:input01) (out : pres (list N)) : bool :=
  let '(G, t, T, Cur) := i in pres_list_eqb (upgrade_plan G T Cur) out.

(* the class the theorems cover: well-formed acyclic history whose stored normalized
   dependencies are what _normalize_depends_on computes (in any order) *)
Definition acyclicb (G:graph) : bool :=
  match self_loop G, kahn all_down_r G with None, Some [] => true | _, _ => false end.
Definition wf_graphb (G:graph) : bool := wf_refsb G && acyclicb G && ndeps_okb G.
Definition inclass_C01 (i:input01) : bool :=
  let '(G, t, T, Cur) := i in wf_graphb G && subsetN T (ids G) && subsetN Cur (ids G).
Definition model_C01 (i:input01) : pres (list N) := let '(G, t, T, Cur) := i in upgrade_plan G T Cur.
