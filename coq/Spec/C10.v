(* C10 — "Batch move-and-copy keeps every row and everything it was not told to change":
   the abstract meaning of a batch operation on a table description (`edit`), the property as a Prop over what is
   observed in the database afterwards, its boolean decider, and the exact model-vs-implementation comparison. *)
From AV Require Export Model.Batch.
From AV Require Import Spec.C11.      (* multisets of rows: count_row, mseq, mseqb *)

(* ------------------------------------------------------------------ inputs and observations *)
Record input10 := mkIn10 {
  j_tbl : tbl; j_rows : list row; j_ops : list batch_op;
  j_cast : list (ty * val * val);           (* oracle: SQLite's CAST(v AS ty) stored in a column of type ty *)
  j_dflt : list (name * val);               (* oracle: what SQLite stores in an added column (its DEFAULT or NULL) *)
  j_always : bool;                          (* recreate='always' (true) or 'auto' (false) *)
  j_partial : list (list key);              (* batch_alter_table(partial_reordering=[(..), ..]) *)
  j_targs : list con;                       (* batch_alter_table(table_args=(<constraint>, ..)) *)
  j_reflected : bool;                       (* the table is reflected (true) or given by copy_from (false) *)
  j_uchecks : list con;                     (* the table's unnamed CHECK constraints (not part of j_tbl) *)
  j_never : bool }.                         (* recreate='never' *)
Inductive output10 :=
| OutOk (d:ndesc) (rows:list row) (tmp_left:bool)      (* reflected table, SELECT * (a multiset), any _alembic_tmp_* table left *)
| OutErr (e:berr).

Definition cast_of (i:input10) (t:ty) (v:val) : val :=
  match find (fun e => N.eqb (fst (fst e)) t && val_eqb (snd (fst e)) v) (j_cast i) with
  | Some e => snd e | None => v end.
Definition dflt_of (i:input10) (c:col) : val :=
  match find (fun e => name_eqb (fst e) (c_name c)) (j_dflt i) with Some e => snd e | None => VNull end.

(* ------------------------------------------------------------------ boolean equalities *)
Definition oname_eqb (a b:option name) : bool :=
  match a, b with Some x, Some y => name_eqb x y | None, None => true | _, _ => false end.
Definition col_eqb (a b:col) : bool :=
  name_eqb (c_name a) (c_name b) && N.eqb (c_ty a) (c_ty b) && Bool.eqb (c_nullable a) (c_nullable b)
  && oname_eqb (c_default a) (c_default b).
Definition names_eqb (a b:list name) : bool := list_eqb name_eqb a b.
Definition ckind_eqb (a b:ckind) : bool :=
  match a, b with
  | KUnique, KUnique => true
  | KCheck x, KCheck y => N.eqb x y
  | KFk t c, KFk t' c' => name_eqb t t' && names_eqb c c'
  | KPrimary, KPrimary => true
  | _, _ => false
  end.
Definition con_eqb (a b:con) : bool := name_eqb (k_name a) (k_name b) && ckind_eqb (k_kind a) (k_kind b) && names_eqb (k_cols a) (k_cols b).
Definition where_eqb (a b:option (N * list name)) : bool :=
  match a, b with Some (t, m), Some (t', m') => N.eqb t t' && names_eqb m m' | None, None => true | _, _ => false end.
Definition index_eqb (a b:index) : bool :=
  name_eqb (x_name a) (x_name b) && names_eqb (x_cols a) (x_cols b) && Bool.eqb (x_unique a) (x_unique b) && where_eqb (x_where a) (x_where b).
Definition subsetb {A} (eqb:A -> A -> bool) (a b:list A) : bool := forallb (fun x => existsb (eqb x) b) a.
Definition seteqb {A} (eqb:A -> A -> bool) (a b:list A) : bool := subsetb eqb a b && subsetb eqb b a && Nat.eqb (length a) (length b).
(* same columns in the same order with the same attributes, same PK, same named constraints and indexes (as sets) *)
Definition desc_eqb (a b:ndesc) : bool :=
  list_eqb col_eqb (n_cols a) (n_cols b) && names_eqb (n_pk a) (n_pk b)
  && seteqb con_eqb (n_cons a) (n_cons b) && seteqb index_eqb (n_idx a) (n_idx b).
Definition set_equiv {A} (a b:list A) : Prop := (forall x, In x a <-> In x b) /\ length a = length b.
Definition desc_equiv (a b:ndesc) : Prop :=
  n_cols a = n_cols b /\ n_pk a = n_pk b /\ set_equiv (n_cons a) (n_cons b) /\ set_equiv (n_idx a) (n_idx b).
(* the same up to the mutual order of the columns ADDED by the batch that sit in the same gap: the pre-existing columns are in
   the same order, and every added column (name in `added`) follows the same pre-existing column in both descriptions
   (insert_before / insert_after promise a place relative to the named column; two columns requested for the same gap have
   no documented mutual order) *)
Definition not_in (added:list name) (c:col) : bool := negb (mem_name (c_name c) added).
Fixpoint anchor_from (added:list name) (prev:option name) (l:list col) (n:name) : option (option name) :=
  match l with
  | [] => None
  | c :: r => if name_eqb (c_name c) n then Some prev
              else anchor_from added (if mem_name (c_name c) added then prev else Some (c_name c)) r n
  end.
Definition anchor (added:list name) (l:list col) (n:name) : option (option name) := anchor_from added None l n.
Definition ooname_eqb (a b:option (option name)) : bool :=
  match a, b with Some x, Some y => oname_eqb x y | None, None => true | _, _ => false end.
Definition same_gaps_b (added:list name) (a b:list col) : bool :=
  forallb (fun c => if mem_name (c_name c) added then ooname_eqb (anchor added a (c_name c)) (anchor added b (c_name c)) else true) a.
Definition same_gaps (added:list name) (a b:list col) : Prop :=
  forall c, In c a -> mem_name (c_name c) added = true -> anchor added a (c_name c) = anchor added b (c_name c).
Definition desc_eqb_w (added:list name) (a b:ndesc) : bool :=
  seteqb col_eqb (n_cols a) (n_cols b) && list_eqb col_eqb (filter (not_in added) (n_cols a)) (filter (not_in added) (n_cols b))
  && same_gaps_b added (n_cols a) (n_cols b)
  && names_eqb (n_pk a) (n_pk b) && seteqb con_eqb (n_cons a) (n_cons b) && seteqb index_eqb (n_idx a) (n_idx b).
Definition desc_equiv_w (added:list name) (a b:ndesc) : Prop :=
  set_equiv (n_cols a) (n_cols b) /\ filter (not_in added) (n_cols a) = filter (not_in added) (n_cols b) /\
  same_gaps added (n_cols a) (n_cols b) /\
  n_pk a = n_pk b /\ set_equiv (n_cons a) (n_cons b) /\ set_equiv (n_idx a) (n_idx b).

Definition berr_eqb (a b:berr) : bool :=
  match a, b with
  | EKeyError, EKeyError | EValueError, EValueError | ECircular, ECircular | EDuplicateColumn, EDuplicateColumn
  | EOperationalB, EOperationalB | ECommandB, ECommandB | ENotImplementedB, ENotImplementedB | EFuelB, EFuelB | EOtherB, EOtherB => true
  | _, _ => false
  end.

(* ------------------------------------------------------------------ the model's output *)
Definition model10 (i:input10) : output10 :=
  if j_never i then
    (if never_command_error (j_ops i) then OutErr ECommandB
     else match never_ops (j_ops i) (j_tbl i, map (fun p => (fst p, fst p)) (tb_cols (j_tbl i))) with
          | BErr e => OutErr e
          | BOk (T', orig) =>
              let d := desc_of_tbl T' in let nd := mkDesc (n_cols d) (n_pk d) (n_cons d ++ j_uchecks i) (n_idx d) in
              OutOk nd (copy_rows (cast_of i) (dflt_of i) (j_tbl i) nd (origin_map T' orig) (j_rows i)) false
          end)
  else
  if command_error (j_always i) [] (j_ops i) then OutErr ECommandB
  else if j_always i || requires_recreate (j_ops i) then
    match batch_with sa_tsort (j_partial i) (j_targs i) (grab (j_reflected i) (j_uchecks i) (j_tbl i)) (j_ops i) with
    | BErr e => OutErr e
    | BOk (nd, cm) => OutOk nd (copy_rows (cast_of i) (dflt_of i) (j_tbl i) nd cm (j_rows i)) false
    end
  else
    match direct_ops (j_ops i) (j_tbl i) with
    | BErr e => OutErr e
    | BOk T' => let d := desc_of_tbl T' in let nd := mkDesc (n_cols d) (n_pk d) (n_cons d ++ j_uchecks i) (n_idx d) in
                OutOk nd (copy_rows (cast_of i) (dflt_of i) (j_tbl i) nd (identity_map (j_tbl i)) (j_rows i)) false
    end.
Definition corr_C10 (i:input10) (o:output10) : bool :=
  match model10 i, o with
  | OutErr a, OutErr b => berr_eqb a b
  | OutOk d r t, OutOk d' r' t' => desc_eqb d d' && mseqb r r' && Bool.eqb t t'
  | _, _ => false
  end.

(* ------------------------------------------------------------------ abstract specification: edit *)
(* the obvious meaning of each operation on a table description; columns are referred to by key *)
Definition has_key (k:key) (T:tbl) : bool := is_some (aget k (tb_cols T)).
Definition names_of (T:tbl) : list name := map (fun p => c_name (snd p)) (tb_cols T).
Fixpoint insert_at {V} (pos:nat) (x:V) (l:list V) : list V :=
  match pos, l with
  | O, _ => x :: l
  | S p, y :: r => y :: insert_at p x r
  | S _, [] => [x]
  end.
Definition edit (o:batch_op) (T:tbl) : bres tbl :=
  match o with
  | OAddColumn k c before after =>
      if has_key k T || mem_name (c_name c) (names_of T) || negb (name_eqb k (c_name c)) then BErr EValueError
      else match before, after with
           | None, None => BOk (mkTbl (tb_cols T ++ [(k, c)]) (tb_pk T) (tb_cons T) (tb_idx T))
           | Some b, _ => match index_of b (akeys (tb_cols T)) with
                          | Some p => BOk (mkTbl (insert_at p (k, c) (tb_cols T)) (tb_pk T) (tb_cons T) (tb_idx T))
                          | None => BErr EKeyError end
           | None, Some a => match index_of a (akeys (tb_cols T)) with
                             | Some p => BOk (mkTbl (insert_at (S p) (k, c) (tb_cols T)) (tb_pk T) (tb_cons T) (tb_idx T))
                             | None => BErr EKeyError end
           end
  | ODropColumn k =>
      if negb (has_key k T) then BErr EKeyError
      else if existsb (fun x => mem_name k (x_cols x) || match x_where x with Some (_, ms) => mem_name k ms | None => false end) (tb_idx T)
           then BErr EOperationalB     (* an index still needs it (as a column or in its predicate) *)
      else if existsb (fun c => negb (is_primary c) && mem_name k (k_cols c)) (tb_cons T) then BErr EOperationalB    (* a constraint still needs it *)
      else BOk (mkTbl (adel k (tb_cols T)) (remove_name k (tb_pk T)) (map (pk_drop_col k) (tb_cons T)) (tb_idx T))   (* it leaves the primary key *)
  | OAlterColumn k a =>
      match aget k (tb_cols T) with
      | None => BErr EKeyError
      | Some c =>
          let nm := match al_name a with Some n => n | None => c_name c end in
          if mem_name nm (map (fun p => c_name (snd p)) (adel k (tb_cols T))) then BErr EDuplicateColumn
          else BOk (mkTbl (aset k (mkCol nm (match al_type a with Some t => t | None => c_ty c end)
                                         (match al_nullable a with Some b => b | None => c_nullable c end)
                                         (match al_default a with Some d => d | None => c_default c end)) (tb_cols T))
                          (tb_pk T) (tb_cons T) (tb_idx T))
      end
  | OAddConstraint c =>
      if is_some (con_get (k_name c) (tb_cons T)) || negb (sub_names (k_cols c) (akeys (tb_cols T))) then BErr EValueError
      else BOk (mkTbl (tb_cols T) (tb_pk T) (tb_cons T ++ [c]) (tb_idx T))
  | ODropConstraint n =>
      if is_some (con_get n (tb_cons T)) then BOk (mkTbl (tb_cols T) (tb_pk T) (con_del n (tb_cons T)) (tb_idx T))
      else BErr EValueError
  | OCreateIndex x =>
      if is_some (idx_get (x_name x) (tb_idx T)) || negb (sub_names (x_cols x) (akeys (tb_cols T))) then BErr EValueError
      else BOk (mkTbl (tb_cols T) (tb_pk T) (tb_cons T) (tb_idx T ++ [x]))
  | ODropIndex n =>
      if is_some (idx_get n (tb_idx T)) then BOk (mkTbl (tb_cols T) (tb_pk T) (tb_cons T) (idx_del n (tb_idx T)))
      else BErr EValueError
  end.
Fixpoint edit_all (ops:list batch_op) (T:tbl) : bres tbl :=
  match ops with
  | [] => BOk T
  | o :: r => match edit o T with BOk T' => edit_all r T' | BErr e => BErr e end
  end.
(* a table description as the database shows it: current names everywhere *)
Definition describe (T:tbl) : ndesc :=
  let rn := cur_name (tb_cols T) in
  mkDesc (map snd (tb_cols T)) (map rn (tb_pk T))
         (map (fun c => mkCon (k_name c) (k_kind c) (map rn (k_cols c))) (filter con_visible (tb_cons T)))
         (map (fun x => mkIndex (x_name x) (map rn (x_cols x)) (x_unique x) (x_where x)) (tb_idx T)).

(* the description the SPECIFICATION promises: besides the current names of the constraint's own columns, a self-referential
   foreign key (REFERENCES the table itself) still refers to the same COLUMNS of the table after a rename: its referred
   columns follow renames exactly like its source columns (what SQLite's own ALTER TABLE RENAME COLUMN does, `never_op`) *)
Definition self_fix (rn:key -> name) (c:con) : con :=
  mkCon (k_name c) (match k_kind c with KFk rt rc => if name_eqb rt self_table then KFk rt (map rn rc) else KFk rt rc | kd => kd end) (k_cols c).
Definition describe_s (T:tbl) : ndesc :=
  let d := describe T in mkDesc (n_cols d) (n_pk d) (map (self_fix (cur_name (tb_cols T))) (n_cons d)) (n_idx d).

(* ------------------------------------------------------------------ what the operations mention; where a column ends up *)
Definition op_mentions (o:batch_op) : list name :=
  match o with
  | OAddColumn k c b a => k :: c_name c :: (match b with Some x => [x] | None => [] end) ++ (match a with Some x => [x] | None => [] end)
  | ODropColumn k => [k]
  | OAlterColumn k a => k :: match al_name a with Some n => [n] | None => [] end
  | OAddConstraint c => k_name c :: k_cols c
  | ODropConstraint n => [n]
  | OCreateIndex x => x_name x :: x_cols x
  | ODropIndex n => [n]
  end.
Definition mentioned (ops:list batch_op) : list name := flat_map op_mentions ops.
(* the name under which the data of original column k must be found afterwards; None: the column was dropped *)
Fixpoint final_name (ops:list batch_op) (k:key) (cur:name) : option name :=
  match ops with
  | [] => Some cur
  | ODropColumn k' :: r => if name_eqb k k' then None else final_name r k cur
  | OAlterColumn k' a :: r =>
      if name_eqb k k' then final_name r k (match al_name a with Some n => n | None => cur end) else final_name r k cur
  | _ :: r => final_name r k cur
  end.

(* final names of the columns the batch adds *)
Fixpoint added_names (ops:list batch_op) : list name :=
  match ops with
  | [] => []
  | OAddColumn k c _ _ :: r => (match final_name r k (c_name c) with Some n => [n] | None => [] end) ++ added_names r
  | _ :: r => added_names r
  end.

(* a requested constraint may be missing afterwards only if the batch itself drops it, replaces it, or drops one of its columns *)
Definition is_drop_con (n:name) (o:batch_op) : bool := match o with ODropConstraint m => name_eqb n m | _ => false end.
Definition readds_con (n:name) (o:batch_op) : bool := match o with OAddConstraint c => name_eqb n (k_name c) | _ => false end.
Definition drops_col_of (cs:list name) (o:batch_op) : bool := match o with ODropColumn k => mem_name k cs | _ => false end.
Fixpoint requested_ok_from (all ops:list batch_op) (nd:ndesc) : bool :=
  match ops with
  | [] => true
  | OAddConstraint c :: r =>
      (existsb (is_drop_con (k_name c)) r || existsb (readds_con (k_name c)) r || existsb (drops_col_of (k_cols c)) all
       || mem_name (k_name c) (map k_name (n_cons nd))) && requested_ok_from all r nd
  | _ :: r => requested_ok_from all r nd
  end.

(* an inserted column is on the requested side of the column it names (also when that column was itself added by the batch) *)
Fixpoint col_pos (n:name) (l:list col) : option nat :=
  match l with [] => None | c :: r => if name_eqb (c_name c) n then Some 0%nat else option_map S (col_pos n r) end.
Definition before_b (l:list col) (x y:option name) : bool :=
  match x, y with
  | Some x, Some y => match col_pos x l, col_pos y l with Some i, Some j => Nat.ltb i j | _, _ => true end
  | _, _ => true
  end.
Fixpoint side_ok_from (all ops:list batch_op) (nd:ndesc) : bool :=
  match ops with
  | [] => true
  | OAddColumn k c b a :: r =>
      let z := final_name r k (c_name c) in
      (match b with Some bk => before_b (n_cols nd) z (final_name all bk bk) | None => true end)
      && (match a with Some ak => before_b (n_cols nd) (final_name all ak ak) z | None => true end)
      && side_ok_from all r nd
  | _ :: r => side_ok_from all r nd
  end.

(* partial_reordering: within every tuple the columns come out in the order given *)
Fixpoint consec_ok (ops:list batch_op) (nd:ndesc) (t:list key) : bool :=
  match t with
  | a :: ((b :: _) as r) => before_b (n_cols nd) (final_name ops a a) (final_name ops b b) && consec_ok ops nd r
  | _ => true
  end.
Definition partial_ok (ops:list batch_op) (P:list (list key)) (nd:ndesc) : bool := forallb (consec_ok ops nd) P.
(* table_args: the constraints handed over are in the new table *)
Definition targs_ok (A:list con) (nd:ndesc) : bool := forallb (fun c => existsb (con_eqb c) (n_cons nd)) A.
Definition is_nil {A} (l:list A) : bool := match l with [] => true | _ => false end.
(* with partial_reordering the column order is the caller's business: same columns, PK, constraints, indexes *)
Definition desc_eqb_p (a b:ndesc) : bool :=
  seteqb col_eqb (n_cols a) (n_cols b) && names_eqb (n_pk a) (n_pk b)
  && seteqb con_eqb (n_cons a) (n_cons b) && seteqb index_eqb (n_idx a) (n_idx b).
Definition desc_equiv_p (a b:ndesc) : Prop :=
  set_equiv (n_cols a) (n_cols b) /\ n_pk a = n_pk b /\ set_equiv (n_cons a) (n_cons b) /\ set_equiv (n_idx a) (n_idx b).
Definition with_targs (A:list con) (d:ndesc) : ndesc := mkDesc (n_cols d) (n_pk d) (n_cons d ++ A) (n_idx d).

(* unnamed CHECK constraints reach the new table only when the table was given by copy_from *)
(* (when the batch does not recreate the table at all — recreate='auto' and only ALTER-able operations — nothing is lost) *)
Definition carried (i:input10) : list con :=
  if j_reflected i && negb (j_never i) && (j_always i || requires_recreate (j_ops i)) then [] else j_uchecks i.

Section Holds.
  Variable i : input10.
  Let T := j_tbl i.
  Let ops := j_ops i.

  (* the value a surviving original column must show: unchanged, or SQLite's CAST when the type class changed *)
  Definition expected_val (r:row) (c:col) : val :=
    match find (fun p => match final_name ops (fst p) (c_name (snd p)) with Some n => name_eqb n (c_name c) | None => false end) (tb_cols T) with
    | Some (k, c0) =>
        let v := src_val T r k in
        if N.eqb (affinity (c_ty c0)) (affinity (c_ty c)) then v else cast_of i (c_ty c) v
    | None => dflt_of i c
    end.
  Definition expected_rows (nd:ndesc) : list row := map (fun r => map (expected_val r) (n_cols nd)) (j_rows i).
  (* every surviving original column is there *)
  Definition survivors_present (nd:ndesc) : bool :=
    forallb (fun p => match final_name ops (fst p) (c_name (snd p)) with
                      | Some n => mem_name n (map c_name (n_cols nd)) | None => true end) (tb_cols T).

  Definition untouched_name (n:name) : bool := negb (mem_name n (mentioned ops)).
  Definition untouched_names (l:list name) : bool := forallb untouched_name l.
  Definition untouched_ok (nd:ndesc) : bool :=
    (* untouched columns: same definition, same relative order *)
    (if is_nil (j_partial i)
     then list_eqb col_eqb (filter (fun c => untouched_name (c_name c)) (map snd (tb_cols T)))
                           (filter (fun c => untouched_name (c_name c) && mem_name (c_name c) (names_of T)) (n_cols nd))
     else forallb (fun c => existsb (col_eqb c) (n_cols nd)) (filter (fun c => untouched_name (c_name c)) (map snd (tb_cols T))))
    && (if untouched_names (tb_pk T) then names_eqb (n_pk nd) (tb_pk T) else true)
    && forallb (fun c => if untouched_name (k_name c) && untouched_names (k_cols c) then existsb (con_eqb c) (n_cons nd) else true) (tb_cons T)
    && forallb (fun x => if untouched_name (x_name x) && untouched_names (x_cols x) then existsb (index_eqb x) (n_idx nd) else true) (tb_idx T).

  Definition C10_holds_r (o:output10) : Prop :=
    match o with
    | OutErr _ => True                                   (* not accepted by Alembic: raised loudly *)
    | OutOk nd rows tmp_left =>
        tmp_left = false /\
        length rows = length (j_rows i) /\ survivors_present nd = true /\ mseq rows (expected_rows nd) /\
        untouched_ok nd = true /\ requested_ok_from ops ops nd = true /\
        side_ok_from ops ops nd = true /\
        partial_ok ops (j_partial i) nd = true /\ targs_ok (j_targs i) nd = true /\
        (forall T', edit_all ops T = BOk T' ->
           if is_nil (j_partial i) then desc_equiv_w (added_names ops) nd (with_targs (carried i ++ j_targs i) (describe_s T'))
           else desc_equiv_p nd (with_targs (carried i ++ j_targs i) (describe_s T')))
    end.

  Definition check_C10_r (o:output10) : bool :=
    match o with
    | OutErr _ => true
    | OutOk nd rows tmp_left =>
        negb tmp_left && Nat.eqb (length rows) (length (j_rows i)) && survivors_present nd && mseqb rows (expected_rows nd)
        && untouched_ok nd && requested_ok_from ops ops nd
        && side_ok_from ops ops nd
        && partial_ok ops (j_partial i) nd && targs_ok (j_targs i) nd
        && match edit_all ops T with
           | BOk T' => if is_nil (j_partial i) then desc_eqb_w (added_names ops) nd (with_targs (carried i ++ j_targs i) (describe_s T'))
                       else desc_eqb_p nd (with_targs (carried i ++ j_targs i) (describe_s T'))
           | BErr _ => true end
    end.
  (* the property is about alterations that recreate the table: recreate='never' never does (SQLite's own ALTER TABLE does
     the work, e.g. RENAME COLUMN also rewrites the foreign keys that reference the column) — compared exactly with the
     model, not judged by this property *)
  Definition C10_holds (o:output10) : Prop := if j_never i then True else C10_holds_r o.
  Definition check_C10 (o:output10) : bool := if j_never i then true else check_C10_r o.
End Holds.

(* ------------------------------------------------------------------ the proved class *)
(* operations of the proved class: everything but add_column (its position goes through SQLAlchemy's topological sort) *)
Definition in_class (o:batch_op) : bool :=
  match o with
  | OAddColumn _ _ _ _ => false
  | _ => true
  end.
Definition wf_tbl (T:tbl) : bool :=
  forallb (fun c => sub_names (k_cols c) (akeys (tb_cols T))) (tb_cons T) && sub_names (tb_pk T) (akeys (tb_cols T))
  && negb (has_dup (map k_name (tb_cons T))).
Definition specok (i:input10) : bool := match edit_all (j_ops i) (j_tbl i) with BOk _ => true | BErr _ => false end.

(* ------------------------------------------------------------------ the class of the main theorem *)
(* each column's type is altered at most once (a second conversion would stack a second CAST, and "converted if its type was
   changed" then has no single reading); constraints added by the batch are not primary keys *)
Fixpoint types_once (seen:list key) (ops:list batch_op) : bool :=
  match ops with
  | [] => true
  | OAlterColumn k a :: r =>
      match al_type a with
      | Some _ => negb (mem_name k seen) && types_once (k :: seen) r
      | None => types_once seen r
      end
  | _ :: r => types_once seen r
  end.
Definition in_class2 (o:batch_op) : bool :=
  in_class o && match o with OAddConstraint c => negb (is_primary c) | _ => true end.
(* a reflected table: column keys are the column names, all different; an (unnamed or named) primary key has columns *)
Definition wf_tbl2 (T:tbl) : bool :=
  wf_tbl T && negb (has_dup (akeys (tb_cols T))) && forallb (fun p => name_eqb (c_name (snd p)) (fst p)) (tb_cols T)
  && forallb con_visible (tb_cons T).

(* ---- add_column inside the class.
   edit_app: the same specification except that an added column is APPENDED whatever insert_before / insert_after say.  The
   bookkeeping of ApplyBatchImpl refines it exactly (self.columns is appended to); the column ORDER is then a matter between
   `edit` (immediately before / after the named column) and SQLAlchemy's topological sort over add_col_ordering. *)
Definition edit_app (o:batch_op) (T:tbl) : bres tbl :=
  match o with
  | OAddColumn k c _ _ =>
      if has_key k T || mem_name (c_name c) (names_of T) || negb (name_eqb k (c_name c)) then BErr EValueError
      else BOk (mkTbl (tb_cols T ++ [(k, c)]) (tb_pk T) (tb_cons T) (tb_idx T))
  | _ => edit o T
  end.
Fixpoint edit_app_all (ops:list batch_op) (T:tbl) : bres tbl :=
  match ops with
  | [] => BOk T
  | o :: r => match edit_app o T with BOk T' => edit_app_all r T' | BErr e => BErr e end
  end.
Definition in_class_a (o:batch_op) : bool :=
  match o with
  | OAddColumn _ _ (Some _) (Some _) => false          (* both insert_before and insert_after: `edit` has no single reading *)
  | OAddConstraint c => negb (is_primary c)
  | _ => true
  end.
(* add_column with the default placement (appended): the class of the main theorem *)
Definition in_class_p (o:batch_op) : bool :=
  in_class_a o && match o with OAddColumn _ _ None None => true | OAddColumn _ _ _ _ => false | _ => true end.
Fixpoint added_keys (ops:list batch_op) : list key :=
  match ops with [] => [] | OAddColumn k _ _ _ :: r => k :: added_keys r | _ :: r => added_keys r end.
(* an added column is a new column: its key is none of the table's and no other added column's *)
Definition fresh_adds (T:tbl) (ops:list batch_op) : bool := negb (has_dup (akeys (tb_cols T) ++ added_keys ops)).
(* placement, evaluated along the model's own run:
   - drop_column of a column that add_col_ordering mentions = the registered deviation
     C10-added-column-misplaced-when-neighbour-dropped-later: outside;
   - insert_before / insert_after naming a column that was itself added by the batch: outside (not proved; compared and
     checked by the decider like everything else) *)
Definition order_keys (s:bstate) : list key := flat_map (fun p => [fst p; snd p]) (b_order s).
Fixpoint placement_ok (ops:list batch_op) (s:bstate) : bool :=
  match ops with
  | [] => true
  | o :: r =>
      (match o with
       | OAddColumn _ _ (Some b) None => mem_name b (b_existing s)
       | OAddColumn _ _ None (Some a) => mem_name a (b_existing s)
       | OAddColumn _ _ (Some _) (Some _) => false
       | ODropColumn k => negb (mem_name k (order_keys s))
       | _ => true
       end) && match apply_batch_op o s with BOk s' => placement_ok r s' | BErr _ => true end
  end.
(* no rename of a column that a self-referential foreign key (of the table, or added by the batch) refers to: its complement
   is the registered deviation C10-selfref-fk-target-not-renamed *)
Definition self_targets_con (c:con) : list name :=
  match k_kind c with KFk rt rc => if name_eqb rt self_table then rc else [] | _ => [] end.
Definition self_targets (T:tbl) (ops:list batch_op) : list name :=
  flat_map self_targets_con (tb_cons T) ++ flat_map (fun o => match o with OAddConstraint c => self_targets_con c | _ => [] end) ops.
Definition okop (tg:list name) (o:batch_op) : bool :=
  match o with
  | OAlterColumn k a => match al_name a with Some _ => negb (mem_name k tg) | None => true end
  | OAddConstraint c => forallb (fun r => mem_name r tg) (self_targets_con c)
  | _ => true
  end.
Definition selfref_ok (T:tbl) (ops:list batch_op) : bool := forallb (okop (self_targets T ops)) ops.
Definition inclass_C10_noadd (i:input10) : bool :=
  j_always i && negb (j_never i) && is_nil (j_partial i) && is_nil (j_targs i) && is_nil (j_uchecks i) && wf_tbl2 (j_tbl i) && forallb in_class2 (j_ops i) && types_once [] (j_ops i) && specok i.
Definition inclass_C10_plain (i:input10) : bool :=
  j_always i && negb (j_never i) && is_nil (j_partial i) && is_nil (j_targs i) && is_nil (j_uchecks i) && wf_tbl2 (j_tbl i) && forallb in_class_p (j_ops i) && types_once [] (j_ops i)
  && fresh_adds (j_tbl i) (j_ops i) && placement_ok (j_ops i) (init (j_tbl i)) && specok i.
Definition inclass_C10 (i:input10) : bool :=
  j_always i && negb (j_never i) && is_nil (j_partial i) && is_nil (j_targs i) && is_nil (j_uchecks i) && wf_tbl2 (j_tbl i) && forallb in_class_a (j_ops i) && types_once [] (j_ops i)
  && fresh_adds (j_tbl i) (j_ops i) && placement_ok (j_ops i) (init (j_tbl i)) && selfref_ok (j_tbl i) (j_ops i) && specok i.
