(* C10 — "Batch move-and-copy keeps every row and everything it was not told to change":
   the abstract meaning of a batch operation on a table description (`edit`), the property as a Prop over what is
   observed in the database afterwards, its boolean decider, and the exact model-vs-implementation comparison. *)
From AV Require Export Model.Batch.
From AV Require Import Spec.C11.      (* multisets of rows: count_row, mseq, mseqb *)

(* ------------------------------------------------------------------ inputs and observations *)
Record input10 := mkIn10 {
  j_tbl : tbl; j_rows : list row; j_ops : list batch_op;
  j_cast : list (ty * val * val);           (* oracle: SQLite's CAST(v AS ty) stored in a column of type ty *)
  j_dflt : list (name * val);               (* oracle: what SQLite stores in an added column (its DEFAULT or NULL) *)
  j_always : bool }.                        (* recreate='always' (true) or 'auto' (false) *)
Inductive output10 :=
| OutOk (d:ndesc) (rows:list row) (tmp_left:bool)      (* reflected table, SELECT * (a multiset), any _alembic_tmp_* table left *)
| OutErr (e:berr).

Definition cast_of (i:input10) (t:ty) (v:val) : val :=
  match find (fun e => N.eqb (fst (fst e)) t && val_eqb (snd (fst e)) v) (j_cast i) with
  | Some e => snd e | None => v end.
Definition dflt_of (i:input10) (c:col) : val :=
  match find (fun e => name_eqb (fst e) (c_name c)) (j_dflt i) with Some e => snd e | None => VNull end.

(* ------------------------------------------------------------------ boolean equalities *)
Definition oname_eqb (a b:option name) : bool :=
  match a, b with Some x, Some y => name_eqb x y | None, None => true | _, _ => false end.
Definition col_eqb (a b:col) : bool :=
  name_eqb (c_name a) (c_name b) && N.eqb (c_ty a) (c_ty b) && Bool.eqb (c_nullable a) (c_nullable b)
  && oname_eqb (c_default a) (c_default b).
Definition names_eqb (a b:list name) : bool := list_eqb name_eqb a b.
Definition ckind_eqb (a b:ckind) : bool :=
  match a, b with
  | KUnique, KUnique => true
  | KCheck x, KCheck y => N.eqb x y
  | KFk t c, KFk t' c' => name_eqb t t' && names_eqb c c'
  | KPrimary, KPrimary => true
  | _, _ => false
  end.
Definition con_eqb (a b:con) : bool := name_eqb (k_name a) (k_name b) && ckind_eqb (k_kind a) (k_kind b) && names_eqb (k_cols a) (k_cols b).
Definition index_eqb (a b:index) : bool := name_eqb (x_name a) (x_name b) && names_eqb (x_cols a) (x_cols b) && Bool.eqb (x_unique a) (x_unique b).
Definition subsetb {A} (eqb:A -> A -> bool) (a b:list A) : bool := forallb (fun x => existsb (eqb x) b) a.
Definition seteqb {A} (eqb:A -> A -> bool) (a b:list A) : bool := subsetb eqb a b && subsetb eqb b a && Nat.eqb (length a) (length b).
(* same columns in the same order with the same attributes, same PK, same named constraints and indexes (as sets) *)
Definition desc_eqb (a b:ndesc) : bool :=
  list_eqb col_eqb (n_cols a) (n_cols b) && names_eqb (n_pk a) (n_pk b)
  && seteqb con_eqb (n_cons a) (n_cons b) && seteqb index_eqb (n_idx a) (n_idx b).
Definition set_equiv {A} (a b:list A) : Prop := forall x, In x a <-> In x b.
Definition desc_equiv (a b:ndesc) : Prop :=
  n_cols a = n_cols b /\ n_pk a = n_pk b /\ set_equiv (n_cons a) (n_cons b) /\ set_equiv (n_idx a) (n_idx b).
(* the same up to the mutual order of the columns ADDED by the batch that sit in the same gap: the pre-existing columns are in
   the same order, and every added column (name in `added`) follows the same pre-existing column in both descriptions
   (insert_before / insert_after promise a place relative to the named column; two columns requested for the same gap have
   no documented mutual order) *)
Definition not_in (added:list name) (c:col) : bool := negb (mem_name (c_name c) added).
Fixpoint anchor_from (added:list name) (prev:option name) (l:list col) (n:name) : option (option name) :=
  match l with
  | [] => None
  | c :: r => if name_eqb (c_name c) n then Some prev
              else anchor_from added (if mem_name (c_name c) added then prev else Some (c_name c)) r n
  end.
Definition anchor (added:list name) (l:list col) (n:name) : option (option name) := anchor_from added None l n.
Definition ooname_eqb (a b:option (option name)) : bool :=
  match a, b with Some x, Some y => oname_eqb x y | None, None => true | _, _ => false end.
Definition same_gaps_b (added:list name) (a b:list col) : bool :=
  forallb (fun c => if mem_name (c_name c) added then ooname_eqb (anchor added a (c_name c)) (anchor added b (c_name c)) else true) a.
Definition same_gaps (added:list name) (a b:list col) : Prop :=
  forall c, In c a -> mem_name (c_name c) added = true -> anchor added a (c_name c) = anchor added b (c_name c).
Definition desc_eqb_w (added:list name) (a b:ndesc) : bool :=
  seteqb col_eqb (n_cols a) (n_cols b) && list_eqb col_eqb (filter (not_in added) (n_cols a)) (filter (not_in added) (n_cols b))
  && same_gaps_b added (n_cols a) (n_cols b)
  && names_eqb (n_pk a) (n_pk b) && seteqb con_eqb (n_cons a) (n_cons b) && seteqb index_eqb (n_idx a) (n_idx b).
Definition desc_equiv_w (added:list name) (a b:ndesc) : Prop :=
  set_equiv (n_cols a) (n_cols b) /\ filter (not_in added) (n_cols a) = filter (not_in added) (n_cols b) /\
  same_gaps added (n_cols a) (n_cols b) /\
  n_pk a = n_pk b /\ set_equiv (n_cons a) (n_cons b) /\ set_equiv (n_idx a) (n_idx b).

Definition berr_eqb (a b:berr) : bool :=
  match a, b with
  | EKeyError, EKeyError | EValueError, EValueError | ECircular, ECircular | EDuplicateColumn, EDuplicateColumn
  | EOperationalB, EOperationalB | ECommandB, ECommandB | EFuelB, EFuelB | EOtherB, EOtherB => true
  | _, _ => false
  end.

(* ------------------------------------------------------------------ the model's output *)
Definition model10 (i:input10) : output10 :=
  if command_error (j_always i) [] (j_ops i) then OutErr ECommandB
  else if j_always i || requires_recreate (j_ops i) then
    match batch sa_tsort (j_tbl i) (j_ops i) with
    | BErr e => OutErr e
    | BOk (nd, cm) => OutOk nd (copy_rows (cast_of i) (dflt_of i) (j_tbl i) nd cm (j_rows i)) false
    end
  else
    match direct_ops (j_ops i) (j_tbl i) with
    | BErr e => OutErr e
    | BOk T' => let nd := desc_of_tbl T' in
                OutOk nd (copy_rows (cast_of i) (dflt_of i) (j_tbl i) nd (identity_map (j_tbl i)) (j_rows i)) false
    end.
Definition corr_C10 (i:input10) (o:output10) : bool :=
  match model10 i, o with
  | OutErr a, OutErr b => berr_eqb a b
  | OutOk d r t, OutOk d' r' t' => desc_eqb d d' && mseqb r r' && Bool.eqb t t'
  | _, _ => false
  end.

(* ------------------------------------------------------------------ abstract specification: edit *)
(* the obvious meaning of each operation on a table description; columns are referred to by key *)
Definition has_key (k:key) (T:tbl) : bool := is_some (aget k (tb_cols T)).
Definition names_of (T:tbl) : list name := map (fun p => c_name (snd p)) (tb_cols T).
Fixpoint insert_at {V} (pos:nat) (x:V) (l:list V) : list V :=
  match pos, l with
  | O, _ => x :: l
  | S p, y :: r => y :: insert_at p x r
  | S _, [] => [x]
  end.
Definition edit (o:batch_op) (T:tbl) : bres tbl :=
  match o with
  | OAddColumn k c before after =>
      if has_key k T || mem_name (c_name c) (names_of T) || negb (name_eqb k (c_name c)) then BErr EValueError
      else match before, after with
           | None, None => BOk (mkTbl (tb_cols T ++ [(k, c)]) (tb_pk T) (tb_cons T) (tb_idx T))
           | Some b, _ => match index_of b (akeys (tb_cols T)) with
                          | Some p => BOk (mkTbl (insert_at p (k, c) (tb_cols T)) (tb_pk T) (tb_cons T) (tb_idx T))
                          | None => BErr EKeyError end
           | None, Some a => match index_of a (akeys (tb_cols T)) with
                             | Some p => BOk (mkTbl (insert_at (S p) (k, c) (tb_cols T)) (tb_pk T) (tb_cons T) (tb_idx T))
                             | None => BErr EKeyError end
           end
  | ODropColumn k =>
      if negb (has_key k T) then BErr EKeyError
      else if existsb (fun x => mem_name k (x_cols x)) (tb_idx T) then BErr EOperationalB     (* an index still needs it *)
      else if existsb (fun c => negb (is_primary c) && mem_name k (k_cols c)) (tb_cons T) then BErr EOperationalB    (* a constraint still needs it *)
      else BOk (mkTbl (adel k (tb_cols T)) (remove_name k (tb_pk T)) (map (pk_drop_col k) (tb_cons T)) (tb_idx T))   (* it leaves the primary key *)
  | OAlterColumn k a =>
      match aget k (tb_cols T) with
      | None => BErr EKeyError
      | Some c =>
          let nm := match al_name a with Some n => n | None => c_name c end in
          if mem_name nm (map (fun p => c_name (snd p)) (adel k (tb_cols T))) then BErr EDuplicateColumn
          else BOk (mkTbl (aset k (mkCol nm (match al_type a with Some t => t | None => c_ty c end)
                                         (match al_nullable a with Some b => b | None => c_nullable c end)
                                         (match al_default a with Some d => d | None => c_default c end)) (tb_cols T))
                          (tb_pk T) (tb_cons T) (tb_idx T))
      end
  | OAddConstraint c =>
      if is_some (con_get (k_name c) (tb_cons T)) || negb (sub_names (k_cols c) (akeys (tb_cols T))) then BErr EValueError
      else BOk (mkTbl (tb_cols T) (tb_pk T) (tb_cons T ++ [c]) (tb_idx T))
  | ODropConstraint n =>
      if is_some (con_get n (tb_cons T)) then BOk (mkTbl (tb_cols T) (tb_pk T) (con_del n (tb_cons T)) (tb_idx T))
      else BErr EValueError
  | OCreateIndex x =>
      if is_some (idx_get (x_name x) (tb_idx T)) || negb (sub_names (x_cols x) (akeys (tb_cols T))) then BErr EValueError
      else BOk (mkTbl (tb_cols T) (tb_pk T) (tb_cons T) (tb_idx T ++ [x]))
  | ODropIndex n =>
      if is_some (idx_get n (tb_idx T)) then BOk (mkTbl (tb_cols T) (tb_pk T) (tb_cons T) (idx_del n (tb_idx T)))
      else BErr EValueError
  end.
Fixpoint edit_all (ops:list batch_op) (T:tbl) : bres tbl :=
  match ops with
  | [] => BOk T
  | o :: r => match edit o T with BOk T' => edit_all r T' | BErr e => BErr e end
  end.
(* a table description as the database shows it: current names everywhere *)
Definition describe (T:tbl) : ndesc :=
  let rn := cur_name (tb_cols T) in
  mkDesc (map snd (tb_cols T)) (map rn (tb_pk T))
         (map (fun c => mkCon (k_name c) (k_kind c) (map rn (k_cols c))) (filter con_visible (tb_cons T)))
         (map (fun x => mkIndex (x_name x) (map rn (x_cols x)) (x_unique x)) (tb_idx T)).

(* ------------------------------------------------------------------ what the operations mention; where a column ends up *)
Definition op_mentions (o:batch_op) : list name :=
  match o with
  | OAddColumn k c b a => k :: c_name c :: (match b with Some x => [x] | None => [] end) ++ (match a with Some x => [x] | None => [] end)
  | ODropColumn k => [k]
  | OAlterColumn k a => k :: match al_name a with Some n => [n] | None => [] end
  | OAddConstraint c => k_name c :: k_cols c
  | ODropConstraint n => [n]
  | OCreateIndex x => x_name x :: x_cols x
  | ODropIndex n => [n]
  end.
Definition mentioned (ops:list batch_op) : list name := flat_map op_mentions ops.
(* the name under which the data of original column k must be found afterwards; None: the column was dropped *)
Fixpoint final_name (ops:list batch_op) (k:key) (cur:name) : option name :=
  match ops with
  | [] => Some cur
  | ODropColumn k' :: r => if name_eqb k k' then None else final_name r k cur
  | OAlterColumn k' a :: r =>
      if name_eqb k k' then final_name r k (match al_name a with Some n => n | None => cur end) else final_name r k cur
  | _ :: r => final_name r k cur
  end.

(* final names of the columns the batch adds *)
Fixpoint added_names (ops:list batch_op) : list name :=
  match ops with
  | [] => []
  | OAddColumn k c _ _ :: r => (match final_name r k (c_name c) with Some n => [n] | None => [] end) ++ added_names r
  | _ :: r => added_names r
  end.

(* a requested constraint may be missing afterwards only if the batch itself drops it, replaces it, or drops one of its columns *)
Definition is_drop_con (n:name) (o:batch_op) : bool := match o with ODropConstraint m => name_eqb n m | _ => false end.
Definition readds_con (n:name) (o:batch_op) : bool := match o with OAddConstraint c => name_eqb n (k_name c) | _ => false end.
Definition drops_col_of (cs:list name) (o:batch_op) : bool := match o with ODropColumn k => mem_name k cs | _ => false end.
Fixpoint requested_ok_from (all ops:list batch_op) (nd:ndesc) : bool :=
  match ops with
  | [] => true
  | OAddConstraint c :: r =>
      (existsb (is_drop_con (k_name c)) r || existsb (readds_con (k_name c)) r || existsb (drops_col_of (k_cols c)) all
       || mem_name (k_name c) (map k_name (n_cons nd))) && requested_ok_from all r nd
  | _ :: r => requested_ok_from all r nd
  end.

(* an inserted column is on the requested side of the column it names (also when that column was itself added by the batch) *)
Fixpoint col_pos (n:name) (l:list col) : option nat :=
  match l with [] => None | c :: r => if name_eqb (c_name c) n then Some 0%nat else option_map S (col_pos n r) end.
Definition before_b (l:list col) (x y:option name) : bool :=
  match x, y with
  | Some x, Some y => match col_pos x l, col_pos y l with Some i, Some j => Nat.ltb i j | _, _ => true end
  | _, _ => true
  end.
Fixpoint side_ok_from (all ops:list batch_op) (nd:ndesc) : bool :=
  match ops with
  | [] => true
  | OAddColumn k c b a :: r =>
      let z := final_name r k (c_name c) in
      (match b with Some bk => before_b (n_cols nd) z (final_name all bk bk) | None => true end)
      && (match a with Some ak => before_b (n_cols nd) (final_name all ak ak) z | None => true end)
      && side_ok_from all r nd
  | _ :: r => side_ok_from all r nd
  end.

Section Holds.
  Variable i : input10.
  Let T := j_tbl i.
  Let ops := j_ops i.

  (* the value a surviving original column must show: unchanged, or SQLite's CAST when the type class changed *)
  Definition expected_val (r:row) (c:col) : val :=
    match find (fun p => match final_name ops (fst p) (c_name (snd p)) with Some n => name_eqb n (c_name c) | None => false end) (tb_cols T) with
    | Some (k, c0) =>
        let v := src_val T r k in
        if N.eqb (affinity (c_ty c0)) (affinity (c_ty c)) then v else cast_of i (c_ty c) v
    | None => dflt_of i c
    end.
  Definition expected_rows (nd:ndesc) : list row := map (fun r => map (expected_val r) (n_cols nd)) (j_rows i).
  (* every surviving original column is there *)
  Definition survivors_present (nd:ndesc) : bool :=
    forallb (fun p => match final_name ops (fst p) (c_name (snd p)) with
                      | Some n => mem_name n (map c_name (n_cols nd)) | None => true end) (tb_cols T).

  Definition untouched_name (n:name) : bool := negb (mem_name n (mentioned ops)).
  Definition untouched_names (l:list name) : bool := forallb untouched_name l.
  Definition untouched_ok (nd:ndesc) : bool :=
    (* untouched columns: same definition, same relative order *)
    list_eqb col_eqb (filter (fun c => untouched_name (c_name c)) (map snd (tb_cols T)))
                     (filter (fun c => untouched_name (c_name c) && mem_name (c_name c) (names_of T)) (n_cols nd))
    && (if untouched_names (tb_pk T) then names_eqb (n_pk nd) (tb_pk T) else true)
    && forallb (fun c => if untouched_name (k_name c) && untouched_names (k_cols c) then existsb (con_eqb c) (n_cons nd) else true) (tb_cons T)
    && forallb (fun x => if untouched_name (x_name x) && untouched_names (x_cols x) then existsb (index_eqb x) (n_idx nd) else true) (tb_idx T).

  Definition C10_holds (o:output10) : Prop :=
    match o with
    | OutErr _ => True                                   (* not accepted by Alembic: raised loudly *)
    | OutOk nd rows tmp_left =>
        tmp_left = false /\
        length rows = length (j_rows i) /\ survivors_present nd = true /\ mseq rows (expected_rows nd) /\
        untouched_ok nd = true /\ requested_ok_from ops ops nd = true /\
        side_ok_from ops ops nd = true /\
        (forall T', edit_all ops T = BOk T' -> desc_equiv_w (added_names ops) nd (describe T'))
    end.

  Definition check_C10 (o:output10) : bool :=
    match o with
    | OutErr _ => true
    | OutOk nd rows tmp_left =>
        negb tmp_left && Nat.eqb (length rows) (length (j_rows i)) && survivors_present nd && mseqb rows (expected_rows nd)
        && untouched_ok nd && requested_ok_from ops ops nd
        && side_ok_from ops ops nd
        && match edit_all ops T with BOk T' => desc_eqb_w (added_names ops) nd (describe T') | BErr _ => true end
    end.
End Holds.

(* ------------------------------------------------------------------ the proved class *)
(* operations of the proved class: everything but add_column (its position goes through SQLAlchemy's topological sort) *)
Definition in_class (o:batch_op) : bool :=
  match o with
  | OAddColumn _ _ _ _ => false
  | _ => true
  end.
Definition wf_tbl (T:tbl) : bool :=
  forallb (fun c => sub_names (k_cols c) (akeys (tb_cols T))) (tb_cons T) && sub_names (tb_pk T) (akeys (tb_cols T))
  && negb (has_dup (map k_name (tb_cons T))).
Definition specok (i:input10) : bool := match edit_all (j_ops i) (j_tbl i) with BOk _ => true | BErr _ => false end.

(* ------------------------------------------------------------------ the class of the main theorem *)
(* each column's type is altered at most once (a second conversion would stack a second CAST, and "converted if its type was
   changed" then has no single reading); constraints added by the batch are not primary keys *)
Fixpoint types_once (seen:list key) (ops:list batch_op) : bool :=
  match ops with
  | [] => true
  | OAlterColumn k a :: r =>
      match al_type a with
      | Some _ => negb (mem_name k seen) && types_once (k :: seen) r
      | None => types_once seen r
      end
  | _ :: r => types_once seen r
  end.
Definition in_class2 (o:batch_op) : bool :=
  in_class o && match o with OAddConstraint c => negb (is_primary c) | _ => true end.
(* a reflected table: column keys are the column names, all different; an (unnamed or named) primary key has columns *)
Definition wf_tbl2 (T:tbl) : bool :=
  wf_tbl T && negb (has_dup (akeys (tb_cols T))) && forallb (fun p => name_eqb (c_name (snd p)) (fst p)) (tb_cols T)
  && forallb con_visible (tb_cons T).
Definition inclass_C10 (i:input10) : bool :=
  j_always i && wf_tbl2 (j_tbl i) && forallb in_class2 (j_ops i) && types_once [] (j_ops i) && specok i.
