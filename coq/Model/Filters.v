(* C20: the comparison of Model/Diff.v with the user filters of AutogenContext.run_object_filters
   (include_object) and run_name_filters (include_name) called at exactly the call sites of
   alembic/autogenerate/compare.py, for arbitrary predicates; and the trace of filter invocations.
   No proofs here. *)
From AV Require Export Model.Diff.

(* what include_object is shown: the object itself (name and type_ are functions of it) *)
Inductive obj := OTable (t:table) | OColumn (tn:N) (c:col) | OCons (tn:N) (k:cons) | OFk (tn:N) (f:fk) | OUUq (tn:N) (u:uuq).
(* what include_name is shown: (name, type_, parent_names); also used to name an object *)
Inductive nref := NSchema | NTable (t:N) | NColumn (t c:N) | NUq (t n:N) | NIx (t n:N) | NFk (t n:N)
                | NFkU (t:N)
                | NSchemaN (s:N)
                | NUqU (t:N). (* an ATTACHed database seen as a schema with include_schemas=True; NSchema is the default schema (name None) *)     (* an unnamed foreign key of table t: name None, type_ foreign_key_constraint, parent table t *)

Definition kref (tn:N) (k:cons) : nref := if is_ix k then NIx tn (k_name k) else NUq tn (k_name k).
(* tables of ATTACHed databases: the table code carries the schema, 100*s + local name (s = 0: the default schema).  Tables of
   different schemas are simply different tables for the comparison; only the name filters see the schema. *)
Definition schema_of (t:N) : N := t / 100.
Definition schema_ref (t:N) : nref := if N.eqb (schema_of t) 0 then NSchema else NSchemaN (schema_of t).
Definition fkref (tn:N) (f:fk) : nref := if f_named f then NFk tn (f_name f) else NFkU tn.
(* metadata_fks_by_name / conn_fks_by_name: only named keys are indexed; an unnamed key finds nothing *)
Definition fk_by_name (f:fk) (fs:list fk) : option fk :=
  if f_named f then kfind f_name (f_name f) (filter f_named fs) else None.
Definition obj_ref (o:obj) : nref :=
  match o with OTable t => NTable (t_name t) | OColumn tn c => NColumn tn (c_name c) | OCons tn k => kref tn k
             | OFk tn f => fkref tn f | OUUq tn _ => NUqU tn end.

(* what the harness reads off the object a filter is handed, to pin that the real object (not a stub) is passed:
   a table: its column names in order, then the number of its indexes and of its foreign keys;
   a column: type family, nullability; an index / unique constraint: its columns; a foreign key: columns, referred table, referred columns *)
Definition obj_digest (o:obj) : list N :=
  match o with
  | OTable t => keys c_name (t_cols t) ++ [N.of_nat (length (filter is_ix (t_cons t))); N.of_nat (length (t_fks t))]
  | OColumn _ c => [ty_fam (c_ty c); (if c_null c then 1 else 0)%N]
  | OCons _ k => k_cols k
  | OFk _ f => f_cols f ++ f_rtable f :: f_rcols f
  | OUUq _ u => u_cols u
  end.
(* one filter invocation, as the harness can observe it: include_name(name,type_,parents) or
   include_object(object, name, type_, reflected, compare_to) reduced to (type_+names, reflected, compare_to is not None,
   digest of the object, digest of compare_to) *)
Inductive tcall := TN (r:nref) | TO (r:nref) (reflected:bool) (has_compare_to:bool) (dig cdig:list N).
Definition has_cmp (c:option obj) : bool := match c with Some _ => true | None => false end.

Section Filters.
  Variable io : obj -> bool -> option obj -> bool.     (* include_object(object, reflected, compare_to) *)
  Variable iname : nref -> bool.                        (* include_name *)

  (* reflected names that survive run_name_filters *)
  Definition fcols (tn:N) (cs:list col) : list col := filter (fun c => iname (NColumn tn (c_name c))) cs.
  Definition fcons (tn:N) (ks:list cons) : list cons := filter (fun k => iname (kref tn k)) ks.
  (* unnamed reflected unique constraints all show the name filter the same thing: (None, "unique_constraint", table) *)
  Definition fuuqs (tn:N) (us:list uuq) : list uuq := filter (fun _ => iname (NUqU tn)) us.
  Definition conn_uq_sigs_f (tn:N) (c:table) : list (list N) :=
    map k_cols (filter is_uq (fcons tn (t_cons c))) ++ map u_cols (fuuqs tn (t_uuqs c)).
  Definition ftables (conn:schema) : schema :=
    (* _produce_net_changes keeps the schemas include_name accepts, _autogen_for_tables the table names it accepts within them *)
    filter (fun c => iname (schema_ref (t_name c)) && iname (NTable (t_name c))) conn.

  (* ------------------------------------------------------------ _compare_columns *)
  Definition compare_columns_pre_f (g:cfg) (tn:N) (conn meta:table) : list op :=
    let ccols := fcols tn (t_cols conn) in
    flat_map (fun mc => if memN (c_name mc) (keys c_name ccols) then []
                        else if io (OColumn tn mc) false None then [OpAddColumn tn mc] else []) (t_cols meta)
    ++ flat_map (fun mc => match kfind c_name (c_name mc) ccols with
                           | Some cc => if io (OColumn tn mc) false (Some (OColumn tn cc)) then alter_column g tn cc mc else []
                           | None => []
                           end) (t_cols meta).
  Definition compare_columns_post_f (tn:N) (conn meta:table) : list op :=
    flat_map (fun cc => if memN (c_name cc) (keys c_name (t_cols meta)) then []
                        else if io (OColumn tn cc) true None then [OpDropColumn tn (c_name cc)] else []) (fcols tn (t_cols conn)).

  (* ------------------------------------------------------------ _compare_indexes_and_uniques *)
  Definition obj_added_f (tn:N) (supports_uq create_or_drop:bool) (k:cons) : list op :=
    match k with
    | Ix _ _ _ => if io (OCons tn k) false None then [OpAddCons tn k] else []
    | Uq _ _ => if negb supports_uq then [] else if create_or_drop then []
                else if io (OCons tn k) false None then [OpAddCons tn k] else []
    end.
  Definition obj_removed_f (tn:N) (supports_uq create_or_drop:bool) (k:cons) : list op :=
    match k with
    | Ix n _ u => if u && negb supports_uq then [] else if io (OCons tn k) true None then [OpDropCons tn true n] else []
    | Uq n _ => if create_or_drop then [] else if io (OCons tn k) true None then [OpDropCons tn false n] else []
    end.
  Definition obj_changed_f (tn:N) (old new:cons) : list op :=
    if io (OCons tn new) false (Some (OCons tn old)) then [OpDropCons tn (is_ix old) (k_name old); OpAddCons tn new] else [].

  Definition conn_cons_f (tn:N) (conn_table metadata_table:option table) : list cons :=
    match conn_table with
    | Some c => let fk := fcons tn (t_cons c) in                      (* name filters run on uniques and indexes ... *)
                match metadata_table with None => filter is_ix fk | Some _ => fk end   (* ... before DROP TABLE discards the uniques *)
    | None => []
    end.
  Definition compare_indexes_and_uniques_f (tn:N) (conn_table metadata_table:option table) : list op :=
    let is_create_table := match conn_table with None => true | Some _ => false end in
    let is_drop_table := match metadata_table with None => true | Some _ => false end in
    let cod := is_create_table || is_drop_table in
    let metadata_cons := match metadata_table with Some m => t_cons m | None => [] end in
    let unnamed_metadata_uniques := match metadata_table with Some m => t_uuqs m | None => [] end in
    let supports_unique_constraints := negb is_create_table in
    let conn_cons := conn_cons_f tn conn_table metadata_table in
    flat_map (fun ck => if memN (k_name ck) (keys k_name metadata_cons) then []
                        else if is_uq ck && existsb (fun u => permb (k_cols ck) (u_cols u)) unnamed_metadata_uniques then []
                        else obj_removed_f tn supports_unique_constraints cod ck) conn_cons
    ++ flat_map (fun mk => match kfind k_name (k_name mk) conn_cons with
                           | Some ck => if negb (Bool.eqb (is_ix ck) (is_ix mk))
                                        then obj_removed_f tn supports_unique_constraints cod ck
                                             ++ obj_added_f tn supports_unique_constraints cod mk
                                        else if sig_equal mk ck then [] else obj_changed_f tn ck mk
                           | None => []
                           end) metadata_cons
    ++ flat_map (fun mk => if memN (k_name mk) (keys k_name conn_cons) then []
                           else obj_added_f tn supports_unique_constraints cod mk) metadata_cons
    ++ match conn_table, metadata_table with
       | Some c, Some m => flat_map (fun u => if existsb (permb (u_cols u)) (conn_uq_sigs_f tn c) then []
                                              else if io (OUUq tn u) false None then [OpAddUUq tn u] else []) (t_uuqs m)
       | _, _ => []
       end.

  (* ------------------------------------------------------------ _compare_foreign_keys *)
  Definition ffks (tn:N) (fs:list fk) : list fk := filter (fun f => iname (fkref tn f)) fs.
  Definition compare_foreign_keys_f (tn:N) (conn_table metadata_table:option table) : list op :=
    match conn_table, metadata_table with
    | Some c, Some m =>
        let conn_fks := ffks tn (t_fks c) in
        (* _remove_fk(const, compare_to = the metadata key of the same name, if any) *)
        flat_map (fun cf => if existsb (fk_sig_eqb cf) (t_fks m) then []
                            else if io (OFk tn cf) true (option_map (OFk tn) (fk_by_name cf (t_fks m)))
                                 then [OpDropFk tn (f_name cf) (f_named cf)] else []) conn_fks
        (* _add_fk(const, compare_to = the reflected key of the same name, if any) *)
        ++ flat_map (fun mf => if existsb (fk_sig_eqb mf) conn_fks then []
                               else if io (OFk tn mf) false (option_map (OFk tn) (fk_by_name mf conn_fks))
                                    then [OpAddFk tn mf] else []) (t_fks m)
    | _, _ => []
    end.

  (* ------------------------------------------------------------ _compare_tables *)
  Definition added_table_f (m:table) : list op :=
    OpCreateTable (create_table_of m) :: compare_indexes_and_uniques_f (t_name m) None (Some m).
  Definition removed_table_f (c:table) : list op :=
    compare_indexes_and_uniques_f (t_name c) (Some c) None ++ [OpDropTable (t_name c)].
  Definition existing_table_f (g:cfg) (c m:table) : list op :=
    compare_columns_pre_f g (t_name m) c m
    ++ compare_indexes_and_uniques_f (t_name m) (Some c) (Some m)
    ++ compare_foreign_keys_f (t_name m) (Some c) (Some m)
    ++ compare_columns_post_f (t_name m) c m.

  Definition compare_tables_f (g:cfg) (conn meta:schema) : list op :=
    let conn := ftables conn in
    flat_map (fun m => if memN (t_name m) (keys t_name conn) then []
                       else if io (OTable m) false None then added_table_f m else []) meta
    ++ flat_map (fun c => if memN (t_name c) (keys t_name meta) then []
                          else if io (OTable c) true None then removed_table_f c else []) conn
    ++ flat_map (fun m => match kfind t_name (t_name m) conn with
                          | Some c => if io (OTable m) false (Some (OTable c)) then existing_table_f g c m else []
                          | None => []
                          end) meta.

  Definition diff_f (g:cfg) (conn meta:schema) : list op := compare_tables_f g conn meta.

  (* the database with every object removed whose reflected name include_name rejects: "treated as absent" *)
  Definition prune_table (c:table) : table :=
    mkTable (t_name c) (fcols (t_name c) (t_cols c)) (fcons (t_name c) (t_cons c)) (ffks (t_name c) (t_fks c)) (fuuqs (t_name c) (t_uuqs c)).
  Definition prune (conn:schema) : schema := map prune_table (ftables conn).

  (* ============================================================ the filter invocations, same skeleton *)
  Definition tO (o:obj) (r:bool) (c:option obj) : tcall :=
    TO (obj_ref o) r (has_cmp c) (obj_digest o) (match c with Some x => obj_digest x | None => [] end).

  Definition calls_columns_pre (tn:N) (conn meta:table) : list tcall :=
    let ccols := fcols tn (t_cols conn) in
    map (fun c => TN (NColumn tn (c_name c))) (t_cols conn)
    ++ flat_map (fun mc => if memN (c_name mc) (keys c_name ccols) then [] else [tO (OColumn tn mc) false None]) (t_cols meta)
    ++ flat_map (fun mc => match kfind c_name (c_name mc) ccols with
                           | Some cc => [tO (OColumn tn mc) false (Some (OColumn tn cc))]
                           | None => [] end) (t_cols meta).
  Definition calls_columns_post (tn:N) (conn meta:table) : list tcall :=
    flat_map (fun cc => if memN (c_name cc) (keys c_name (t_cols meta)) then [] else [tO (OColumn tn cc) true None]) (fcols tn (t_cols conn)).

  Definition calls_added (tn:N) (supports_uq create_or_drop:bool) (k:cons) : list tcall :=
    match k with
    | Ix _ _ _ => [tO (OCons tn k) false None]
    | Uq _ _ => if negb supports_uq then [] else if create_or_drop then [] else [tO (OCons tn k) false None]
    end.
  Definition calls_removed (tn:N) (supports_uq create_or_drop:bool) (k:cons) : list tcall :=
    match k with
    | Ix _ _ u => if u && negb supports_uq then [] else [tO (OCons tn k) true None]
    | Uq _ _ => if create_or_drop then [] else [tO (OCons tn k) true None]
    end.
  Definition calls_ciu (tn:N) (conn_table metadata_table:option table) : list tcall :=
    let is_create_table := match conn_table with None => true | Some _ => false end in
    let is_drop_table := match metadata_table with None => true | Some _ => false end in
    let cod := is_create_table || is_drop_table in
    let metadata_cons := match metadata_table with Some m => t_cons m | None => [] end in
    let unnamed_metadata_uniques := match metadata_table with Some m => t_uuqs m | None => [] end in
    let sup := negb is_create_table in
    let conn_cons := conn_cons_f tn conn_table metadata_table in
    match conn_table with Some c => map (fun k => TN (kref tn k)) (t_cons c) ++ map (fun _ => TN (NUqU tn)) (t_uuqs c) | None => [] end
    ++ match conn_table, metadata_table with
       | Some c, Some m => flat_map (fun u => if existsb (permb (u_cols u)) (conn_uq_sigs_f tn c) then [] else [tO (OUUq tn u) false None]) (t_uuqs m)
       | _, _ => []
       end
    ++ flat_map (fun ck => if memN (k_name ck) (keys k_name metadata_cons) then []
                           else if is_uq ck && existsb (fun u => permb (k_cols ck) (u_cols u)) unnamed_metadata_uniques then []
                           else calls_removed tn sup cod ck) conn_cons
    ++ flat_map (fun mk => match kfind k_name (k_name mk) conn_cons with
                           | Some ck => if negb (Bool.eqb (is_ix ck) (is_ix mk))
                                        then calls_removed tn sup cod ck ++ calls_added tn sup cod mk
                                        else if sig_equal mk ck then [] else [tO (OCons tn mk) false (Some (OCons tn ck))]
                           | None => [] end) metadata_cons
    ++ flat_map (fun mk => if memN (k_name mk) (keys k_name conn_cons) then [] else calls_added tn sup cod mk) metadata_cons.

  Definition calls_fks (tn:N) (c m:table) : list tcall :=
    let conn_fks := ffks tn (t_fks c) in
    map (fun f => TN (fkref tn f)) (t_fks c)
    ++ flat_map (fun cf => if existsb (fk_sig_eqb cf) (t_fks m) then []
                           else [tO (OFk tn cf) true (option_map (OFk tn) (fk_by_name cf (t_fks m)))]) conn_fks
    ++ flat_map (fun mf => if existsb (fk_sig_eqb mf) conn_fks then []
                           else [tO (OFk tn mf) false (option_map (OFk tn) (fk_by_name mf conn_fks))]) (t_fks m).

  (* attached: the schemas inspector.get_schema_names() reports besides the default one *)
  Definition calls_f (attached:list N) (conn0 meta:schema) : list tcall :=
    let conn := ftables conn0 in
    TN NSchema :: map (fun s => TN (NSchemaN s)) attached
    ++ map (fun c => TN (NTable (t_name c))) (filter (fun c => iname (schema_ref (t_name c))) conn0)
    ++ flat_map (fun m => if memN (t_name m) (keys t_name conn) then []
                          else tO (OTable m) false None ::
                               (if io (OTable m) false None then calls_ciu (t_name m) None (Some m) else [])) meta
    ++ flat_map (fun c => if memN (t_name c) (keys t_name meta) then []
                          else tO (OTable c) true None ::
                               (if io (OTable c) true None then calls_ciu (t_name c) (Some c) None else [])) conn
    ++ flat_map (fun m => match kfind t_name (t_name m) conn with
                          | Some c => tO (OTable m) false (Some (OTable c)) ::
                                      (if io (OTable m) false (Some (OTable c))
                                       then calls_columns_pre (t_name m) c m ++ calls_ciu (t_name m) (Some c) (Some m)
                                            ++ calls_fks (t_name m) c m ++ calls_columns_post (t_name m) c m
                                       else [])
                          | None => [] end) meta.
End Filters.
