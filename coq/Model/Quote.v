(* C14 — identifier quoting and a dialect-parametric SQL lexer.

   Model of (a) SQLAlchemy's IdentifierPreparer.quote / _requires_quotes / quote_identifier /
   _escape_identifier for the five dialects (outside alembic: modelled, compared with the real
   `dialect.identifier_preparer.quote` on every run, listed in TRUSTED), (b) alembic.ddl.base
   quote_dotted / format_table_name / format_column_name, alembic.ddl.mssql._sql_literal,
   (c) DefaultImpl._exec's as_sql post-processing `.replace("\t", "    ").strip()`,
   (d) a total one-character-at-a-time lexer (Normal / word / quoted identifier / string literal states).

   Strings are lists of code points.  No proofs here. *)
From Coq Require Import List NArith Bool Arith Lia String Ascii.
From AV Require Import Base.ListSet.
Import ListNotations.
Open Scope N_scope.

Definition str := list N.

Fixpoint s2l (s : string) : str :=
  match s with EmptyString => [] | String a r => N_of_ascii a :: s2l r end.

Definition str_eqb (a b : str) : bool := list_eqb N.eqb a b.
Definition mem_str (s : str) (l : list str) : bool := existsb (str_eqb s) l.

(* ------------------------------------------------------------------ dialect parameters *)

Inductive dialect := Sqlite | Postgresql | Mysql | Mssql | Oracle | Mariadb.

Record qspec := mkQ {
  q_open : N;                   (* IdentifierPreparer.initial_quote *)
  q_close : N;                  (* final_quote; a doubled final quote is the escape *)
  q_dblpct : bool;              (* IdentifierPreparer._double_percents (paramstyle format/pyformat) *)
  q_reserved : list str;        (* reserved_words *)
  q_illegal_initial : list N;   (* illegal_initial_characters *)
  q_bslash : bool               (* lexer only: backslash escapes inside '...' (MySQL default sql_mode) *)
}.

(* legal_characters = re.compile(r"^[A-Z0-9_$]+$", re.I) — the same for the five dialects.
   With re.I on str patterns the class also matches U+0130, U+0131, U+017F, U+212A. *)
Definition is_upper_ascii (c:N) : bool := (65 <=? c) && (c <=? 90).
Definition is_lower_ascii (c:N) : bool := (97 <=? c) && (c <=? 122).
Definition is_digit (c:N) : bool := (48 <=? c) && (c <=? 57).
(* code point classes are closed intervals, so that they can be compared as a whole with what Python says *)
Definition in_ranges (c:N) (rs:list (N * N)) : bool := existsb (fun r => (fst r <=? c) && (c <=? snd r)) rs.
Definition legal_ranges : list (N * N) :=
  [(36, 36); (48, 57); (65, 90); (95, 95); (97, 122); (304, 305); (383, 383); (8490, 8490)].
Definition legal (c:N) : bool := in_ranges c legal_ranges.

(* str.lower() restricted to what decides _requires_quotes: on strings of legal characters
   lower() changes exactly A-Z, U+0130 and U+212A *)
Definition lower_c (c:N) : N := if is_upper_ascii c then c + 32 else c.
Definition lower (s:str) : str := map lower_c s.
Definition lower_changing_ranges : list (N * N) := [(65, 90); (304, 304); (8490, 8490)].
Definition changes_under_lower (c:N) : bool := in_ranges c lower_changing_ranges.

(* `^[A-Z0-9_$]+$`.match(s): `$` also matches before one trailing newline *)
Fixpoint all_legal_nl (s:str) : bool :=
  match s with
  | [] => true
  | [c] => legal c || (c =? 10)
  | c :: r => legal c && all_legal_nl r
  end.
Definition legal_match (s:str) : bool :=
  match s with
  | [] => false
  | c :: _ => legal c && all_legal_nl s
  end.

(* _requires_quotes; None = IndexError (value[0] on the empty string) *)
Definition requires_quotes (q:qspec) (s:str) : option bool :=
  match s with
  | [] => None
  | c :: _ => Some (mem_str (lower s) (q_reserved q)
                    || memN c (q_illegal_initial q)
                    || negb (legal_match s)
                    || existsb changes_under_lower s)
  end.

(* _escape_identifier *)
Definition esc_char (q:qspec) (c:N) : str :=
  if c =? q_close q then [c; c]
  else if q_dblpct q && (c =? 37) then [37; 37]
  else [c].
Definition escape_identifier (q:qspec) (s:str) : str := flat_map (esc_char q) s.
Definition quote_identifier (q:qspec) (s:str) : str := q_open q :: escape_identifier q s ++ [q_close q].

(* IdentifierPreparer.quote for a plain str (no quoted_name.quote flag) *)
Definition quote (q:qspec) (s:str) : option str :=
  match requires_quotes q s with
  | None => None
  | Some true => Some (quote_identifier q s)
  | Some false => Some s
  end.

(* a name is a plain str or a sqlalchemy.sql.elements.quoted_name carrying quote=None / True / False *)
Inductive qflag := Plain | QNone | QTrue | QFalse.

(* IdentifierPreparer.quote(ident): force = getattr(ident, "quote", None) *)
Definition quote_f (q:qspec) (f:qflag) (s:str) : option str :=
  match f with
  | QTrue => Some (quote_identifier q s)       (* forced: always quoted, even the empty string *)
  | QFalse => Some s                           (* forced: never quoted *)
  | Plain | QNone => quote q s
  end.

(* ------------------------------------------------------------------ alembic.ddl.base helpers *)

(* str.split(".") *)
Fixpoint split_dot_acc (acc:str) (s:str) : list str :=
  match s with
  | [] => [rev acc]
  | c :: r => if c =? 46 then rev acc :: split_dot_acc [] r else split_dot_acc (c :: acc) r
  end.
Definition split_dot (s:str) : list str := split_dot_acc [] s.

Fixpoint join_dot (l:list str) : str :=
  match l with
  | [] => []
  | [a] => a
  | a :: r => a ++ 46 :: join_dot r
  end.

Fixpoint map_opt {A B} (f:A -> option B) (l:list A) : option (list B) :=
  match l with
  | [] => Some []
  | a :: r => match f a, map_opt f r with
              | Some b, Some r' => Some (b :: r')
              | _, _ => None
              end
  end.

(* quote_dotted(name, quote): a quoted_name is not split *)
Definition quote_dotted (q:qspec) (f:qflag) (s:str) : option str :=
  match f with
  | Plain => match map_opt (quote q) (split_dot s) with
             | Some parts => Some (join_dot parts)
             | None => None
             end
  | _ => quote_f q f s
  end.

(* `if schema:` — None and "" are both "no schema" *)
Definition schema_given (schema : option str) : option str :=
  match schema with
  | Some (c :: r) => Some (c :: r)
  | _ => None
  end.

(* format_table_name(compiler, name, schema) *)
Definition format_table_name (q:qspec) (fn:qflag) (name:str) (fs:qflag) (schema:option str) : option str :=
  match schema_given schema with
  | Some sc => match quote_dotted q fs sc, quote_f q fn name with
               | Some a, Some b => Some (a ++ 46 :: b)
               | _, _ => None
               end
  | None => quote_f q fn name
  end.

(* format_column_name *)
Definition format_column_name (q:qspec) (f:qflag) (name:str) : option str := quote_f q f name.

(* SQLAlchemy's IdentifierPreparer.format_table(table): quote(name), prefixed by quote_schema(schema) + "." —
   the schema is ONE identifier here, never split at dots (used by alembic's MySQL DROP CHECK visitor) *)
Definition format_table_sa (q:qspec) (fn:qflag) (name:str) (fs:qflag) (schema:option str) : option str :=
  match quote_f q fn name, schema_given schema with
  | Some b, Some sc => match quote_f q fs sc with Some a => Some (a ++ 46 :: b) | None => None end
  | Some b, None => Some b
  | None, _ => None
  end.

(* alembic.ddl.mssql._sql_literal: str(value).replace("'", "''") *)
Definition sql_literal (s:str) : str := flat_map (fun c => if c =? 39 then [39; 39] else [c]) s.
Definition sql_string_literal (s:str) : str := 39 :: sql_literal s ++ [39].

(* ------------------------------------------------------------------ DefaultImpl._exec, as_sql branch *)

Definition replace_tab (s:str) : str := flat_map (fun c => if c =? 9 then [32;32;32;32] else [c]) s.

(* str.isspace() code points (str.strip() without argument) *)
Definition space_ranges : list (N * N) :=
  [(9, 13); (28, 32); (133, 133); (160, 160); (5760, 5760); (8192, 8202); (8232, 8233); (8239, 8239); (8287, 8287);
   (12288, 12288)].
Definition py_space (c:N) : bool := in_ranges c space_ranges.

Fixpoint lstrip (s:str) : str :=
  match s with
  | c :: r => if py_space c then lstrip r else s
  | [] => []
  end.
Definition strip (s:str) : str := rev (lstrip (rev (lstrip s))).

(* ------------------------------------------------------------------ lexer *)

Inductive token :=
| Word (w:str)          (* maximal run of legal identifier characters: keyword, bare identifier or number *)
| QIdent (s:str)        (* quoted identifier, unescaped content *)
| SLit (s:str)          (* '...' string literal, unescaped content *)
| Punct (c:N)
| Unterminated.         (* input ended inside a quoted identifier or a string literal *)

Inductive lstate :=
| LNormal
| LWord (acc:str)           (* accumulators are reversed *)
| LQuoted (acc:str)
| LQuotedClose (acc:str)    (* just read a closing quote inside a quoted identifier *)
| LString (acc:str)
| LStringClose (acc:str)    (* just read a ' inside a string literal *)
| LStringBs (acc:str).      (* just read a backslash inside a string literal (q_bslash) *)

(* ASCII white space separates tokens *)
Definition is_ws (c:N) : bool := ((9 <=? c) && (c <=? 13)) || (c =? 32).

Definition step_normal (q:qspec) (c:N) : list token * lstate :=
  if c =? q_open q then ([], LQuoted [])
  else if c =? 39 then ([], LString [])
  else if legal c then ([], LWord [c])
  else if is_ws c then ([], LNormal)
  else ([Punct c], LNormal).

Definition emit (o:list token) (r : list token * lstate) : list token * lstate := (o ++ fst r, snd r).

Definition step (q:qspec) (st:lstate) (c:N) : list token * lstate :=
  match st with
  | LNormal => step_normal q c
  | LWord a => if legal c then ([], LWord (c :: a)) else emit [Word (rev a)] (step_normal q c)
  | LQuoted a => if c =? q_close q then ([], LQuotedClose a) else ([], LQuoted (c :: a))
  | LQuotedClose a => if c =? q_close q then ([], LQuoted (c :: a)) else emit [QIdent (rev a)] (step_normal q c)
  | LString a => if c =? 39 then ([], LStringClose a)
                 else if q_bslash q && (c =? 92) then ([], LStringBs a)
                 else ([], LString (c :: a))
  | LStringClose a => if c =? 39 then ([], LString (c :: a)) else emit [SLit (rev a)] (step_normal q c)
  | LStringBs a => ([], LString (c :: a))
  end.

Fixpoint run_st (q:qspec) (st:lstate) (s:str) : list token * lstate :=
  match s with
  | [] => ([], st)
  | c :: r => let '(o, st') := step q st c in emit o (run_st q st' r)
  end.

Definition finish (st:lstate) : list token :=
  match st with
  | LNormal => []
  | LWord a => [Word (rev a)]
  | LQuotedClose a => [QIdent (rev a)]
  | LStringClose a => [SLit (rev a)]
  | LQuoted _ | LString _ | LStringBs _ => [Unterminated]
  end.

Definition lex_from (q:qspec) (st:lstate) (s:str) : list token :=
  let '(o, st') := run_st q st s in o ++ finish st'.
Definition lex (q:qspec) (s:str) : list token := lex_from q LNormal s.

(* the token an identifier is expected to come back as *)
Definition ident_token (q:qspec) (s:str) : token :=
  match requires_quotes q s with
  | Some false => Word s
  | _ => QIdent s
  end.

Definition token_eqb (a b : token) : bool :=
  match a, b with
  | Word x, Word y | QIdent x, QIdent y | SLit x, SLit y => str_eqb x y
  | Punct x, Punct y => x =? y
  | Unterminated, Unterminated => true
  | _, _ => false
  end.
Definition tokens_eqb (a b : list token) : bool := list_eqb token_eqb a b.
