(* RevisionMap._revision_map as far as C15 is concerned: Revision.__init__ self-loop
   checks, heads/bases/_real_heads/_real_bases, and _detect_cycles (the two
   reachability checks followed by the elimination loop).  No proofs here. *)
From AV Require Export Model.RevGraph.

Inductive load_err := ELoop | EDepLoop | ECycle | EDepCycle | EFuel | EOther.   (* EOther: only the implementation side (an unexpected exception class) *)
Record loaded := mkLoaded { l_heads : list N; l_bases : list N; l_real_heads : list N; l_real_bases : list N }.
Inductive load_res := Loaded (l:loaded) | LoadErr (e:load_err).

(* Revision.__init__: `revision in down_revision` -> LoopDetected, elif in dependencies -> DependencyLoopDetected;
   the generator constructs the revisions in load order, the first offender raises *)
Fixpoint self_loop (G:graph) : option load_err :=
  match G with
  | [] => None
  | r :: G' => if memN (r_id r) (r_down r) then Some ELoop
               else if memN (r_id r) (r_deps r) then Some EDepLoop
               else self_loop G'
  end.

Definition heads_of (G:graph) : list N := map r_id (filter (fun r => match nextrev G (r_id r) with [] => true | _ => false end) G).
Definition real_heads_of (G:graph) : list N := map r_id (filter (fun r => match all_nextrev G (r_id r) with [] => true | _ => false end) G).
Definition bases_of (G:graph) : list N := map r_id (filter (fun r => match r_down r with [] => true | _ => false end) G).
Definition real_bases_of (G:graph) : list N :=
  map r_id (filter (fun r => match r_down r, r_deps r with [], [] => true | _, _ => false end) G).

(* the elimination loop appended to _detect_cycles:
     remaining = {rev: {d for d in fn(rev) if d in rev_map}}
     while True: free = [r | not downs]; if not free: break; delete free; subtract free from every downs *)
Definition kahn_init (f : revision -> list N) (G:graph) : list (N * list N) :=
  map (fun r => (r_id r, filter (fun d => memN d (ids G)) (f r))) G.
Definition kahn_round (rem : list (N * list N)) : list N * list (N * list N) :=
  let free := map fst (filter (fun e => match snd e with [] => true | _ => false end) rem) in
  (free, map (fun e => (fst e, diffN (snd e) free)) (filter (fun e => negb (memN (fst e) free)) rem)).
Fixpoint kahn_loop (fuel:nat) (rem : list (N * list N)) : option (list (N * list N)) :=
  match fuel with
  | O => None
  | S f => match kahn_round rem with
           | ([], _) => Some rem
           | (_, rem') => kahn_loop f rem'
           end
  end.
Definition kahn (f : revision -> list N) (G:graph) : option (list N) :=
  option_map (map fst) (kahn_loop (S (length G)) (kahn_init f G)).

Definition covers (G:graph) (a b : list N) : bool := subsetN (ids G) (interN a b).

(* one reachability stage of _detect_cycles: `if not heads or not bases: raise`, then
   total_space = reach(down, heads) & reach(nextrev, bases); `if set(rev_map) - total_space: raise` *)
Definition reach_check (G:graph) (dn up : N -> list N) (hs bs : list N) (e:load_err) : option load_err :=
  match hs, bs with
  | [], _ => Some e
  | _, [] => Some e
  | _, _ => match reach_set dn G hs, reach_set up G bs with
            | Some a, Some b => if covers G a b then None else Some e
            | _, _ => Some EFuel
            end
  end.
Definition kahn_check (f : revision -> list N) (G:graph) (e:load_err) : option load_err :=
  match kahn f G with
  | None => Some EFuel
  | Some [] => None
  | Some (_ :: _) => Some e
  end.
Definition first_err (a b : option load_err) : option load_err := match a with Some e => Some e | None => b end.

Definition detect_cycles (G:graph) : option load_err :=
  match G with
  | [] => None
  | _ =>
    first_err (reach_check G (down G) (nextrev G) (heads_of G) (bases_of G) ECycle)
   (first_err (reach_check G (all_down G) (all_nextrev G) (real_heads_of G) (real_bases_of G) EDepCycle)
   (first_err (kahn_check r_down G ECycle) (kahn_check all_down_r G EDepCycle)))
  end.

Definition load (G:graph) : load_res :=
  match self_loop G with
  | Some e => LoadErr e
  | None =>
    match detect_cycles G with
    | Some e => LoadErr e
    | None => Loaded (mkLoaded (heads_of G) (bases_of G) (real_heads_of G) (real_bases_of G))
    end
  end.

Definition is_cycle_err (r:load_res) : bool :=
  match r with LoadErr (ELoop | EDepLoop | ECycle | EDepCycle) => true | _ => false end.

(* ---- depends_on as written: a revision id or a branch label (RevisionMap._map_branch_labels puts the
   labels into the map as extra keys, _add_depends_on resolves every dependency through the map) ---- *)
Definition rawdep : Type := (bool * N)%type.                 (* (true, l) = branch label l ; (false, x) = revision id x *)
Definition rawgraph : Type := list (revision * list rawdep).  (* r_deps of the revisions is ignored *)
Definition label_owner (G:graph) (l:N) : option N :=
  match filter (fun r => memN l (r_labels r)) G with r :: _ => Some (r_id r) | [] => None end.
Definition resolve_dep (G:graph) (d:rawdep) : list N :=
  let '(is_label, x) := d in if is_label then match label_owner G x with Some o => [o] | None => [] end else [x].
Definition resolve_graph (R:rawgraph) : graph :=
  let G0 := map fst R in
  map (fun rd => let '(r, raw) := rd in mkRev (r_id r) (r_down r) (flat_map (resolve_dep G0) raw) (r_ndeps r) (r_labels r)) R.
(* Revision.__init__ compares the revision id with the dependencies AS WRITTEN, so only an id-valued
   self dependency raises DependencyLoopDetected there; a revision depending on its own label is only
   found by _detect_cycles *)
Definition id_graph (R:rawgraph) : graph :=
  map (fun rd => let '(r, raw) := rd in
         mkRev (r_id r) (r_down r) (flat_map (fun d : rawdep => if fst d then [] else [snd d]) raw) (r_ndeps r) (r_labels r)) R.
Definition load_raw (R:rawgraph) : load_res :=
  let G := resolve_graph R in
  match self_loop (id_graph R) with
  | Some e => LoadErr e
  | None =>
    match detect_cycles G with
    | Some e => LoadErr e
    | None => Loaded (mkLoaded (heads_of G) (bases_of G) (real_heads_of G) (real_bases_of G))
    end
  end.
