(* Shared core of C08 and C17: Python's str.__repr__ (Objects/unicodeobject.c, unicode_repr) and the
   Python lexer restricted to the token classes the renderers emit (names, punctuation, decimal integers,
   single-line literals in single or double quotes).  Strings are lists of code points.  No proofs here. *)
From AV Require Export Base.ListSet.

Definition str := list N.
Definition str_eqb (a b : str) : bool := list_eqb N.eqb a b.

(* ---------------------------------------------------------------- characters *)
Definition c_bs : N := 92.   (* \ *)
Definition c_sq : N := 39.   (* ' *)
Definition c_dq : N := 34.   (* double quote *)
Definition max_cp : N := 1114111.   (* 0x10FFFF *)
Definition valid_str (s:str) : Prop := Forall (fun c => (c <= max_cp)%N) s.
Definition valid_strb (s:str) : bool := forallb (fun c => (c <=? max_cp)%N) s.

Definition hexdigit (d:N) : N := if (d <? 10)%N then (48 + d)%N else (87 + d)%N.     (* Py_hexdigits: lowercase *)
Fixpoint hexn (k:nat) (c:N) : list N :=
  match k with O => [] | S k' => hexn k' (c / 16)%N ++ [hexdigit (c mod 16)%N] end.
Definition hexval (c:N) : option N :=
  if ((48 <=? c) && (c <=? 57))%N then Some (c - 48)%N
  else if ((97 <=? c) && (c <=? 102))%N then Some (c - 87)%N
  else if ((65 <=? c) && (c <=? 70))%N then Some (c - 55)%N
  else None.

(* ---------------------------------------------------------------- str.__repr__ *)
Section Repr.
  Variable printable : N -> bool.      (* Py_UNICODE_ISPRINTABLE; consulted for code points >= 0x7f only *)

  (* the per-character switch of unicode_repr's output loop *)
  Definition escape_char (q c : N) : list N :=
    if ((c =? q) || (c =? c_bs))%N then [c_bs; c]
    else if (c =? 9)%N then [c_bs; 116%N]
    else if (c =? 10)%N then [c_bs; 110%N]
    else if (c =? 13)%N then [c_bs; 114%N]
    else if ((c <? 32) || (c =? 127))%N then c_bs :: 120%N :: hexn 2 c
    else if (c <? 127)%N then [c]
    else if printable c then [c]
    else if (c <? 256)%N then c_bs :: 120%N :: hexn 2 c
    else if (c <? 65536)%N then c_bs :: 117%N :: hexn 4 c
    else c_bs :: 85%N :: hexn 8 c.

  (* quote is the single quote; if the string has single quotes: if it also has double quotes they get escaped,
     otherwise the double quote is used *)
  Definition choose_quote (s:str) : N := if memN c_sq s && negb (memN c_dq s) then c_dq else c_sq.

  Definition py_repr (s:str) : str :=
    let q := choose_quote s in q :: flat_map (escape_char q) s ++ [q].

  (* text pasted between single quote characters, as the format '%s' does *)
  Definition raw_quote (s:str) : str := c_sq :: s ++ [c_sq].
End Repr.

(* ---------------------------------------------------------------- the lexer *)
Inductive pytoken := Name (s:str) | Punct (c:N) | StrTok (s:str) | NumTok (digits:str).
Inductive lexerr := EUnterminated | EBadEscape | EBadChar | EUnsupported.

Definition is_digit (c:N) : bool := ((48 <=? c) && (c <=? 57))%N.
Definition is_ident_start (c:N) : bool :=
  (((65 <=? c) && (c <=? 90)) || ((97 <=? c) && (c <=? 122)) || (c =? 95))%N.
Definition is_ident_char (c:N) : bool := is_ident_start c || is_digit c.
Definition is_space (c:N) : bool := ((c =? 32) || (c =? 10) || (c =? 13) || (c =? 9))%N.
Definition is_quote (c:N) : bool := ((c =? c_sq) || (c =? c_dq))%N.
(* ( ) [ ] , = . - * : { }  — what the renderers and SQLAlchemy reprs use *)
Definition is_punct (c:N) : bool :=
  existsb (N.eqb c) [40;41;91;93;44;61;46;45;42;58;123;125;43]%N.
Definition is_octal (c:N) : bool := ((48 <=? c) && (c <=? 55))%N.

(* string prefixes r u b f rb br ... (case-insensitive): a name directly followed by a quote *)
Definition lower (c:N) : N := if ((65 <=? c) && (c <=? 90))%N then (c + 32)%N else c.
Definition is_str_prefix (name_rev : str) : bool :=
  let n := map lower name_rev in
  existsb (str_eqb n) [[114]; [117]; [98]; [102]; [114;98]; [98;114]; [114;102]; [102;114]]%N.

Inductive lstate :=
| LIdle
| LClosedEmpty (q:N)                    (* just closed an empty literal: a third quote would open a triple-quoted one *)
| LName (acc:str)                        (* reversed *)
| LNum (acc:str)                         (* reversed digits *)
| LStr (q:N) (acc:str)                   (* inside a literal, decoded characters reversed *)
| LEsc (q:N) (acc:str)                   (* after a backslash *)
| LHex (q:N) (acc:str) (k:nat) (v:N)     (* k hex digits still expected *)
| LOct (q:N) (acc:str) (k:nat) (v:N)     (* up to k further octal digits *)
| LErr (e:lexerr).

Definition lx := (lstate * list pytoken)%type.     (* tokens reversed *)

Definition idle_step (out:list pytoken) (c:N) : lx :=
  if is_space c then (LIdle, out)
  else if is_ident_start c then (LName [c], out)
  else if is_digit c then (LNum [c], out)
  else if is_quote c then (LStr c [], out)
  else if is_punct c then (LIdle, Punct c :: out)
  else (LErr EBadChar, out).

Definition str_step (q:N) (acc:str) (out:list pytoken) (c:N) : lx :=
  if (c =? q)%N then
    match acc with
    | [] => (LClosedEmpty q, StrTok [] :: out)
    | _ => (LIdle, StrTok (rev acc) :: out)
    end
  else if (c =? c_bs)%N then (LEsc q acc, out)
  else if ((c =? 10) || (c =? 13) || (c =? 0))%N then (LErr EUnterminated, out)
  else (LStr q (c :: acc), out).

Definition lex_step (s:lx) (c:N) : lx :=
  let (st, out) := s in
  match st with
  | LErr _ => s
  | LIdle => idle_step out c
  | LClosedEmpty q => if (c =? q)%N then (LErr EUnsupported, out) else idle_step out c
  | LName acc =>
      if is_ident_char c then (LName (c :: acc), out)
      else if is_quote c && is_str_prefix acc then (LErr EUnsupported, out)
      else idle_step (Name (rev acc) :: out) c
  | LNum acc =>
      if is_digit c then
        (if str_eqb acc [48%N] then (LErr EUnsupported, out) else (LNum (c :: acc), out))       (* leading zero *)
      else if is_ident_start c || (c =? 46)%N then (LErr EUnsupported, out)                 (* 1.5  1e3  0x1  1_0 *)
      else idle_step (NumTok (rev acc) :: out) c
  | LStr q acc => str_step q acc out c
  | LEsc q acc =>
      if (c =? c_bs)%N then (LStr q (c_bs :: acc), out)
      else if (c =? c_sq)%N then (LStr q (c_sq :: acc), out)
      else if (c =? c_dq)%N then (LStr q (c_dq :: acc), out)
      else if (c =? 110)%N then (LStr q (10%N :: acc), out)
      else if (c =? 114)%N then (LStr q (13%N :: acc), out)
      else if (c =? 116)%N then (LStr q (9%N :: acc), out)
      else if (c =? 97)%N then (LStr q (7%N :: acc), out)
      else if (c =? 98)%N then (LStr q (8%N :: acc), out)
      else if (c =? 102)%N then (LStr q (12%N :: acc), out)
      else if (c =? 118)%N then (LStr q (11%N :: acc), out)
      else if (c =? 120)%N then (LHex q acc 2 0%N, out)
      else if (c =? 117)%N then (LHex q acc 4 0%N, out)
      else if (c =? 85)%N then (LHex q acc 8 0%N, out)
      else if (c =? 10)%N then (LStr q acc, out)                       (* backslash-newline: continuation *)
      else if is_octal c then (LOct q acc 2 (c - 48)%N, out)
      else if (c =? 78)%N then (LErr EUnsupported, out)                 (* \N{...} *)
      else if ((c =? 13) || (c =? 0))%N then (LErr EUnterminated, out)
      else (LStr q (c :: c_bs :: acc), out)                             (* unknown escape: kept verbatim *)
  | LHex q acc k v =>
      match hexval c with
      | None => (LErr EBadEscape, out)
      | Some d =>
          let v' := (16 * v + d)%N in
          match k with
          | O | S O => if (v' <=? max_cp)%N then (LStr q (v' :: acc), out) else (LErr EBadEscape, out)
          | S k' => (LHex q acc k' v', out)
          end
      end
  | LOct q acc k v =>
      if is_octal c then
        let v' := (8 * v + (c - 48))%N in
        match k with
        | O | S O => (LStr q (v' :: acc), out)
        | S k' => (LOct q acc k' v', out)
        end
      else str_step q (v :: acc) out c
  end.

Inductive res (A:Type) := Ok (a:A) | Err (e:lexerr).
Arguments Ok {A} a.
Arguments Err {A} e.

Definition lex_finish (s:lx) : res (list pytoken) :=
  let (st, out) := s in
  match st with
  | LIdle | LClosedEmpty _ => Ok (rev out)
  | LName acc => Ok (rev (Name (rev acc) :: out))
  | LNum acc => Ok (rev (NumTok (rev acc) :: out))
  | LStr _ _ | LEsc _ _ | LHex _ _ _ _ | LOct _ _ _ _ => Err EUnterminated
  | LErr e => Err e
  end.

Definition lex_run (s:lx) (input:str) : lx := fold_left lex_step input s.
Definition py_lex (input:str) : res (list pytoken) := lex_finish (lex_run (LIdle, []) input).

(* ---------------------------------------------------------------- boolean equalities for the harness *)
Definition pytoken_eqb (a b : pytoken) : bool :=
  match a, b with
  | Name x, Name y | StrTok x, StrTok y | NumTok x, NumTok y => str_eqb x y
  | Punct x, Punct y => N.eqb x y
  | _, _ => false
  end.
Definition lexres_eqb (a b : res (list pytoken)) : bool :=
  match a, b with
  | Ok x, Ok y => list_eqb pytoken_eqb x y
  | Err _, Err _ => true          (* the class of a lexer error is not compared: CPython reports SyntaxError for all *)
  | _, _ => false
  end.

(* the printability oracle as a finite table: the harness lists the non-printable code points of the input *)
Definition printable_of (nonprintable : list N) (c:N) : bool := negb (memN c nonprintable).
