(* C14 — alembic's own @compiles visitors (alembic/ddl/base.py, mysql.py, mssql.py, oracle.py,
   postgresql.py, sqlite.py) transcribed as lists of pieces, and `render`.

   A piece is a literal text of alembic's own (Kw), a call of format_table_name (Tbl) or
   format_column_name (Col), a '...' literal assembled from inner pieces each of which is or is not passed
   through _sql_literal (StrLit), a raw name pasted into the statement (RawName — none left after the
   "fix:" commits), a text produced by SQLAlchemy (type / default / comment literal / column specification
   after the column name: Opaque, taken from the implementation), or a raise (Fail).
   Pieces are evaluated left to right like the Python format arguments, so the first error wins. *)
From Coq Require Import List NArith Bool Arith Lia String Ascii.
From AV Require Import Base.ListSet Model.Quote Model.C14Reserved.
Import ListNotations.
Open Scope N_scope.

Inductive c14_err := EIndex | ENotImplemented | ECompile | EAssert | ECommand | EOther.

Inductive res (A:Type) := ROk (a:A) | RErr (e:c14_err).
Arguments ROk {A} a.
Arguments RErr {A} e.

Inductive nslot := NTable | NNewTable | NColumn | NNewColumn.

(* which of the names are quoted_name objects, and with which quote flag *)
Record flags := mkFlags { f_schema : qflag; f_table : qflag; f_newtable : qflag; f_column : qflag; f_newcolumn : qflag }.
Definition no_flags : flags := mkFlags Plain Plain Plain Plain Plain.

Record env := mkEnv {
  e_schema : option str;
  e_table : str;
  e_newtable : str;
  e_column : str;             (* the column — or, for DROP CHECK, the constraint — name *)
  e_newcolumn : str;
  e_opq : list str;           (* opaque texts produced by SQLAlchemy, by position *)
  e_flags : flags
}.

Definition slot (e:env) (n:nslot) : str :=
  match n with
  | NTable => e_table e | NNewTable => e_newtable e | NColumn => e_column e | NNewColumn => e_newcolumn e
  end.
Definition flag (e:env) (n:nslot) : qflag :=
  match n with
  | NTable => f_table (e_flags e) | NNewTable => f_newtable (e_flags e)
  | NColumn => f_column (e_flags e) | NNewColumn => f_newcolumn (e_flags e)
  end.
Definition sflag (e:env) : qflag := f_schema (e_flags e).
Definition opq (e:env) (i:nat) : str := nth i (e_opq e) [].
Definition schema_if (e:env) (b:bool) : option str := if b then e_schema e else None.

Inductive ipiece :=
| IKw (t:str)
| ITbl (n:nslot) (sch:bool)
| ICol (n:nslot)
| IRaw (n:nslot)
| IRawSchemaDot.              (* schema + "." if schema else "" *)

Inductive piece :=
| Kw (t:str)
| Tbl (n:nslot) (sch:bool)    (* format_table_name(compiler, <n>, element.schema if sch else None) *)
| TblSA (n:nslot)             (* compiler.preparer.format_table(table): SQLAlchemy's, the schema is one identifier *)
| Col (n:nslot)               (* format_column_name(compiler, <n>) / preparer.quote(<n>) *)
| StrLit (ps : list (bool * ipiece))   (* '...' ; the bool says: wrapped in _sql_literal *)
| RawName (n:nslot)
| Opaque (i:nat)
| Fail (e:c14_err).

Definition schema_dot (e:env) : str :=
  match schema_given (e_schema e) with Some s => s ++ [46] | None => [] end.

Definition render_ipiece (q:qspec) (e:env) (p:ipiece) : option str :=
  match p with
  | IKw t => Some t
  | ITbl n sch => format_table_name q (flag e n) (slot e n) (sflag e) (schema_if e sch)
  | ICol n => format_column_name q (flag e n) (slot e n)
  | IRaw n => Some (slot e n)
  | IRawSchemaDot => Some (schema_dot e)
  end.

Definition render_inner (q:qspec) (e:env) (ip : bool * ipiece) : option str :=
  match render_ipiece q e (snd ip) with
  | Some t => Some (if fst ip then sql_literal t else t)
  | None => None
  end.

Definition of_opt (o:option str) : res str := match o with Some s => ROk s | None => RErr EIndex end.

Definition render_piece (q:qspec) (e:env) (p:piece) : res str :=
  match p with
  | Kw t => ROk t
  | Tbl n sch => of_opt (format_table_name q (flag e n) (slot e n) (sflag e) (schema_if e sch))
  | TblSA n => of_opt (format_table_sa q (flag e n) (slot e n) (sflag e) (e_schema e))
  | Col n => of_opt (format_column_name q (flag e n) (slot e n))
  | StrLit ps => match map_opt (render_inner q e) ps with
                 | Some l => ROk (39 :: concat l ++ [39])
                 | None => RErr EIndex
                 end
  | RawName n => ROk (slot e n)
  | Opaque i => ROk (opq e i)
  | Fail x => RErr x
  end.

Fixpoint render (q:qspec) (e:env) (v:list piece) : res str :=
  match v with
  | [] => ROk []
  | p :: r => match render_piece q e p with
              | RErr x => RErr x
              | ROk t => match render q e r with
                         | RErr x => RErr x
                         | ROk t' => ROk (t ++ t')
                         end
              end
  end.

(* ------------------------------------------------------------------ constructs *)

(* SQLAlchemy constructs the operations hand to _exec for comments (impl.create_table_comment & co) *)
Inductive fkind := FSetTableComment | FDropTableComment | FSetColumnComment.

Inductive construct :=
| CRenameTable
| CAddColumn (has_const:bool)
| CDropColumn
| CColumnNullable (nullable:bool)
| CColumnType
| CColumnName
| CColumnDefault (has_default:bool)
| CComputedDefault
| CIdentityDrop                       (* IdentityColumnDefault, default is None *)
| CIdentityAdd                        (* ... default given, existing_server_default is None *)
| CIdentityAlter (steps:list (option bool))
     (* ... both given: one entry per attribute of sorted(diff): Some b = "always" (identity.always = b), None = an option *)
| CMysqlDropCheck                     (* schema.DropConstraint(CheckConstraint) through mysql._mysql_drop_constraint *)
| CMysqlDropGeneric                   (* schema.DropConstraint(<a bare Constraint>) : NotImplementedError *)
| CPgExclude (has_where:bool)
     (* AddConstraint(ExcludeConstraint) built by postgresql.CreateExcludeConstraintOp.to_constraint, one (column, operator)
        element: NColumn is the constraint name, NNewColumn the element's column *)
| CForeign (k:fkind)                  (* a construct compiled entirely by SQLAlchemy: its text is one opaque token *)
| CColumnComment (has_comment:bool)
| CPgColumnType (has_using:bool)
| CMysqlAlterDefault (has_default:bool)
| CMysqlModify (nullable autoinc has_default has_comment : bool)
| CMysqlChange (nullable autoinc has_default has_comment : bool)
| CMssqlDropConstraint
| CMssqlDropFK.

Definition K (s:string) : piece := Kw (s2l s).
Definition IK (s:string) : bool * ipiece := (false, IKw (s2l s)).
Definition nl : str := [10].
Definition S (s:string) : string := s.
Definition Knl (l : list string) : piece :=    (* lines joined by "\n" *)
  Kw (fold_right (fun s acc => match acc with [] => s2l s | _ => s2l s ++ nl ++ acc end) [] l).


Definition alter_table : list piece := [K "ALTER TABLE "; Tbl NTable true].      (* base.alter_table *)
Definition unsupported : list piece := [Fail ECompile].                            (* no @compiles for this dialect *)

(* alembic/ddl/base.py *)
Definition base_rename_table := alter_table ++ [K " RENAME TO "; Tbl NNewTable true].
Definition base_add_column (has_const:bool) :=
  alter_table ++ [K " "; K "ADD COLUMN "; Col NColumn; K " "; Opaque 0]
  ++ (if has_const then [K " "; Opaque 1] else []).
Definition base_drop_column := alter_table ++ [K " "; K "DROP COLUMN "; Col NColumn].
Definition base_column_nullable (nullable:bool) :=
  alter_table ++ [K " "; K "ALTER COLUMN "; Col NColumn; K " "; K (if nullable then "DROP NOT NULL" else "SET NOT NULL")].
Definition base_column_type := alter_table ++ [K " "; K "ALTER COLUMN "; Col NColumn; K " "; K "TYPE "; Opaque 0].
Definition base_column_name := alter_table ++ [K " RENAME "; Col NColumn; K " TO "; Col NNewColumn].
Definition base_column_default (has_default:bool) :=
  alter_table ++ [K " "; K "ALTER COLUMN "; Col NColumn; K " "]
  ++ (if has_default then [K "SET DEFAULT "; Opaque 0] else [K "DROP DEFAULT"]).

(* sqlite.py / postgresql.py / oracle.py visit_rename_table: new name without the schema *)
Definition noschema_rename_table := alter_table ++ [K " RENAME TO "; Tbl NNewTable false].
(* sqlite.py, oracle.py visit_column_name *)
Definition rename_column_kw := alter_table ++ [K " RENAME COLUMN "; Col NColumn; K " TO "; Col NNewColumn].

(* postgresql.py *)
Definition pg_column_type (has_using:bool) :=
  alter_table ++ [K " "; K "ALTER COLUMN "; Col NColumn; K " "; K "TYPE "; Opaque 0; K " "]
  ++ (if has_using then [K "USING "; Opaque 1] else []).
Definition comment_on_column (tail : list piece) :=
  [K "COMMENT ON COLUMN "; Tbl NTable true; K "."; Col NColumn; K " IS "] ++ tail.
Definition pg_column_comment (has_comment:bool) := comment_on_column (if has_comment then [Opaque 0] else [K "NULL"]).
Definition pg_identity_drop := alter_table ++ [K " "; K "ALTER COLUMN "; Col NColumn; K " "; K "DROP IDENTITY"].
Definition pg_identity_add := alter_table ++ [K " "; K "ALTER COLUMN "; Col NColumn; K " "; K "ADD "; Opaque 0].
(* for attr in sorted(diff): "SET GENERATED %s " / "SET %s " % compiler.get_identity_options(<Identity with that attr>) *)
Fixpoint pg_identity_steps (i:nat) (l:list (option bool)) : list piece :=
  match l with
  | [] => []
  | Some b :: r => K (if b then "SET GENERATED ALWAYS " else "SET GENERATED BY DEFAULT ") :: pg_identity_steps i r
  | None :: r => K "SET " :: Opaque i :: K " " :: pg_identity_steps (Datatypes.S i) r
  end.
Definition pg_identity_alter (l:list (option bool)) :=
  alter_table ++ [K " "; K "ALTER COLUMN "; Col NColumn; K " "] ++ pg_identity_steps 0 l.

(* ALTER TABLE <format_table> ADD CONSTRAINT <name> EXCLUDE USING <using> (<col> WITH <op>) [WHERE (<where>)] *)
Definition pg_exclude (has_where:bool) :=
  [K "ALTER TABLE "; TblSA NTable; K " ADD CONSTRAINT "; Col NColumn; K " EXCLUDE USING "; Opaque 0; K " (";
   Col NNewColumn; K " WITH "; Opaque 1; K ")"]
  ++ (if has_where then [K " WHERE ("; Opaque 2; K ")"] else []).

(* oracle.py *)
Definition ora_add_column := alter_table ++ [K " "; K "ADD "; Col NColumn; K " "; Opaque 0].
Definition ora_column_nullable (nullable:bool) :=
  alter_table ++ [K " "; K "MODIFY "; Col NColumn; K " "; K (if nullable then "NULL" else "NOT NULL")].
Definition ora_column_type := alter_table ++ [K " "; K "MODIFY "; Col NColumn; K " "; Opaque 0].
Definition ora_column_default (has_default:bool) :=
  alter_table ++ [K " "; K "MODIFY "; Col NColumn; K " "]
  ++ (if has_default then [K "DEFAULT "; Opaque 0] else [K "DEFAULT NULL"]).
Definition ora_column_comment := comment_on_column [Opaque 0].       (* comment None is rendered as the literal of "" *)
Definition ora_identity_drop := alter_table ++ [K " "; K "MODIFY "; Col NColumn; K " "; K "DROP IDENTITY"].
Definition ora_identity_set := alter_table ++ [K " "; K "MODIFY "; Col NColumn; K " "; Opaque 0].

(* mysql.py *)
Definition mysql_individual : list piece := [Fail ENotImplemented].
Definition mysql_alter_default (has_default:bool) :=
  alter_table ++ [K " ALTER COLUMN "; Col NColumn; K " "]
  ++ (if has_default then [K "SET DEFAULT "; Opaque 0] else [K "DROP DEFAULT"]).
Definition mysql_colspec (nullable autoinc has_default has_comment : bool) : list piece :=
  [Opaque 0; K " "; K (if nullable then "NULL" else "NOT NULL")]
  ++ (if autoinc then [K " AUTO_INCREMENT"] else [])
  ++ (if has_default then [K " DEFAULT "; Opaque 1] else [])
  ++ (if has_comment then [K " COMMENT "; Opaque 2] else []).
Definition mysql_modify (n a d c : bool) :=
  alter_table ++ [K " MODIFY "; Col NColumn; K " "] ++ mysql_colspec n a d c.
Definition mysql_change (n a d c : bool) :=
  alter_table ++ [K " CHANGE "; Col NColumn; K " "; Col NNewColumn; K " "] ++ mysql_colspec n a d c.

(* _mysql_drop_constraint, CheckConstraint branch; NColumn is the constraint name (preparer.format_constraint) *)
Definition mysql_drop_check (mariadb:bool) :=
  [K "ALTER TABLE "; TblSA NTable; K (if mariadb then " DROP CONSTRAINT " else " DROP CHECK "); Col NColumn].

(* mssql.py *)
Definition mssql_add_column := alter_table ++ [K " "; K "ADD "; Col NColumn; K " "; Opaque 0].
Definition mssql_column_nullable (nullable:bool) :=
  alter_table ++ [K " "; K "ALTER COLUMN "; Col NColumn; K " "; Opaque 0; K " "; K (if nullable then "NULL" else "NOT NULL")].
Definition mssql_column_default (has_default:bool) :=
  alter_table ++ [K " ADD DEFAULT "]
  ++ (if has_default then [Opaque 0] else [Fail EAssert])      (* format_server_default asserts default_str is not None *)
  ++ [K " FOR "; Col NColumn].
Definition mssql_rename_column :=
  [K "EXEC sp_rename "; StrLit [(true, ITbl NTable true); IK "."; (true, ICol NColumn)]; K ", "; Col NNewColumn; K ", 'COLUMN'"].
Definition mssql_column_type := alter_table ++ [K " "; K "ALTER COLUMN "; Col NColumn; K " "; Opaque 0].
Definition mssql_rename_table :=
  [K "EXEC sp_rename "; StrLit [(true, ITbl NTable true)]; K ", "; Tbl NNewTable false].
Definition exec_drop_tail : list piece :=
  [StrLit [(true, IRawSchemaDot); (true, IRaw NTable)];
   Knl [S ")"; S "and col_name(parent_object_id, parent_column_id) = "];
   StrLit [(true, IRaw NColumn)];
   Knl [S ""; S "exec("];
   StrLit [IK "alter table "; (true, ITbl NTable true); IK " drop constraint "];
   K " + @const_name)"].
Definition mssql_exec_drop_constraint :=
  [Knl [S "declare @const_name varchar(256)"; S "select @const_name = QUOTENAME([name]) from "];
   Opaque 0;
   Knl [S ""; S "where parent_object_id = object_id("]] ++ exec_drop_tail.
Definition mssql_exec_drop_fk :=
  [Knl [S "declare @const_name varchar(256)";
        S "select @const_name = QUOTENAME([name]) from";
        S "sys.foreign_keys fk join sys.foreign_key_columns fkc";
        S "on fk.object_id=fkc.constraint_object_id";
        S "where fkc.parent_object_id = object_id("];
   StrLit [(true, IRawSchemaDot); (true, IRaw NTable)];
   Knl [S ")"; S "and col_name(fkc.parent_object_id, fkc.parent_column_id) = "];
   StrLit [(true, IRaw NColumn)];
   Knl [S ""; S "exec("];
   StrLit [IK "alter table "; (true, ITbl NTable true); IK " drop constraint "];
   K " + @const_name)"].


(* @compiles dispatch: the dialect-specific registration wins over the default one *)
Definition visitor0 (d:dialect) (c:construct) : list piece :=
  match c, d with
  | CIdentityAlter l, Postgresql => pg_identity_alter l
  | CIdentityAlter _, Oracle => ora_identity_set
  | CIdentityAlter _, _ => [Fail ECompile]
  | CMysqlDropCheck, Mysql => mysql_drop_check false
  | CMysqlDropCheck, _ => unsupported          (* elsewhere DropConstraint is compiled by SQLAlchemy itself *)
  | CMysqlDropGeneric, Mysql => mysql_individual
  | CMysqlDropGeneric, _ => unsupported
  | CPgExclude b, Postgresql => pg_exclude b
  | CPgExclude _, _ => unsupported
  | CForeign _, _ => [Opaque 0]
  | CRenameTable, Mysql => base_rename_table
  | CRenameTable, Mssql => mssql_rename_table
  | CRenameTable, _ => noschema_rename_table
  | CAddColumn _, Mssql => mssql_add_column
  | CAddColumn _, Oracle => ora_add_column
  | CAddColumn b, _ => base_add_column b
  | CDropColumn, _ => base_drop_column
  | CColumnNullable _, Mysql => mysql_individual
  | CColumnNullable b, Mssql => mssql_column_nullable b
  | CColumnNullable b, Oracle => ora_column_nullable b
  | CColumnNullable b, _ => base_column_nullable b
  | CColumnType, Mysql => mysql_individual
  | CColumnType, Mssql => mssql_column_type
  | CColumnType, Oracle => ora_column_type
  | CColumnType, _ => base_column_type
  | CColumnName, Mysql => mysql_individual
  | CColumnName, Mssql => mssql_rename_column
  | CColumnName, Postgresql => base_column_name
  | CColumnName, _ => rename_column_kw
  | CColumnDefault _, Mysql => mysql_individual
  | CColumnDefault b, Mssql => mssql_column_default b
  | CColumnDefault b, Oracle => ora_column_default b
  | CColumnDefault b, _ => base_column_default b
  | CComputedDefault, _ => [Fail ECompile]
  | CIdentityDrop, Postgresql => pg_identity_drop
  | CIdentityDrop, Oracle => ora_identity_drop
  | CIdentityDrop, _ => [Fail ECompile]
  | CIdentityAdd, Postgresql => pg_identity_add
  | CIdentityAdd, Oracle => ora_identity_set
  | CIdentityAdd, _ => [Fail ECompile]
  | CColumnComment b, Postgresql => pg_column_comment b
  | CColumnComment _, Oracle => ora_column_comment
  | CColumnComment _, _ => unsupported
  | CPgColumnType b, Postgresql => pg_column_type b
  | CPgColumnType _, _ => unsupported
  | CMysqlAlterDefault b, Mysql => mysql_alter_default b
  | CMysqlAlterDefault _, _ => unsupported
  | CMysqlModify n a df cm, Mysql => mysql_modify n a df cm
  | CMysqlModify _ _ _ _, _ => unsupported
  | CMysqlChange n a df cm, Mysql => mysql_change n a df cm
  | CMysqlChange _ _ _ _, _ => unsupported
  | CMssqlDropConstraint, Mssql => mssql_exec_drop_constraint
  | CMssqlDropConstraint, _ => unsupported
  | CMssqlDropFK, Mssql => mssql_exec_drop_fk
  | CMssqlDropFK, _ => unsupported
  end.

(* MariaDBImpl is MySQLImpl; every mysql.py visitor is registered for "mysql" and "mariadb" *)
Definition family (d:dialect) : dialect := match d with Mariadb => Mysql | x => x end.
Definition visitor (d:dialect) (c:construct) : list piece :=
  match c, d with
  | CMysqlDropCheck, Mariadb => mysql_drop_check true     (* compiler.dialect.is_mariadb *)
  | _, _ => visitor0 (family d) c
  end.

Definition bools : list bool := [true; false].
Definition all_constructs : list construct :=
  [CRenameTable; CDropColumn; CColumnType; CColumnName; CComputedDefault; CIdentityDrop; CIdentityAdd;
   CMssqlDropConstraint; CMssqlDropFK; CMysqlDropCheck; CMysqlDropGeneric;
   CForeign FSetTableComment; CForeign FDropTableComment; CForeign FSetColumnComment]
  ++ map CAddColumn bools ++ map CColumnNullable bools ++ map CColumnDefault bools ++ map CColumnComment bools
  ++ map CPgColumnType bools ++ map CMysqlAlterDefault bools ++ map CPgExclude bools
  ++ flat_map (fun n => flat_map (fun a => flat_map (fun d => flat_map (fun c =>
       [CMysqlModify n a d c; CMysqlChange n a d c]) bools) bools) bools) bools.
Definition all_dialects : list dialect := [Sqlite; Postgresql; Mysql; Mssql; Oracle; Mariadb].
Definition all_pairs : list (dialect * construct) :=
  flat_map (fun d => map (fun c => (d, c)) all_constructs) all_dialects.

(* ------------------------------------------------------------------ DefaultImpl._exec (as_sql) *)

Definition terminator (d:dialect) : str := match d with Oracle => [] | _ => [59] end.   (* command_terminator *)
Definition batch_separator (d:dialect) : str :=                                          (* + static_output(batch_separator) *)
  match d with Mssql => [71; 79; 10; 10] | Oracle => [47; 10; 10] | _ => [] end.
Definition offline_tail (d:dialect) : str := terminator d ++ [10; 10] ++ batch_separator d.
Definition offline (d:dialect) (sql:str) : str := strip (replace_tab sql) ++ offline_tail d.

(* the whole observable: the compiled statement and what as_sql mode writes to the output buffer *)
Inductive c14_out := OutSql (compiled offline_text : str) | OutErr (e:c14_err).

Definition c14_in := (dialect * construct * env)%type.

Definition emit_stmt (i:c14_in) : c14_out :=
  let '(d, c, e) := i in
  match render (qspec_of d) e (visitor d c) with
  | ROk s => OutSql s (offline d s)
  | RErr x => OutErr x
  end.
