(* GENERATED from SQLAlchemy 2.0.54 by harness/props/c14.py:dump_reserved() -- IdentifierPreparer parameters of the six
   dialects.  Outside alembic: trusted, and re-checked against the installed SQLAlchemy on every run (kind "params"). *)
From Coq Require Import List NArith String.
From AV Require Import Model.Quote.
Import ListNotations.
Local Open Scope N_scope.
Local Open Scope string_scope.

Definition reserved_sqlite : list str := map s2l [
  "add"; "after"; "all"; "alter"; "analyze"; "and"; "as"; "asc"; "attach"; "autoincrement"; "before";
  "begin"; "between"; "by"; "cascade"; "case"; "cast"; "check"; "collate"; "column"; "commit"; "conflict";
  "constraint"; "create"; "cross"; "current_date"; "current_time"; "current_timestamp"; "database";
  "default"; "deferrable"; "deferred"; "delete"; "desc"; "detach"; "distinct"; "drop"; "each"; "else"; "end";
  "escape"; "except"; "exclusive"; "exists"; "explain"; "fail"; "false"; "for"; "foreign"; "from"; "full";
  "glob"; "group"; "having"; "if"; "ignore"; "immediate"; "in"; "index"; "indexed"; "initially"; "inner";
  "insert"; "instead"; "intersect"; "into"; "is"; "isnull"; "join"; "key"; "left"; "like"; "limit"; "match";
  "natural"; "not"; "notnull"; "null"; "of"; "offset"; "on"; "or"; "order"; "outer"; "plan"; "pragma";
  "primary"; "query"; "raise"; "references"; "reindex"; "rename"; "replace"; "restrict"; "right"; "rollback";
  "row"; "select"; "set"; "table"; "temp"; "temporary"; "then"; "to"; "transaction"; "trigger"; "true";
  "union"; "unique"; "update"; "using"; "vacuum"; "values"; "view"; "virtual"; "when"; "where"
].

Definition reserved_postgresql : list str := map s2l [
  "all"; "analyse"; "analyze"; "and"; "any"; "array"; "as"; "asc"; "asymmetric"; "authorization"; "between";
  "binary"; "both"; "case"; "cast"; "check"; "collate"; "column"; "constraint"; "create"; "cross";
  "current_catalog"; "current_date"; "current_role"; "current_schema"; "current_time"; "current_timestamp";
  "current_user"; "default"; "deferrable"; "desc"; "distinct"; "do"; "else"; "end"; "except"; "false";
  "fetch"; "for"; "foreign"; "freeze"; "from"; "full"; "grant"; "group"; "having"; "ilike"; "in";
  "initially"; "inner"; "intersect"; "into"; "is"; "isnull"; "join"; "leading"; "left"; "like"; "limit";
  "localtime"; "localtimestamp"; "natural"; "new"; "not"; "notnull"; "null"; "of"; "off"; "offset"; "old";
  "on"; "only"; "or"; "order"; "outer"; "over"; "overlaps"; "placing"; "primary"; "references"; "returning";
  "right"; "select"; "session_user"; "similar"; "some"; "symmetric"; "table"; "then"; "to"; "trailing";
  "true"; "union"; "unique"; "user"; "using"; "variadic"; "verbose"; "when"; "where"; "window"; "with"
].

Definition reserved_mysql : list str := map s2l [
  "accessible"; "add"; "admin"; "all"; "alter"; "analyze"; "and"; "array"; "as"; "asc"; "asensitive";
  "before"; "between"; "bigint"; "binary"; "blob"; "both"; "by"; "call"; "cascade"; "case"; "change"; "char";
  "character"; "check"; "collate"; "column"; "condition"; "constraint"; "continue"; "convert"; "create";
  "cross"; "cube"; "cume_dist"; "current_date"; "current_time"; "current_timestamp"; "current_user";
  "cursor"; "database"; "databases"; "day_hour"; "day_microsecond"; "day_minute"; "day_second"; "dec";
  "decimal"; "declare"; "default"; "delayed"; "delete"; "dense_rank"; "desc"; "describe"; "deterministic";
  "distinct"; "distinctrow"; "div"; "double"; "drop"; "dual"; "each"; "else"; "elseif"; "empty"; "enclosed";
  "escaped"; "except"; "exists"; "exit"; "explain"; "false"; "fetch"; "first_value"; "float"; "float4";
  "float8"; "for"; "force"; "foreign"; "from"; "fulltext"; "function"; "general"; "generated"; "get";
  "get_master_public_key"; "grant"; "group"; "grouping"; "groups"; "having"; "high_priority";
  "hour_microsecond"; "hour_minute"; "hour_second"; "if"; "ignore"; "ignore_server_ids"; "in"; "index";
  "infile"; "inner"; "inout"; "insensitive"; "insert"; "int"; "int1"; "int2"; "int3"; "int4"; "int8";
  "integer"; "intersect"; "interval"; "into"; "io_after_gtids"; "io_before_gtids"; "is"; "iterate"; "join";
  "json_table"; "key"; "keys"; "kill"; "lag"; "last_value"; "lateral"; "lead"; "leading"; "leave"; "left";
  "like"; "limit"; "linear"; "lines"; "load"; "localtime"; "localtimestamp"; "lock"; "long"; "longblob";
  "longtext"; "loop"; "low_priority"; "master_bind"; "master_heartbeat_period";
  "master_ssl_verify_server_cert"; "match"; "maxvalue"; "mediumblob"; "mediumint"; "mediumtext"; "member";
  "middleint"; "minute_microsecond"; "minute_second"; "mod"; "modifies"; "natural"; "no_write_to_binlog";
  "not"; "nth_value"; "ntile"; "null"; "numeric"; "of"; "on"; "optimize"; "optimizer_costs"; "option";
  "optionally"; "or"; "order"; "out"; "outer"; "outfile"; "over"; "parallel"; "parse_gcol_expr"; "partition";
  "percent_rank"; "persist"; "persist_only"; "precision"; "primary"; "procedure"; "purge"; "qualify";
  "range"; "rank"; "read"; "read_write"; "reads"; "real"; "recursive"; "references"; "regexp"; "release";
  "rename"; "repeat"; "replace"; "require"; "resignal"; "restrict"; "return"; "revoke"; "right"; "rlike";
  "role"; "row"; "row_number"; "rows"; "schema"; "schemas"; "second_microsecond"; "select"; "sensitive";
  "separator"; "set"; "show"; "signal"; "slow"; "smallint"; "spatial"; "specific"; "sql"; "sql_after_gtids";
  "sql_before_gtids"; "sql_big_result"; "sql_calc_found_rows"; "sql_small_result"; "sqlexception";
  "sqlstate"; "sqlwarning"; "ssl"; "starting"; "stored"; "straight_join"; "system"; "table"; "terminated";
  "then"; "tinyblob"; "tinyint"; "tinytext"; "to"; "trailing"; "trigger"; "true"; "undo"; "union"; "unique";
  "unlock"; "unsigned"; "update"; "usage"; "use"; "using"; "utc_date"; "utc_time"; "utc_timestamp"; "values";
  "varbinary"; "varchar"; "varcharacter"; "varying"; "virtual"; "when"; "where"; "while"; "window"; "with";
  "write"; "xor"; "year_month"; "zerofill"
].

Definition reserved_mssql : list str := map s2l [
  "add"; "all"; "alter"; "and"; "any"; "as"; "asc"; "authorization"; "backup"; "begin"; "between"; "break";
  "browse"; "bulk"; "by"; "cascade"; "case"; "check"; "checkpoint"; "close"; "clustered"; "coalesce";
  "collate"; "column"; "commit"; "compute"; "constraint"; "contains"; "containstable"; "continue"; "convert";
  "create"; "cross"; "current"; "current_date"; "current_time"; "current_timestamp"; "current_user";
  "cursor"; "database"; "dbcc"; "deallocate"; "declare"; "default"; "delete"; "deny"; "desc"; "disk";
  "distinct"; "distributed"; "double"; "drop"; "dump"; "else"; "end"; "errlvl"; "escape"; "except"; "exec";
  "execute"; "exists"; "exit"; "external"; "fetch"; "file"; "fillfactor"; "for"; "foreign"; "freetext";
  "freetexttable"; "from"; "full"; "function"; "goto"; "grant"; "group"; "having"; "holdlock"; "identity";
  "identity_insert"; "identitycol"; "if"; "in"; "index"; "inner"; "insert"; "intersect"; "into"; "is";
  "join"; "key"; "kill"; "left"; "like"; "lineno"; "load"; "merge"; "national"; "nocheck"; "nonclustered";
  "not"; "null"; "nullif"; "of"; "off"; "offsets"; "on"; "open"; "opendatasource"; "openquery"; "openrowset";
  "openxml"; "option"; "or"; "order"; "outer"; "over"; "percent"; "pivot"; "plan"; "precision"; "primary";
  "print"; "proc"; "procedure"; "public"; "raiserror"; "read"; "readtext"; "reconfigure"; "references";
  "replication"; "restore"; "restrict"; "return"; "revert"; "revoke"; "right"; "rollback"; "rowcount";
  "rowguidcol"; "rule"; "save"; "schema"; "securityaudit"; "select"; "session_user"; "set"; "setuser";
  "shutdown"; "some"; "statistics"; "system_user"; "table"; "tablesample"; "textsize"; "then"; "to"; "top";
  "tran"; "transaction"; "trigger"; "truncate"; "tsequal"; "union"; "unique"; "unpivot"; "update";
  "updatetext"; "use"; "user"; "values"; "varying"; "view"; "waitfor"; "when"; "where"; "while"; "with";
  "writetext"
].

Definition reserved_oracle : list str := map s2l [
  "all"; "alter"; "and"; "any"; "as"; "asc"; "between"; "by"; "char"; "check"; "cluster"; "comment";
  "compress"; "connect"; "create"; "current"; "date"; "decimal"; "default"; "delete"; "desc"; "distinct";
  "drop"; "else"; "exclusive"; "exists"; "float"; "for"; "from"; "grant"; "group"; "having"; "identified";
  "in"; "index"; "insert"; "integer"; "intersect"; "into"; "is"; "level"; "like"; "lock"; "long"; "minus";
  "mode"; "nocompress"; "not"; "nowait"; "null"; "number"; "of"; "on"; "option"; "or"; "order"; "pctfree";
  "prior"; "public"; "raw"; "rename"; "resource"; "revoke"; "select"; "set"; "share"; "size"; "smallint";
  "start"; "synonym"; "table"; "then"; "to"; "trigger"; "uid"; "union"; "unique"; "update"; "user"; "values";
  "varchar"; "varchar2"; "view"; "where"; "with"
].

Definition reserved_mariadb : list str := map s2l [
  "accessible"; "add"; "all"; "alter"; "analyze"; "and"; "as"; "asc"; "asensitive"; "before"; "between";
  "bigint"; "binary"; "blob"; "body"; "both"; "by"; "call"; "cascade"; "case"; "change"; "char"; "character";
  "check"; "collate"; "column"; "condition"; "constraint"; "continue"; "convert"; "create"; "cross";
  "current_date"; "current_role"; "current_time"; "current_timestamp"; "current_user"; "cursor"; "database";
  "databases"; "day_hour"; "day_microsecond"; "day_minute"; "day_second"; "dec"; "decimal"; "declare";
  "default"; "delayed"; "delete"; "desc"; "describe"; "deterministic"; "distinct"; "distinctrow"; "div";
  "do_domain_ids"; "double"; "drop"; "dual"; "each"; "else"; "elseif"; "elsif"; "enclosed"; "escaped";
  "except"; "exists"; "exit"; "explain"; "false"; "fetch"; "float"; "float4"; "float8"; "for"; "force";
  "foreign"; "from"; "fulltext"; "general"; "goto"; "grant"; "group"; "having"; "high_priority"; "history";
  "hour_microsecond"; "hour_minute"; "hour_second"; "if"; "ignore"; "ignore_domain_ids"; "ignore_server_ids";
  "in"; "index"; "infile"; "inner"; "inout"; "insensitive"; "insert"; "int"; "int1"; "int2"; "int3"; "int4";
  "int8"; "integer"; "intersect"; "interval"; "into"; "is"; "iterate"; "join"; "key"; "keys"; "kill";
  "leading"; "leave"; "left"; "like"; "limit"; "linear"; "lines"; "load"; "localtime"; "localtimestamp";
  "lock"; "long"; "longblob"; "longtext"; "loop"; "low_priority"; "master_heartbeat_period";
  "master_ssl_verify_server_cert"; "match"; "maxvalue"; "mediumblob"; "mediumint"; "mediumtext"; "middleint";
  "minute_microsecond"; "minute_second"; "mod"; "modifies"; "natural"; "no_write_to_binlog"; "not"; "null";
  "numeric"; "offset"; "on"; "optimize"; "option"; "optionally"; "or"; "order"; "others"; "out"; "outer";
  "outfile"; "over"; "package"; "page_checksum"; "parse_vcol_expr"; "partition"; "period"; "position";
  "precision"; "primary"; "procedure"; "purge"; "raise"; "range"; "read"; "read_write"; "reads"; "real";
  "recursive"; "ref_system_id"; "references"; "regexp"; "release"; "rename"; "repeat"; "replace"; "require";
  "resignal"; "restrict"; "return"; "returning"; "revoke"; "right"; "rlike"; "row_number"; "rows"; "rowtype";
  "schema"; "schemas"; "second_microsecond"; "select"; "sensitive"; "separator"; "set"; "show"; "signal";
  "slow"; "smallint"; "spatial"; "specific"; "sql"; "sql_big_result"; "sql_calc_found_rows";
  "sql_small_result"; "sqlexception"; "sqlstate"; "sqlwarning"; "ssl"; "starting"; "stats_auto_recalc";
  "stats_persistent"; "stats_sample_pages"; "straight_join"; "system"; "system_time"; "table"; "terminated";
  "then"; "tinyblob"; "tinyint"; "tinytext"; "to"; "trailing"; "trigger"; "true"; "undo"; "union"; "unique";
  "unlock"; "unsigned"; "update"; "usage"; "use"; "using"; "utc_date"; "utc_time"; "utc_timestamp"; "values";
  "varbinary"; "varchar"; "varcharacter"; "varying"; "versioning"; "when"; "where"; "while"; "window";
  "with"; "without"; "write"; "xor"; "year_month"; "zerofill"
].

Definition digits_dollar : list N := [36; 48; 49; 50; 51; 52; 53; 54; 55; 56; 57].

Definition qspec_of (d:dialect) : qspec :=
  match d with
  | Sqlite     => mkQ 34 34 false reserved_sqlite digits_dollar false
  | Postgresql => mkQ 34 34 true  reserved_postgresql digits_dollar false
  | Mysql      => mkQ 96 96 true  reserved_mysql digits_dollar true
  | Mssql      => mkQ 91 93 false reserved_mssql digits_dollar false
  | Oracle     => mkQ 34 34 false reserved_oracle (digits_dollar ++ [95]) false
  | Mariadb    => mkQ 96 96 true  reserved_mariadb digits_dollar true
  end.
