(* C10 — the bookkeeping of ApplyBatchImpl (alembic/operations/batch.py) for a reflected table.

   Python state                                   here
     self.columns          OrderedDict key->Column   b_cols   : list (key * col)        (insertion order)
     self.column_transfers OrderedDict key->dict     b_tr     : list (key * transfer)
     self.named_constraints dict name->Constraint    b_named  : list con                (assoc on k_name)
     self.unnamed_constraints (the reflected PK)      b_pk     : list key                (table.primary_key.columns)
     self.indexes / self.new_indexes                  b_idx / b_newidx : list index      (assoc on x_name)
     self.add_col_ordering                            b_order  : list (key * key)
     self.existing_ordering                           b_existing : list key
   Column keys never change (alter_column(name=..) changes Column.name, not .key): every operation refers to a
   column by its key, i.e. the name it had when the batch started (or was added under).

   apply_batch_op = ApplyBatchImpl.add_column (_setup_dependencies_for_add_column) / drop_column / alter_column
   (+ SQLiteImpl.cast_for_batch_migrate) / add_constraint / drop_constraint / create_index / drop_index;
   finish = _transfer_elements_to_new_table (+ _adjust_self_columns_for_partial_reordering, partial_reordering = ())
   + _gather_indexes_from_both_tables + the INSERT..SELECT column mapping of _create.
   sqlalchemy.util.topological.sort is SQLAlchemy's: finish takes it as a parameter; sa_tsort is its executable
   transcription used by the correspondence.  No proofs in this file. *)
From AV Require Export Model.BatchFail.

Definition key := name.

(* type tokens of the catalogue and SQLAlchemy's _type_affinity classes *)
Definition ty := N.         (* 0 INTEGER, 1 BIGINT, 2 TEXT, 3 VARCHAR(20), 4 NUMERIC(10,2), 5 NUMERIC(10,0) *)
Definition affinity (t:ty) : N := match t with 0 | 1 => 0 | 2 | 3 => 1 | _ => 2 end%N.

Record col := mkCol { c_name : name; c_ty : ty; c_nullable : bool; c_default : option name }.   (* default: the literal text *)
(* KPrimary: a NAMED primary key (it lives in named_constraints); the unnamed one is tb_pk / b_pk *)
Inductive ckind := KUnique | KCheck (txt:N) | KFk (rtable:name) (rcols:list name) | KPrimary.
Record con := mkCon { k_name : name; k_kind : ckind; k_cols : list key }.    (* reflected CHECK: no Column objects, k_cols = [] *)
(* x_where: the partial-index predicate SQLite reflects (dialect option sqlite_where) and the Index copy carries (its kwargs): an opaque
   text (token, compared for equality) together with the column NAMES the text mentions — the text is never rewritten, so
   CREATE INDEX ... WHERE fails in the database when one of them is not a column of the recreated table *)
Record index := mkIndex { x_name : name; x_cols : list key; x_unique : bool; x_where : option (N * list name) }.
Definition where_ok (names:list name) (x:index) : bool :=
  match x_where x with Some (_, ms) => forallb (fun m => mem_name m names) ms | None => true end.
Record tbl := mkTbl { tb_cols : list (key * col); tb_pk : list key; tb_cons : list con; tb_idx : list index }.

Record transfer := mkTr { tr_expr : option (key * list ty);        (* source column, CAST targets (innermost first) *)
                          tr_name : option name }.

Record bstate := mkB {
  b_cols : list (key * col); b_tr : list (key * transfer); b_named : list con; b_pk : list key;
  b_idx : list index; b_newidx : list index; b_order : list (key * key); b_existing : list key;
  b_flags : list key;          (* keys of the columns whose Column.primary_key flag is set *)
  b_partial : list (list key); (* self.partial_reordering: tuples of column keys *)
  b_targs : list con }.        (* self.table_args: extra constraints handed to the new Table(...) *)

Inductive berr := EKeyError | EValueError | ECircular | EDuplicateColumn | EOperationalB | ECommandB | ENotImplementedB | EFuelB | EOtherB.
Inductive bres (A:Type) := BOk (a:A) | BErr (e:berr).
Arguments BOk {A} a. Arguments BErr {A} e.

(* ------------------------------------------------------------------ dict helpers (insertion-ordered) *)
Fixpoint aget {V} (k:key) (l:list (key * V)) : option V :=
  match l with [] => None | (k', v) :: r => if name_eqb k k' then Some v else aget k r end.
Fixpoint aset {V} (k:key) (v:V) (l:list (key * V)) : list (key * V) :=       (* d[k] = v : in place, else appended *)
  match l with
  | [] => [(k, v)]
  | (k', v') :: r => if name_eqb k k' then (k', v) :: r else (k', v') :: aset k v r
  end.
Definition adel {V} (k:key) (l:list (key * V)) : list (key * V) := filter (fun p => negb (name_eqb k (fst p))) l.
Definition akeys {V} (l:list (key * V)) : list key := map fst l.
Definition remove_name (k:key) (l:list key) : list key := filter (fun x => negb (name_eqb k x)) l.
Definition sub_names (a b:list key) : bool := forallb (fun x => mem_name x b) a.

Definition con_get (n:name) (l:list con) : option con := find (fun c => name_eqb n (k_name c)) l.
Fixpoint con_set (c:con) (l:list con) : list con :=
  match l with
  | [] => [c]
  | c' :: r => if name_eqb (k_name c) (k_name c') then c :: r else c' :: con_set c r
  end.
Definition con_del (n:name) (l:list con) : list con := filter (fun c => negb (name_eqb n (k_name c))) l.
Definition idx_get (n:name) (l:list index) : option index := find (fun x => name_eqb n (x_name x)) l.
Fixpoint idx_set (x:index) (l:list index) : list index :=
  match l with
  | [] => [x]
  | x' :: r => if name_eqb (x_name x) (x_name x') then x :: r else x' :: idx_set x r
  end.
Definition idx_del (n:name) (l:list index) : list index := filter (fun x => negb (name_eqb n (x_name x))) l.

(* ------------------------------------------------------------------ __init__ / _grab_table_elements *)
Definition is_primary (c:con) : bool := match k_kind c with KPrimary => true | _ => false end.
(* drop_column: _remove_column_from_collection(self.table.primary_key.columns, column) — the table's primary key object
   is the unnamed one (b_pk) or the named one sitting in named_constraints *)
Definition pk_drop_col (k:key) (c:con) : con :=
  if is_primary c then mkCon (k_name c) (k_kind c) (remove_name k (k_cols c)) else c.
Definition init_with (P:list (list key)) (A:list con) (T:tbl) : bstate :=
  mkB (tb_cols T) (map (fun p => (fst p, mkTr (Some (fst p, [])) None)) (tb_cols T))
      (tb_cons T) (tb_pk T) (tb_idx T) [] [] (akeys (tb_cols T))
      (tb_pk T ++ flat_map k_cols (filter is_primary (tb_cons T))) P A.
Definition init (T:tbl) : bstate := init_with [] [] T.
(* _grab_table_elements: `elif self.reflected and isinstance(const, CheckConstraint) and not const.name: pass` — the unnamed
   CHECK constraints of a REFLECTED table are skipped (they do not reach the new table); with copy_from they are carried.
   `uchecks`: the table's unnamed CHECK constraints (kept apart from tb_cons, which holds everything else). *)
Definition grab (reflected:bool) (uchecks:list con) (T:tbl) : tbl :=
  mkTbl (tb_cols T) (tb_pk T) (tb_cons T ++ (if reflected then [] else uchecks)) (tb_idx T).

(* ------------------------------------------------------------------ operations *)
Record alter := mkAlter { al_name : option name; al_type : option ty; al_nullable : option bool;
                          al_default : option (option name) }.      (* None: server_default=False (keep); Some None: drop it *)
Inductive batch_op :=
| OAddColumn (k:key) (c:col) (before after : option key)
| ODropColumn (k:key)
| OAlterColumn (k:key) (a:alter)
| OAddConstraint (c:con)
| ODropConstraint (n:name)
| OCreateIndex (x:index)
| ODropIndex (n:name).

Fixpoint index_of (k:key) (l:list key) : option nat :=
  match l with [] => None | x :: r => if name_eqb k x then Some 0%nat else option_map S (index_of k r) end.
Definition last_opt (l:list key) : option key := match rev l with [] => None | x :: _ => Some x end.
Fixpoint alast {V} (l:list (key * V)) (k:key) : option V :=         (* dict(pairs)[k]: the last pair wins *)
  match l with [] => None | (k', v) :: r => match alast r k with Some v' => Some v' | None => if name_eqb k k' then Some v else None end end.

(* _setup_dependencies_for_add_column, partial_reordering = () *)
Definition setup_dependencies_noreorder (s:bstate) (colname:key) (before after:option key) : bres (list (key * key)) :=
  let index_cols := b_existing s in
  (* if insert_after and not insert_before: derive insert_before *)
  let before1 : bres (option key) :=
    match after, before with
    | Some a, None =>
        match index_of a index_cols with
        | Some i => BOk (nth_error index_cols (S i))
        | None => match alast (b_order s) a with Some b => BOk (Some b) | None => BErr EKeyError end
        end
    | _, _ => BOk before
    end in
  match before1 with
  | BErr e => BErr e
  | BOk before1 =>
    let after1 : bres (option key) :=
      match before1, after with
      | Some b, None =>
          match index_of b index_cols with
          | Some i => BOk (match i with O => None | S j => nth_error index_cols j end)
          | None => match alast (map (fun p => (snd p, fst p)) (b_order s)) b with Some a => BOk (Some a) | None => BErr EKeyError end
          end
      | _, _ => BOk after
      end in
    match after1 with
    | BErr e => BErr e
    | BOk after1 =>
      let o1 := match before1 with Some b => b_order s ++ [(colname, b)] | None => b_order s end in
      let o2 := match after1 with Some a => o1 ++ [(a, colname)] | None => o1 end in
      BOk (match before1, after1, last_opt index_cols with
           | None, None, Some l => o2 ++ [(l, colname)]
           | _, _, _ => o2
           end)
    end
  end.

(* with partial_reordering the implicit neighbours are not derived: only what the caller named is recorded *)
Definition setup_dependencies (s:bstate) (colname:key) (before after:option key) : bres (list (key * key)) :=
  match b_partial s with
  | [] => setup_dependencies_noreorder s colname before after
  | _ =>
      let o1 := match before with Some b => b_order s ++ [(colname, b)] | None => b_order s end in
      BOk (match after with Some a => o1 ++ [(a, colname)] | None => o1 end)
  end.

Definition apply_batch_op (o:batch_op) (s:bstate) : bres bstate :=
  match o with
  | OAddColumn k c before after =>
      match setup_dependencies s k before after with
      | BErr e => BErr e
      | BOk ord => BOk (mkB (aset k c (b_cols s)) (aset k (mkTr None None) (b_tr s)) (b_named s) (b_pk s)
                            (b_idx s) (b_newidx s) ord (b_existing s)
                            (remove_name k (b_flags s))      (* a new Column object: its own primary_key flag (never set here) *)
                            (b_partial s) (b_targs s))
      end
  | ODropColumn k =>
      match aget k (b_cols s) with
      | None => BErr EKeyError
      | Some _ =>
          if mem_name k (b_existing s)
          then BOk (mkB (adel k (b_cols s)) (adel k (b_tr s)) (map (pk_drop_col k) (b_named s)) (remove_name k (b_pk s))
                        (b_idx s) (b_newidx s) (b_order s) (remove_name k (b_existing s)) (b_flags s) (b_partial s) (b_targs s))
          else BErr EValueError                         (* existing_ordering.remove of an added column *)
      end
  | OAlterColumn k a =>
      match aget k (b_cols s), aget k (b_tr s) with
      | Some c, Some t =>
          (* `if name is not None and name != existing.name` (the column's CURRENT name) *)
          let renamed := match al_name a with Some n => negb (name_eqb n (c_name c)) | None => false end in
          let c1 := if renamed then mkCol (match al_name a with Some n => n | None => c_name c end) (c_ty c) (c_nullable c) (c_default c) else c in
          let t1 := if renamed then mkTr (tr_expr t) (al_name a) else t in
          (* type_: cast_for_batch_migrate wraps the transfer expression when the affinities differ *)
          let t2 := match al_type a with
                    | Some nt => if N.eqb (affinity (c_ty c1)) (affinity nt) then t1
                                 else mkTr (match tr_expr t1 with Some (src, cs) => Some (src, cs ++ [nt]) | None => None end) (tr_name t1)
                    | None => t1 end in
          let c2 := match al_type a with Some nt => mkCol (c_name c1) nt (c_nullable c1) (c_default c1) | None => c1 end in
          let c3 := match al_nullable a with Some b => mkCol (c_name c2) (c_ty c2) b (c_default c2) | None => c2 end in
          let c4 := match al_default a with Some d => mkCol (c_name c3) (c_ty c3) (c_nullable c3) d | None => c3 end in
          BOk (mkB (aset k c4 (b_cols s)) (aset k t2 (b_tr s)) (b_named s) (b_pk s) (b_idx s) (b_newidx s) (b_order s) (b_existing s) (b_flags s) (b_partial s) (b_targs s))
      | _, _ => BErr EKeyError
      end
  | OAddConstraint c => BOk (mkB (b_cols s) (b_tr s) (con_set c (b_named s)) (b_pk s) (b_idx s) (b_newidx s) (b_order s) (b_existing s) (b_flags s) (b_partial s) (b_targs s))
  | ODropConstraint n =>
      match con_get n (b_named s) with
      | Some c =>
          (* `const = self.named_constraints.pop(name)`; a PrimaryKeyConstraint: its columns lose their primary_key flag *)
          BOk (mkB (b_cols s) (b_tr s) (con_del n (b_named s)) (b_pk s) (b_idx s) (b_newidx s) (b_order s) (b_existing s)
                   (if is_primary c then filter (fun k => negb (mem_name k (k_cols c))) (b_flags s) else b_flags s)
                   (b_partial s) (b_targs s))
      | None => BErr EValueError
      end
  | OCreateIndex x => BOk (mkB (b_cols s) (b_tr s) (b_named s) (b_pk s) (b_idx s) (idx_set x (b_newidx s)) (b_order s) (b_existing s) (b_flags s) (b_partial s) (b_targs s))
  | ODropIndex n =>
      match idx_get n (b_idx s) with
      | Some _ => BOk (mkB (b_cols s) (b_tr s) (b_named s) (b_pk s) (idx_del n (b_idx s)) (b_newidx s) (b_order s) (b_existing s) (b_flags s) (b_partial s) (b_targs s))
      | None => BErr EValueError
      end
  end.

Fixpoint apply_ops (ops:list batch_op) (s:bstate) : bres bstate :=
  match ops with
  | [] => BOk s
  | o :: r => match apply_batch_op o s with BOk s' => apply_ops r s' | BErr e => BErr e end
  end.

(* ------------------------------------------------------------------ sqlalchemy.util.topological.sort(deterministic_order=True) *)
(* sort_as_subsets: repeatedly output, in `allitems` order, the nodes none of whose parents is still to do *)
Definition has_parent_in (pairs:list (key * key)) (todo:list key) (node:key) : bool :=
  existsb (fun p => name_eqb (snd p) node && mem_name (fst p) todo) pairs.
Fixpoint sa_rounds (fuel:nat) (pairs:list (key * key)) (todo:list key) : option (list key) :=
  match todo with
  | [] => Some []
  | _ =>
    match fuel with
    | O => None
    | S f =>
        let out := filter (fun n => negb (has_parent_in pairs todo n)) todo in
        match out with
        | [] => None                                   (* CircularDependencyError *)
        | _ => option_map (app out) (sa_rounds f pairs (filter (fun n => negb (mem_name n out)) todo))
        end
    end
  end.
Definition sa_tsort (pairs:list (key * key)) (items:list key) : option (list key) := sa_rounds (S (length items)) pairs items.

(* ------------------------------------------------------------------ the new table and the copy mapping *)
(* what is compared with the database afterwards: columns in order under their current names, PK, named
   constraints and indexes with their columns under current names *)
Record ndesc := mkDesc { n_cols : list col; n_pk : list name; n_cons : list con; n_idx : list index }.
(* INSERT INTO tmp (dst...) SELECT [CAST(]src[ AS ty)] ... : destination column name, source key, cast target *)
Definition copymap := list (name * key * list ty).

(* a primary key constraint without columns is not rendered *)
Definition con_visible (c:con) : bool := negb (is_primary c && match k_cols c with [] => true | _ => false end).

Definition no_transfer (trs:list (key * transfer)) : bool := forallb (fun p => negb (is_some (tr_expr (snd p)))) trs.

Definition zip_pairs (a b:list key) : list (key * key) :=      (* (col_by_idx[i-1], existing[i]) for i >= 1 *)
  combine a (tl b).
(* the pairs _adjust_self_columns_for_partial_reordering starts from: consecutive elements of every partial_reordering tuple,
   or, without partial_reordering, the existing order *)
Definition base_pairs (s:bstate) : list (key * key) :=
  match b_partial s with
  | [] => zip_pairs (akeys (b_cols s)) (b_existing s)
  | P => flat_map (fun t => combine t (tl t)) P
  end.

Section Finish.
  Variable tsort : list (key * key) -> list key -> option (list key).

  (* _adjust_self_columns_for_partial_reordering *)
  Definition reorder (s:bstate) : bres (list (key * col) * list (key * transfer)) :=
    match b_order s, b_partial s with
    | [], [] => BOk (b_cols s, b_tr s)                  (* `if self.partial_reordering or self.add_col_ordering:` *)
    | _, _ =>
      let col_by_idx := akeys (b_cols s) in
      let pairs := filter (fun p => negb (name_eqb (fst p) (snd p))) (base_pairs s ++ b_order s) in
      match tsort pairs col_by_idx with
      | None => BErr ECircular
      | Some sorted =>
          let pick {V} (d:V) (l:list (key * V)) := map (fun k => (k, match aget k l with Some v => v | None => d end)) sorted in
          if forallb (fun k => is_some (aget k (b_cols s)) && is_some (aget k (b_tr s))) sorted
          then BOk (pick (mkCol [] 0%N true None) (b_cols s), pick (mkTr None None) (b_tr s))
          else BErr EKeyError
      end
    end.

  Definition cur_name (cols:list (key * col)) (k:key) : name :=
    match aget k cols with Some c => c_name c | None => k end.
  Fixpoint has_dup (l:list name) : bool := match l with [] => false | x :: r => mem_name x r || has_dup r end.

  Definition finish (s:bstate) : bres (ndesc * copymap) :=
    match reorder s with
    | BErr e => BErr e
    | BOk (cols, trs) =>
      let keys := akeys trs in
      if has_dup (map (fun p => c_name (snd p)) cols) then BErr EDuplicateColumn       (* Table(...) refuses two columns of one name *)
      else if no_transfer trs then BErr EKeyError       (* INSERT..SELECT without a single column: SQLAlchemy's compiler raises KeyError *)
      else
      let rn := cur_name cols in
      (* constraints whose columns are not all transferred are silently left out *)
      let kept := filter (fun c => sub_names (k_cols c) keys) (b_named s) in
      (* the primary key of the new Table: the unnamed constraint if it is transferred with columns; else a named one among
         the kept constraints (it then appears in n_cons); else whatever Table() derives from the columns' primary_key flags *)
      let pk := match (if sub_names (b_pk s) keys then b_pk s else []) with
                | [] => if existsb is_primary kept then []
                        else map rn (filter (fun k => mem_name k (b_flags s)) (akeys cols))
                | l => map rn l
                end in
      (* _gather_indexes_from_both_tables: an existing index over a missing column fails in the database (CREATE INDEX),
         a new index over a missing key fails in Python (new_table.c[col]) *)
      (* (_copy_expression appends a copy of a missing column to the new Table object, so a new index may name it;
          append_column refuses it when another column already carries that name) *)
      if existsb (fun k => negb (mem_name k (akeys cols)) && mem_name k (map (fun p => c_name (snd p)) cols)) (flat_map x_cols (b_idx s))
      then BErr EDuplicateColumn
      else if negb (forallb (fun x => sub_names (x_cols x) (akeys cols ++ flat_map x_cols (b_idx s))) (b_newidx s)) then BErr EKeyError
      else if negb (forallb (fun x => sub_names (x_cols x) (akeys cols)) (b_idx s ++ b_newidx s)) then BErr EOperationalB
      (* a partial index whose predicate names a column that is gone (dropped, or renamed: the text still has the old name) *)
      else if negb (forallb (where_ok (map (fun p => c_name (snd p)) cols)) (b_idx s ++ b_newidx s)) then BErr EOperationalB
      else
      BOk (mkDesc (map snd cols) pk
                  (map (fun c => mkCon (k_name c) (k_kind c) (map rn (k_cols c))) (filter con_visible kept) ++ b_targs s)
                  (map (fun x => mkIndex (x_name x) (map rn (x_cols x)) (x_unique x) (x_where x)) (b_idx s ++ b_newidx s)),
           flat_map (fun p => match tr_expr (snd p) with
                              | Some (src, cast) => [(rn (fst p), src, cast)]
                              | None => [] end) trs)
    end.

  Definition batch_with (P:list (list key)) (A:list con) (T:tbl) (ops:list batch_op) : bres (ndesc * copymap) :=
    match apply_ops ops (init_with P A T) with
    | BErr e => BErr e
    | BOk s => finish s
    end.
  Definition batch (T:tbl) (ops:list batch_op) : bres (ndesc * copymap) := batch_with [] [] T ops.
End Finish.

(* ------------------------------------------------------------------ recreate='auto' *)
(* SQLiteImpl.requires_recreate_in_batch: anything but add_column (with a plain default) / create_index / drop_index *)
Definition needs_recreate (o:batch_op) : bool :=
  match o with OAddColumn _ _ _ _ | OCreateIndex _ | ODropIndex _ => false | _ => true end.
Definition requires_recreate (ops:list batch_op) : bool := existsb needs_recreate ops.
(* BatchOperationsImpl.add_column: insert_before/insert_after while the operations recorded SO FAR would not recreate
   the table -> CommandError, raised when the operation is recorded (nothing has been executed yet) *)
Fixpoint command_error (always:bool) (seen ops:list batch_op) : bool :=
  match ops with
  | [] => false
  | o :: r =>
      (match o with
       | OAddColumn _ _ b a => (is_some b || is_some a) && negb (always || requires_recreate seen)
       | _ => false end) || command_error always (seen ++ [o]) r
  end.
(* the ALTER path of BatchOperationsImpl.flush: impl.add_column / create_index / drop_index one by one; the failures are
   the database's (duplicate column, NOT NULL column without default, index exists / missing, unknown column) *)
Definition direct_op (o:batch_op) (T:tbl) : bres tbl :=
  match o with
  | OAddColumn k c _ _ =>
      if is_some (aget k (tb_cols T)) || mem_name (c_name c) (map (fun p => c_name (snd p)) (tb_cols T)) then BErr EOperationalB
      else if negb (c_nullable c) && negb (is_some (c_default c)) then BErr EOperationalB
      else BOk (mkTbl (tb_cols T ++ [(k, c)]) (tb_pk T) (tb_cons T) (tb_idx T))
  | OCreateIndex x =>
      if is_some (idx_get (x_name x) (tb_idx T)) || negb (sub_names (x_cols x) (akeys (tb_cols T)))
         || negb (where_ok (map (fun p => c_name (snd p)) (tb_cols T)) x) then BErr EOperationalB
      else BOk (mkTbl (tb_cols T) (tb_pk T) (tb_cons T) (tb_idx T ++ [x]))
  | ODropIndex n =>
      if is_some (idx_get n (tb_idx T)) then BOk (mkTbl (tb_cols T) (tb_pk T) (tb_cons T) (idx_del n (tb_idx T)))
      else BErr EOperationalB
  | _ => BErr EOtherB
  end.
Fixpoint direct_ops (ops:list batch_op) (T:tbl) : bres tbl :=
  match ops with
  | [] => BOk T
  | o :: r => match direct_op o T with BOk T' => direct_ops r T' | BErr e => BErr e end
  end.
Definition desc_of_tbl (T:tbl) : ndesc :=
  let rn := fun k => match aget k (tb_cols T) with Some c => c_name c | None => k end in
  mkDesc (map snd (tb_cols T)) (map rn (tb_pk T))
         (map (fun c => mkCon (k_name c) (k_kind c) (map rn (k_cols c))) (filter con_visible (tb_cons T)))
         (map (fun x => mkIndex (x_name x) (map rn (x_cols x)) (x_unique x) (x_where x)) (tb_idx T)).
Definition identity_map (T:tbl) : list (name * key * list ty) := map (fun p => (c_name (snd p), fst p, [])) (tb_cols T).

(* ------------------------------------------------------------------ recreate='never' *)
(* _should_recreate() is False whatever the operations: each goes to SQLiteImpl / DefaultImpl directly.
   add_column / create_index / drop_index as above; drop_column -> ALTER TABLE DROP COLUMN (SQLite refuses a column of the
   primary key, of a constraint or of an index); alter_column -> one ALTER per changed attribute, of which SQLite only knows
   RENAME COLUMN (nullable / server_default / type are syntax errors, emitted first); add_constraint / drop_constraint ->
   SQLiteImpl raises NotImplementedError.  Columns are referred to by their CURRENT names here (no Column keys): the
   state carries, for every column, the original column it descends from. *)
Definition rename_key (k n:key) (x:key) : key := if name_eqb x k then n else x.
Definition self_table : name := [116]%N.      (* the table under test is always called "t" (the description carries no table name) *)
Definition never_op (o:batch_op) (st:tbl * list (key * key)) : bres (tbl * list (key * key)) :=
  let (T, orig) := st in
  match o with
  | OAddColumn _ _ _ _ | OCreateIndex _ | ODropIndex _ =>
      match direct_op o T with BOk T' => BOk (T', orig) | BErr e => BErr e end
  | ODropColumn k =>
      match aget k (tb_cols T) with
      | None => BErr EOperationalB
      | Some _ =>
          if mem_name k (tb_pk T) || existsb (fun c => mem_name k (k_cols c)) (tb_cons T)
             || existsb (fun x => mem_name k (x_cols x) || match x_where x with Some (_, ms) => mem_name k ms | None => false end) (tb_idx T) then BErr EOperationalB
          else BOk (mkTbl (adel k (tb_cols T)) (tb_pk T) (tb_cons T) (tb_idx T), adel k orig)
      end
  | OAlterColumn k a =>
      if is_some (al_nullable a) || is_some (al_default a) || is_some (al_type a) then BErr EOperationalB
      else match aget k (tb_cols T), al_name a with
           | None, _ => BErr EOperationalB
           | Some _, None => BOk (T, orig)
           | Some c, Some n =>
               if name_eqb n (c_name c) then BOk (T, orig)       (* RENAME COLUMN c TO c: accepted by SQLite, nothing changes *)
               else if mem_name n (map (fun p => c_name (snd p)) (tb_cols T)) then BErr EOperationalB
               else BOk (mkTbl (map (fun p => if name_eqb (fst p) k then (n, mkCol n (c_ty (snd p)) (c_nullable (snd p)) (c_default (snd p))) else p) (tb_cols T))
                               (map (rename_key k n) (tb_pk T))
                               (map (fun c0 => mkCon (k_name c0)
                                                     (match k_kind c0 with      (* RENAME COLUMN also rewrites a self-referential FK's target *)
                                                      | KFk rt rc => if name_eqb rt self_table then KFk rt (map (rename_key k n) rc) else KFk rt rc
                                                      | kd => kd end)
                                                     (map (rename_key k n) (k_cols c0))) (tb_cons T))
                               (* ... and the predicate of a partial index *)
                               (map (fun x => mkIndex (x_name x) (map (rename_key k n) (x_cols x)) (x_unique x)
                                                      (match x_where x with Some (tk, ms) => Some (tk, map (rename_key k n) ms) | None => None end)) (tb_idx T)),
                        map (fun p => (rename_key k n (fst p), snd p)) orig)
           end
  | OAddConstraint _ | ODropConstraint _ => BErr ENotImplementedB
  end.
Fixpoint never_ops (ops:list batch_op) (st:tbl * list (key * key)) : bres (tbl * list (key * key)) :=
  match ops with
  | [] => BOk st
  | o :: r => match never_op o st with BOk st' => never_ops r st' | BErr e => BErr e end
  end.
Definition never_command_error (ops:list batch_op) : bool :=
  existsb (fun o => match o with OAddColumn _ _ b a => is_some b || is_some a | _ => false end) ops.
Definition origin_map (T:tbl) (orig:list (key * key)) : list (name * key * list ty) :=
  flat_map (fun p => match aget (fst p) orig with Some k0 => [(c_name (snd p), k0, [])] | None => [] end) (tb_cols T).

(* ------------------------------------------------------------------ rows *)
(* a row of the old table: one value per original column, in column order.  `cast` is SQLite's CAST (an oracle).
   The copied row: for every new column, the (cast) source value if the column has a transfer, else the value the
   database fills in for a column left out of the INSERT (its DEFAULT or NULL) — `dflt`, also SQLite's. *)
Section Rows.
  Variable cast : ty -> val -> val.
  Variable dflt : col -> val.
  Definition src_val (T:tbl) (r:row) (src:key) : val :=
    match index_of src (akeys (tb_cols T)) with Some i => cell i r | None => VNull end.
  Definition copy_val (T:tbl) (cm:copymap) (r:row) (c:col) : val :=
    match find (fun e => name_eqb (c_name c) (fst (fst e))) cm with
    | Some (_, src, cs) => fold_left (fun v t => cast t v) cs (src_val T r src)
    | None => dflt c
    end.
  Definition copy_rows (T:tbl) (nd:ndesc) (cm:copymap) (rows:list row) : list row :=
    map (fun r => map (copy_val T cm r) (n_cols nd)) rows.
End Rows.
