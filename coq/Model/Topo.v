(* RevisionMap._topological_sort, transcribed: one `step` per iteration of the `while current_heads` loop.
   The graph enters only through `parents` (_normalized_down_revisions in the stored order), `anc`
   (get_ancestors = _get_ancestor_nodes([rev]) as a set, includes the node) and `linear`
   (no normalized dependencies and exactly one down revision).  No proofs here. *)
From AV Require Export Base.ListSet.

Section TOPO.
  (* the graph, as the sort sees it *)
  Variable parents : N -> list N.        (* _normalized_down_revisions *)
  Variable anc     : N -> list N.        (* get_ancestors: _get_ancestor_nodes([rev]) as a set, includes the node itself *)
  Variable linear  : N -> bool.          (* not _normalized_resolved_dependencies and len(_versioned_down_revisions)==1 *)

  (* heads are kept as parallel lists in python; we pair them *)
  Record st := { hs : list (N * list N); idx : nat; todo : list N; out : list N (* reversed *) }.

  Fixpoint find_blocker (c:N) (i:nat) (k:nat) (l:list (N*list N)) : option nat :=
    match l with
    | [] => None
    | (h,A)::l' => if negb (Nat.eqb k i) && memN c A then Some k else find_blocker c i (S k) l'
    end.

  Fixpoint set_nth {A} (n:nat) (x:A) (l:list A) : list A :=
    match l, n with
    | [], _ => []
    | _::l', O => x::l'
    | y::l', S n' => y :: set_nth n' x l'
    end.
  Fixpoint del_nth {A} (n:nat) (l:list A) : list A :=
    match l, n with
    | [], _ => []
    | _::l', O => l'
    | y::l', S n' => y :: del_nth n' l'
    end.

  Inductive outcome := Done (o:list N) | Next (s:st) | Stuck.

  Definition step (s:st) : outcome :=
    match hs s with
    | [] => Done (rev (out s))
    | _ =>
      match nth_error (hs s) (idx s) with
      | None => Stuck                                   (* IndexError: cannot happen, proved *)
      | Some (c, Ac) =>
        match find_blocker c (idx s) 0 (hs s) with
        | Some k => Next {| hs := hs s; idx := k; todo := todo s; out := out s |}
        | None =>
          let emitted := memN c (todo s) in
          let todo' := if emitted then removeN c (todo s) else todo s in
          let out'  := if emitted then c :: out s else out s in
          let heads_now := map fst (hs s) in
          let add := filter (fun r => memN r todo' && negb (memN r heads_now)) (parents c) in
          match add with
          | [] => Next {| hs := del_nth (idx s) (hs s); idx := Nat.max (idx s - 1) 0; todo := todo'; out := out' |}
          | p :: more =>
            if linear c
            then Next {| hs := set_nth (idx s) (p, removeN c Ac) (hs s); idx := idx s; todo := todo'; out := out' |}
            else Next {| hs := set_nth (idx s) (p, anc p) (hs s) ++ map (fun h => (h, anc h)) more;
                         idx := idx s; todo := todo'; out := out' |}
          end
        end
      end
    end.

  Fixpoint run (fuel:nat) (s:st) : option (list N) :=
    match fuel with
    | O => None
    | S f => match step s with Done o => Some o | Stuck => None | Next s' => run f s' end
    end.

  Definition init (revisions heads : list N) (sorted_heads : list N) : st :=
    {| hs := map (fun h => (h, anc h)) sorted_heads; idx := 0; todo := revisions; out := [] |}.
End TOPO.

