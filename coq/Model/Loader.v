(* C19 — how a ScriptDirectory finds its revision files.

   Mirrors, function by function,
     alembic/script/base.py : ScriptDirectory.from_config (version_locations splitting),
                              ScriptDirectory._version_locations, ScriptDirectory._load_revisions,
                              Script._list_py_dir, Script._from_filename,
                              _sourceless_rev_file / _only_source_rev_file
     alembic/util/pyfiles.py: load_python_file (which loader a file name selects, what fails)
     alembic/script/revision.py: the "Revision %s is present more than once" warning of _revision_map

   The file system is a value: a tree of named entries (regular file / directory / symbolic link).
   Strings are lists of code points, a path is the list of its components below the process' working
   directory (the harness chdir()s into the root of the materialised tree and gives relative locations).
   Semantics of os.walk / os.path.realpath / os.path.exists / os.listdir / importlib are ASSUMED as written
   here (listed in TRUSTED of the plugin) and exercised by the correspondence check.  No proofs here. *)
From AV Require Export Base.ListSet.
Open Scope N_scope.

Definition str := list N.
Definition path := list str.
Definition nonempty_l {A} (l:list A) : bool := match l with [] => false | _ => true end.

(* ------------------------------------------------------------------ the file tree *)
Inductive node :=
| File (c : option N)              (* Some code: an importable module (source or byte code, according to its name);
                                      code = mkcode rid tag: the module defines `revision = rid` (rid = 0: it has no
                                      `revision` attribute) and is identified by tag (its docstring; down_revision,
                                      branch_labels, depends_on are attributes of the same module object and reach
                                      Revision.__init__ unchanged).  None: content that cannot be imported *)
| Dir (es : list (str * node))
| Link (t : path).                 (* symbolic link to the absolute (= root-relative) path t *)
Definition entry := (str * node)%type.

Definition str_eqb : str -> str -> bool := list_eqb N.eqb.
Definition path_eqb : path -> path -> bool := list_eqb str_eqb.
Definition mem_str (s:str) (l:list str) : bool := existsb (str_eqb s) l.
Definition mem_path (p:path) (l:list path) : bool := existsb (path_eqb p) l.

Fixpoint prefixb (p s : str) : bool :=
  match p, s with
  | [], _ => true
  | a :: p', b :: s' => N.eqb a b && prefixb p' s'
  | _ :: _, [] => false
  end.
Definition suffixb (p s : str) : bool := prefixb (rev p) (rev s).
(* filename.split(".")[0] *)
Fixpoint stem (s:str) : str :=
  match s with
  | [] => []
  | c :: r => if N.eqb c 46 then [] else c :: stem r
  end.

Definition s_py : str := [46;112;121].                                  (* ".py"  *)
Definition s_pyc : str := [46;112;121;99].                              (* ".pyc" *)
Definition s_pyo : str := [46;112;121;111].                             (* ".pyo" *)
Definition s_lock : str := [46;35].                                     (* ".#"   *)
Definition s_init : str := [95;95;105;110;105;116;95;95].               (* "__init__" *)
Definition s_pycache : str := [95;95;112;121;99;97;99;104;101;95;95].   (* "__pycache__" *)
Definition s_sd : str := [115;100].                                     (* "sd": script_location used by the harness *)
Definition s_versions : str := [118;101;114;115;105;111;110;115].       (* "versions" *)

Fixpoint find_entry (nm:str) (es:list entry) : option node :=
  match es with
  | [] => None
  | (n, c) :: r => if str_eqb nm n then Some c else find_entry nm r
  end.

(* plain lookup of a real path (no link is followed) *)
Fixpoint lookup (n:node) (p:path) : option node :=
  match p with
  | [] => Some n
  | nm :: r => match n with
               | Dir es => match find_entry nm es with Some c => lookup c r | None => None end
               | _ => None
               end
  end.

(* os.path.realpath / exists of a configured location: every component that is a link is replaced by its
   target (targets are real paths in well-formed trees, so one hop per component is enough; a link to a link is
   outside the model and reads as "does not exist") *)
Fixpoint resolve_from (T:node) (cur:path) (n:node) (p:path) : option (path * node) :=
  match p with
  | [] => Some (cur, n)
  | nm :: r =>
      match n with
      | Dir es =>
          match find_entry nm es with
          | Some (Link t) => match lookup T t with
                             | Some (Link _) => None
                             | Some c => resolve_from T t c r
                             | None => None
                             end
          | Some c => resolve_from T (cur ++ [nm]) c r
          | None => None
          end
      | _ => None
      end
  end.
Definition resolve (T:node) (p:path) : option (path * node) := resolve_from T [] T p.

Definition real_node (T:node) (c:node) : option node :=
  match c with Link t => lookup T t | _ => Some c end.
(* DirEntry.is_dir() as used by os.walk to separate `dirs` from `files` (follows links; broken link: not a dir) *)
Definition is_dirlike (T:node) (c:node) : bool :=
  match real_node T c with Some (Dir _) => true | _ => false end.
(* os.path.exists(os.path.join(dir_, name)), dir_ a real directory *)
Definition exists_in (T:node) (d:path) (nm:str) : bool :=
  match lookup T d with
  | Some (Dir es) => match find_entry nm es with
                     | Some c => match real_node T c with Some _ => true | None => false end
                     | None => false
                     end
  | _ => false
  end.

(* ------------------------------------------------------------------ Script._list_py_dir *)
Definition ends_pycache (nm:str) : bool := suffixb s_pycache nm.         (* root.endswith("__pycache__") *)

(* sorted(names) / names.sort(): Python orders str by code points *)
Fixpoint str_leb (a b:str) : bool :=
  match a, b with
  | [], _ => true
  | _ :: _, [] => false
  | x :: a', y :: b' => if N.ltb x y then true else if N.eqb x y then str_leb a' b' else false
  end.
Fixpoint insert_by {A} (key:A -> str) (x:A) (l:list A) : list A :=
  match l with
  | [] => [x]
  | y :: r => if str_leb (key x) (key y) then x :: l else y :: insert_by key x r
  end.
Definition sort_by {A} (key:A -> str) (l:list A) : list A := fold_right (insert_by key) [] l.

(* the directories os.walk(top, topdown=True) visits without following links, minus those the loop `continue`s
   over, in visiting order; `skip` says whether the directory's own name ends with "__pycache__".  The entries of a
   Dir are in os.scandir / os.listdir order (observed by the harness): `dirs.sort()` at the end of the loop body puts
   the sub-directories in name order — except below a skipped directory, where `continue` jumps over the sort too. *)
Fixpoint walk_dirs (skip:bool) (d:path) (n:node) {struct n} : list (path * list entry) :=
  match n with
  | Dir es =>
      (if skip then [] else [(d, es)]) ++
      flat_map snd
        ((if skip then (fun l => l) else sort_by fst)
           ((fix sub (l:list entry) : list (str * list (path * list entry)) :=
               match l with
               | [] => []
               | (nm, c) :: r =>
                   (nm, match c with Dir _ => walk_dirs (ends_pycache nm) (d ++ [nm]) c | _ => [] end) :: sub r
               end) es))
  | _ => []
  end.

(* a listed path: real directory, entry name, the entry itself *)
Definition lentry := (path * str * node)%type.
Definition le_path (le:lentry) : path := fst (fst le) ++ [snd (fst le)].

Definition file_entries (T:node) (es:list entry) : list entry := filter (fun e => negb (is_dirlike T (snd e))) es.
(* `for filename in sorted(files): paths.append(os.path.join(root, filename))` *)
Definition files_here (T:node) (d:path) (es:list entry) : list lentry :=
  map (fun e => (d, fst e, snd e)) (sort_by fst (file_entries T es)).
(* filename.endswith((".py", ".pyc", ".pyo")) *)
Definition py_suffixed (n:str) : bool := suffixb s_py n || suffixb s_pyc n || suffixb s_pyo n.
(* `names = {filename.split(".")[0] for filename in files if filename.endswith((".py", ".pyc", ".pyo"))}`;
   everything os.listdir(__pycache__) returns whose stem is not among them *)
Definition pycache_here (T:node) (d:path) (es:list entry) : list lentry :=
  match find_entry s_pycache es with
  | Some (Dir ces) =>
      let names := map (fun e => stem (fst e)) (filter (fun e => py_suffixed (fst e)) (file_entries T es)) in
      map (fun e => (d ++ [s_pycache], fst e, snd e)) (filter (fun e => negb (mem_str (stem (fst e)) names)) ces)
  | _ => []
  end.
(* os.listdir on a __pycache__ that exists but is not a (real) directory raises; a link named __pycache__ is
   outside the model and is reported the same way *)
Definition pycache_bad (es:list entry) : bool :=
  match find_entry s_pycache es with
  | Some (Dir _) | None => false
  | Some _ => true
  end.
Definition here (T:node) (sl:bool) (de : path * list entry) : list lentry :=
  files_here T (fst de) (snd de) ++ (if sl then pycache_here T (fst de) (snd de) else []).

Definition listed_dirs (rec topskip:bool) (R:path) (n:node) : list (path * list entry) :=
  if rec then walk_dirs topskip R n
  else match n with
       | Dir es => if topskip then [] (* `continue` without `break`: lists whichever sub-directory scandir yields first;
                                          not modelled, excluded by inclass_C19 *)
                   else [(R, es)]
       | _ => []
       end.
Definition list_py_dir (T:node) (sl rec topskip:bool) (R:path) (n:node) : list lentry :=
  flat_map (here T sl) (listed_dirs rec topskip R n).
Definition list_py_dir_bad (sl rec topskip:bool) (R:path) (n:node) : bool :=
  sl && existsb (fun de => pycache_bad (snd de)) (listed_dirs rec topskip R n).

(* ------------------------------------------------------------------ Script._from_filename *)
Inductive fkind := KSrc | KC | KO.
Definition rev_prefix_ok (n:str) : bool := negb (prefixb s_lock n) && negb (prefixb s_init n).   (* (?!\.\#|__init__) *)
(* _sourceless_rev_file / _only_source_rev_file .match(filename): Some (group(1), group(2)).  Names are assumed
   not to contain "\n" ("." and "$" treat it specially). *)
Definition match_rev_file (sl:bool) (n:str) : option (str * fkind) :=
  if rev_prefix_ok n then
    if suffixb s_py n then Some (n, KSrc)
    else if sl then
      if suffixb s_pyc n then Some (removelast n, KC)
      else if suffixb s_pyo n then Some (removelast n, KO)
      else None
    else None
  else None.

Inductive fres := Skip | Loaded (id:N) | Fail.

(* os.path.splitext(filename)[1] is empty when only dots precede the last dot: load_python_file hits `assert False` *)
Definition ext_lost (nm:str) (k:fkind) : bool :=
  let n := match k with KSrc => 3%nat | _ => 4%nat end in
  forallb (N.eqb 46) (firstn (length nm - n) nm).
(* what a loaded Script is, as one number: the revision id and the identity of the module *)
Definition mkcode (rid tag:N) : N := rid * 65536 + tag.
Definition rid_of (code:N) : N := code / 65536.
Definition tag_of (code:N) : N := code mod 65536.

(* _legacy_rev = re.compile(r"([a-f0-9]+)\.py$").match(filename): the whole name is hex digits followed by ".py".
   The id string is encoded as a number: digits read in base 16 after a leading 1 (keeps leading zeros), plus 1000. *)
Definition is_hex (c:N) : bool := (N.leb 48 c && N.leb c 57) || (N.leb 97 c && N.leb c 102).
Definition hex_val (c:N) : N := if N.leb c 57 then c - 48 else c - 87.
Definition legacy_rev (nm:str) : option N :=
  if suffixb s_py nm then
    let h := firstn (length nm - 3) nm in
    if nonempty_l h && forallb is_hex h then Some (1000 + fold_left (fun v c => v * 16 + hex_val c) h 1) else None
  else None.
(* `module.revision`, or for a module without that attribute the id taken from the file name (else CommandError) *)
Definition module_revision (nm:str) (code:N) : option N :=
  if N.eqb (rid_of code) 0 then
    match legacy_rev nm with Some r => Some (mkcode r (tag_of code)) | None => None end
  else Some code.

(* util.load_python_file + the `revision` of the module.  No importlib loader is registered for ".pyo",
   load_module_py then uses SourcelessFileLoader explicitly: a .pyo holding valid byte code loads like a .pyc.
   (pyc_file_from_path is only reached for a listed ".py" name that does not exist: never, for a realpath.) *)
Definition load_python_file (nm:str) (k:fkind) (c:node) : fres :=
  if ext_lost nm k then Fail
  else match c with
       | File (Some code) => match module_revision nm code with Some r => Loaded r | None => Fail end
       | _ => Fail
       end.
Definition from_filename (T:node) (sl:bool) (le:lentry) : fres :=
  let '(d, nm, c) := le in
  match match_rev_file sl nm with
  | None => Skip
  | Some (pyname, k) =>
      let py_exists := exists_in T d pyname in
      let pyc_exists := exists_in T d (pyname ++ [99]) in
      if (match k with KSrc => false | KC => py_exists | KO => py_exists || pyc_exists end) then Skip
      else load_python_file nm k c
  end.

(* ------------------------------------------------------------------ ScriptDirectory._load_revisions *)
(* real_path = os.path.realpath(file_path); basename / dirname of it *)
Definition real_of (T:node) (le:lentry) : lentry :=
  match snd le with
  | Link t => match lookup T t with
              | Some c' => (removelast t, last t [], c')
              | None => le
              end
  | _ => le
  end.

(* the `dupes` set: keep the first occurrence of every real path *)
Fixpoint dedupe_paths (seen:list path) (l:list lentry) : list lentry :=
  match l with
  | [] => []
  | le :: r => if mem_path (le_path le) seen then dedupe_paths seen r
               else le :: dedupe_paths (le_path le :: seen) r
  end.

Fixpoint collect (l:list fres) : option (list N) :=
  match l with
  | [] => Some []
  | Skip :: r => collect r
  | Loaded id :: r => option_map (cons id) (collect r)
  | Fail :: r => None
  end.

(* RevisionMap._revision_map: one "present more than once" warning per revision whose id is already in the map *)
Fixpoint dup_ids (seen:list N) (ids:list N) : list N :=
  match ids with
  | [] => []
  | x :: r => if memN x seen then x :: dup_ids seen r else dup_ids (x :: seen) r
  end.

Inductive lerr := EValue | ELoad | EOther.     (* ValueError from from_config / anything raised while loading / impl side only *)
Inductive res (A:Type) := Ok (a:A) | Err (e:lerr).
Arguments Ok {A} a. Arguments Err {A} e.

(* RevisionMap._revision_map: `map_[revision.revision] = revision` — the last Script with an id stays *)
Fixpoint rev_map (ids:list N) : list N :=
  match ids with
  | [] => []
  | x :: r => if memN (rid_of x) (map rid_of r) then rev_map r else x :: rev_map r
  end.

Record obs := mkObs { o_ids : list N;      (* Scripts yielded by _load_revisions (codes), as a multiset *)
                      o_twice : N;         (* number of "File ... loaded twice! ignoring" warnings *)
                      o_dups : list N;     (* revision ids named by "Revision ... is present more than once", as a multiset *)
                      o_map : list N }.    (* the Scripts in the final revision map (codes), as a set *)

(* a resolved location: real path of the directory, the node there, and whether the configured
   (normalised, unresolved) name ends with __pycache__ *)
Definition rloc := (path * node * bool)%type.

Definition listing (T:node) (sl rec:bool) (locs:list rloc) : list lentry :=
  flat_map (fun l : rloc => list_py_dir T sl rec (snd l) (fst (fst l)) (snd (fst l))) locs.
Definition listing_bad (sl rec:bool) (locs:list rloc) : bool :=
  existsb (fun l : rloc => list_py_dir_bad sl rec (snd l) (fst (fst l)) (snd (fst l))) locs.

(* the loop of _load_revisions over the listed paths, in listing order, followed by the construction of the map *)
Definition load_listing (T:node) (sl:bool) (L:list lentry) : res obs :=
  let reals := map (real_of T) L in
  let uniq := dedupe_paths [] reals in
  match collect (map (from_filename T sl) uniq) with
  | None => Err ELoad
  | Some ids => Ok (mkObs ids (N.of_nat (length reals - length uniq)) (dup_ids [] (map rid_of ids)) (rev_map ids))
  end.
Definition load_from (T:node) (sl rec:bool) (locs:list rloc) : res obs :=
  if listing_bad sl rec locs then Err ELoad
  else load_listing T sl (listing T sl rec locs).

(* ------------------------------------------------------------------ from_config: version_locations *)
Inductive sep := SepNone | SepSpace | SepNewline | SepOs | SepColon | SepSemi | SepBad.
Definition sep_char (s:sep) : N :=
  match s with
  | SepSpace => 32 | SepNewline => 10 | SepOs => 58 (* os.pathsep, POSIX *) | SepColon => 58 | SepSemi => 59
  | _ => 0
  end.

(* str.strip(): white space of the ASCII / Latin-1 range *)
Definition is_ws (c:N) : bool :=
  (N.leb 9 c && N.leb c 13) || (N.leb 28 c && N.leb c 32) || N.eqb c 133 || N.eqb c 160.
Fixpoint lstrip (s:str) : str :=
  match s with
  | c :: r => if is_ws c then lstrip r else s
  | [] => []
  end.
Definition strip (s:str) : str := rev (lstrip (rev (lstrip s))).

Definition cons_head (x:N) (ps:list str) : list str :=
  match ps with p :: r => (x :: p) :: r | [] => [[x]] end.
(* s.split(c) *)
Fixpoint split_on (c:N) (s:str) : list str :=
  match s with
  | [] => [[]]
  | x :: r => if N.eqb x c then [] :: split_on c r else cons_head x (split_on c r)
  end.
(* re.compile(r", *|(?: +)").split(s); `skipping`: inside the run of spaces that belongs to the current match *)
Fixpoint split_legacy (skipping:bool) (s:str) : list str :=
  match s with
  | [] => [[]]
  | x :: r =>
      if N.eqb x 32 then (if skipping then split_legacy true r else [] :: split_legacy true r)
      else if N.eqb x 44 then [] :: split_legacy true r
      else cons_head x (split_legacy false r)
  end.
Definition nonempty (s:str) : bool := match s with [] => false | _ => true end.

(* the `version_locations` argument from_config passes to ScriptDirectory:
     legacy:    [x for x in _split_on_space_comma.split(s) if x]
     otherwise: [x.strip() for x in s.split(split_char) if x.strip()] *)
Definition split_locations (sp:sep) (s:option str) : res (option (list str)) :=
  match s with
  | None | Some [] => Ok None
  | Some s =>
      match sp with
      | SepBad => Err EValue
      | SepNone => Ok (Some (filter nonempty (split_legacy false s)))
      | _ => Ok (Some (map strip (filter (fun x => nonempty (strip x)) (split_on (sep_char sp) s))))
      end
  end.

(* os.path.abspath(util.coerce_resource_to_filename(location)) relative to the working directory = root of the tree.
   None: absolute outside the tree root, or a package resource ("pkg:dir"), or leaving the tree through ".." — outside the model. *)
Definition norm_step (acc:option path) (comp:str) : option path :=
  match acc with
  | None => None
  | Some st =>
      if nonempty comp && negb (str_eqb comp [46]) then
        if str_eqb comp [46;46] then (match st with [] => None | _ => Some (removelast st) end)
        else Some (st ++ [comp])
      else Some st
  end.
(* the harness writes absolute locations as "/R/..." where "/R" stands for the (delimiter-free) absolute path of the
   tree root = working directory; an absolute name is never taken for a package resource, so it may contain ":" *)
Definition s_root : str := [47;82].          (* "/R" *)
Definition norm_path (s:str) : option path :=
  if prefixb (s_root ++ [47]) s then fold_left norm_step (split_on 47 (skipn 2 s)) (Some [])
  else if prefixb [47] s || existsb (N.eqb 58) s then None
  else fold_left norm_step (split_on 47 s) (Some []).

(* ScriptDirectory._version_locations, as normalised paths *)
Definition version_locations (vl:option (list str)) : list (option path) :=
  match vl with
  | None | Some [] => [Some [s_sd; s_versions]]
  | Some l => map norm_path l
  end.

(* `paths = [vers for vers in self._version_locations if os.path.exists(vers)]` (the default location is not
   filtered, but os.walk of a missing directory yields nothing), each with what os.walk / realpath need *)
Definition resolve_loc (T:node) (p:option path) : list rloc :=
  match p with
  | None => []
  | Some p => match resolve T p with
              | Some (R, n) => [(R, n, ends_pycache (last p []))]
              | None => []
              end
  end.

Record input := mkInput { i_sep : sep; i_locs : option str; i_rec : bool; i_sl : bool; i_tree : node }.

Definition load_revisions (i:input) : res obs :=
  match split_locations (i_sep i) (i_locs i) with
  | Err e => Err e
  | Ok vl => load_from (i_tree i) (i_sl i) (i_rec i) (flat_map (resolve_loc (i_tree i)) (version_locations vl))
  end.
