(* C14 — the impl-level dispatch "operation -> constructs with their (table, column, schema, new name) arguments":
   DefaultImpl.alter_column / add_column / drop_column / rename_table (alembic/ddl/impl.py) and the overrides
   MySQLImpl.alter_column (mysql.py), MSSQLImpl.alter_column / drop_column (mssql.py), PostgresqlImpl.alter_column
   (postgresql.py); sqlite and oracle use the default.  Only what decides WHICH constructs are built, in which order,
   and WHICH NAMES they are given is modelled (types, defaults and comments are opaque texts); server defaults are plain
   strings (no Identity / Computed), types have no DateTime affinity (so MySQL's functional-default CHANGE branch is
   off) and carry no type-bound constraint.  No proofs here. *)
From Coq Require Import List NArith Bool.
From AV Require Import Base.ListSet Model.Quote Model.C14Reserved Model.Visitors.
Import ListNotations.
Open Scope N_scope.

Inductive tri := TNone | TTrue | TFalse.                (* Optional[bool] *)
Inductive dreq := DKeep | DDrop | DSet.                 (* False (not requested) | None | a value *)

Record areq := mkReq {
  r_nullable : tri;
  r_default : dreq;          (* server_default *)
  r_rename : bool;           (* new_column_name given *)
  r_type : bool;             (* type_ given *)
  r_comment : dreq;
  r_autoinc : tri;           (* autoincrement *)
  r_ex_type : bool;          (* existing_type given *)
  r_ex_nullable : tri;
  r_ex_default : dreq;       (* existing_server_default: False (the default of op.alter_column) | None | a string *)
  r_ex_comment : bool;
  r_ex_autoinc : bool;       (* existing_autoincrement truthy *)
  r_using : bool             (* postgresql_using given *)
}.

Inductive op :=
| OpRenameTable
| OpAddColumn
| OpDropColumn (mssql_drop_default mssql_drop_check mssql_drop_foreign_key : bool)
| OpAlterColumn (r:areq)
| OpCreateTableComment                  (* impl.create_table_comment(table): SQLAlchemy's SetTableComment *)
| OpDropTableComment                    (* impl.drop_table_comment(table): SQLAlchemy's DropTableComment *)
| OpAddColumnComment                    (* op.add_column of a Column carrying a comment *)
| OpCreateExclude (has_where:bool).     (* postgresql.CreateExcludeConstraintOp: impl.add_constraint(op.to_constraint()) *)

(* the names an operation is called with *)
Record names := mkNames { n_schema : option str; n_table : str; n_newtable : str; n_column : str; n_newcolumn : str;
                          n_flags : flags }.   (* the quoted_name flags travel with the name objects *)

(* one construct as built by the impl: its kind and the names it is GIVEN (positional / keyword arguments of the
   Python constructor call; a slot that is not a parameter of that constructor is filled from the operation) *)
Inductive pstep :=
| SEmit (c:construct) (table:str) (column:str) (schema:option str) (newname:str) (newtable:str)
| SRaise (e:c14_err).

Definition is_given (t:tri) : bool := match t with TNone => false | _ => true end.
Definition truthy (t:tri) : bool := match t with TTrue => true | _ => false end.
Definition requested (d:dreq) : bool := match d with DKeep => false | _ => true end.
Definition is_set (d:dreq) : bool := match d with DSet => true | _ => false end.

Section Dispatch.
Variable n : names.

(* AlterColumn subclasses: cls(table_name, column_name, <value>, schema=schema, ...) *)
Definition alter (c:construct) (table column:str) (schema:option str) : pstep :=
  SEmit c table column schema (n_newcolumn n) (n_newtable n).
(* ColumnName(table_name, column_name, name, schema=schema), MySQLChangeColumn(..., newname=...) *)
Definition alter_named (c:construct) (table column:str) (schema:option str) (newname:str) : pstep :=
  SEmit c table column schema newname (n_newtable n).

(* DefaultImpl.alter_column *)
Definition default_alter (nullable:tri) (default:dreq) (rename:bool) (type_:bool) (comment:dreq) : list pstep :=
  (if is_given nullable then [alter (CColumnNullable (truthy nullable)) (n_table n) (n_column n) (n_schema n)] else [])
  ++ (if requested default then [alter (CColumnDefault (is_set default)) (n_table n) (n_column n) (n_schema n)] else [])
  ++ (if type_ then [alter CColumnType (n_table n) (n_column n) (n_schema n)] else [])
  ++ (if requested comment then [alter (CColumnComment (is_set comment)) (n_table n) (n_column n) (n_schema n)] else [])
  ++ (if rename then [alter_named CColumnName (n_table n) (n_column n) (n_schema n) (n_newcolumn n)] else []).

(* PostgresqlImpl.alter_column *)
Definition pg_alter (r:areq) : list pstep :=
  if r_using r && negb (r_type r) then [SRaise ECommand]
  else (if r_type r then [alter (CPgColumnType (r_using r)) (n_table n) (n_column n) (n_schema n)] else [])
       ++ default_alter (r_nullable r) (r_default r) (r_rename r) false (r_comment r).

(* MySQLImpl.alter_column *)
Definition mysql_flags (r:areq) : bool * bool * bool * bool :=
  (match r_nullable r with TNone => (match r_ex_nullable r with TNone => true | t => truthy t end) | t => truthy t end,
   match r_autoinc r with TNone => r_ex_autoinc r | t => truthy t end,
   match r_default r with DSet => true | DDrop => false | DKeep => is_set (r_ex_default r) end,
   match r_comment r with DSet => true | DDrop => false | DKeep => r_ex_comment r end).

Definition mysql_alter (r:areq) : list pstep :=
  let '(nl, ai, df, cm) := mysql_flags r in
  let has_type := r_type r || r_ex_type r in
  if r_rename r then
    (if has_type then [alter_named (CMysqlChange nl ai df cm) (n_table n) (n_column n) (n_schema n) (n_newcolumn n)]
     else [SRaise ECommand])
  else if is_given (r_nullable r) || r_type r || is_given (r_autoinc r) || requested (r_comment r) then
    (if has_type then [alter_named (CMysqlModify nl ai df cm) (n_table n) (n_column n) (n_schema n) (n_column n)]
     else [SRaise ECommand])
  else if requested (r_default r) then
    [alter (CMysqlAlterDefault (is_set (r_default r))) (n_table n) (n_column n) (n_schema n)]
  else [].

(* MSSQLImpl.alter_column *)
Definition mssql_alter (r:areq) : list pstep :=
  if is_given (r_nullable r) && negb (r_type r) && negb (r_ex_type r) then [SRaise ECommand]
  else
    let '(nullable, type_) :=
      if is_given (r_nullable r) then (r_nullable r, false)
      else if is_given (r_ex_nullable r) && r_type r then (r_ex_nullable r, false)
      else (TNone, r_type r) in
    default_alter nullable DKeep false type_ (r_comment r)
    ++ (if requested (r_default r) then
          (* if existing_server_default is not False or server_default is None *)
          (if requested (r_ex_default r) || negb (is_set (r_default r))
           then [alter CMssqlDropConstraint (n_table n) (n_column n) (n_schema n)] else [])
          ++ (if is_set (r_default r) then default_alter TNone DSet false false DKeep else [])
        else [])
    ++ (if r_rename r then default_alter TNone DKeep true false DKeep else []).

Definition plan (d:dialect) (o:op) : list pstep :=
  match o with
  | OpRenameTable =>                       (* RenameTable(old_table_name, new_table_name, schema=schema) *)
      [SEmit CRenameTable (n_table n) (n_column n) (n_schema n) (n_newcolumn n) (n_newtable n)]
  | OpAddColumn =>                         (* AddColumn(table_name, column, schema=schema) *)
      [alter (CAddColumn false) (n_table n) (n_column n) (n_schema n)]
  | OpDropColumn df ck fk =>
      (match d with
       | Mssql =>                          (* _ExecDropConstraint(table_name, column, "sys...", schema) *)
           (if df then [alter CMssqlDropConstraint (n_table n) (n_column n) (n_schema n)] else [])
           ++ (if ck then [alter CMssqlDropConstraint (n_table n) (n_column n) (n_schema n)] else [])
           ++ (if fk then [alter CMssqlDropFK (n_table n) (n_column n) (n_schema n)] else [])
       | _ => []
       end)
      ++ [alter CDropColumn (n_table n) (n_column n) (n_schema n)]   (* DropColumn(table_name, column, schema=schema) *)
  | OpCreateTableComment => [alter (CForeign FSetTableComment) (n_table n) (n_column n) (n_schema n)]
  | OpDropTableComment => [alter (CForeign FDropTableComment) (n_table n) (n_column n) (n_schema n)]
  | OpAddColumnComment =>
      alter (CAddColumn false) (n_table n) (n_column n) (n_schema n)
      :: (* dialect.supports_comments and not dialect.inline_comments: impl.create_column_comment(column) *)
         (match family d with
          | Postgresql | Oracle | Mssql => [alter (CForeign FSetColumnComment) (n_table n) (n_column n) (n_schema n)]
          | _ => []
          end)
  | OpCreateExclude w =>
      (* to_constraint: schema_obj.table(self.table_name, schema=self.schema); ExcludeConstraint(elements..., name=...) *)
      [alter_named (CPgExclude w) (n_table n) (n_column n) (n_schema n) (n_newcolumn n)]
  | OpAlterColumn r =>
      match family d with                  (* MariaDBImpl is MySQLImpl *)
      | Postgresql => pg_alter r
      | Mysql => mysql_alter r
      | Mssql => mssql_alter r
      | Sqlite | Oracle | Mariadb => default_alter (r_nullable r) (r_default r) (r_rename r) (r_type r) (r_comment r)
      end
  end.
End Dispatch.

(* what the run of an operation shows: per construct handed to _exec its kind, the names it carries and what it
   emitted (or the exception its compilation raised, which ends the operation), and an exception raised by the impl
   itself before/between constructs *)
Record ostep := mkO {
  o_c : construct; o_table : str; o_column : str; o_schema : option str; o_newname : str; o_newtable : str;
  o_out : c14_out
}.

Definition step_env (fl:flags) (table column:str) (schema:option str) (newname newtable:str) (opq:list str) : env :=
  mkEnv schema table newtable column newname opq fl.

Fixpoint run_plan (d:dialect) (fl:flags) (opqs:list (list str)) (p:list pstep) : list ostep * option c14_err :=
  match p with
  | [] => ([], None)
  | SRaise e :: _ => ([], Some e)
  | SEmit c t col sc nn nt :: r =>
      let out := emit_stmt (d, c, step_env fl t col sc nn nt (hd [] opqs)) in
      match out with
      | OutErr _ => ([mkO c t col sc nn nt out], None)
      | OutSql _ _ => let '(l, e) := run_plan d fl (tl opqs) r in (mkO c t col sc nn nt out :: l, e)
      end
  end.

Definition run_op (d:dialect) (o:op) (n:names) (opqs:list (list str)) : list ostep * option c14_err :=
  run_plan d (n_flags n) opqs (plan n d o).
