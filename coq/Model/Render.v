(* C08 model: alembic/autogenerate/render.py transcribed at the level of Python call trees, and the
   reading-back of such a tree by the Operations proxies (alembic/operations/ops.py classmethods).
   Every string leaf records how the real renderer turns the field into text: ViaRepr (the %r conversion,
   repr(), _ident followed by %r) or ViaRawQuote (text pasted between quote characters; after the repairs of
   the table-comment and table-prefix renderers no renderer does that any more).
   No proofs here. *)
From Coq Require Import String Ascii.
From AV Require Export Model.PyRepr.

(* string literals of the renderer as code point lists *)
Definition lit (s:string) : str := map N_of_ascii (list_ascii_of_string s).

(* ---------------------------------------------------------------- call trees *)
Inductive how := ViaRepr | ViaRawQuote.

Inductive pyexpr :=
| PCall (path : list str) (args : list pyexpr)       (* a.b.c(arg, ..., kw=arg, ...) *)
| PKw (k : str) (v : pyexpr)                          (* keyword argument; occurs only in argument lists *)
| PStr (h : how) (s : str)
| PBool (b : bool)
| PNone
| PInt (neg : bool) (digits : str)
| PList (l : list pyexpr)
| PTuple (l : list pyexpr).

Inductive pystmt :=
| SExpr (e : pyexpr)
| SWith (e : pyexpr) (body : list pyexpr).            (* with <e> as batch_op: <body> *)

(* printing: first to tokens, then to text *)
Inductive ptok := TName (s:str) | TPunct (c:N) | TStr (h:how) (s:str) | TNum (digits:str).

Fixpoint commas (l : list (list ptok)) : list ptok :=
  match l with
  | [] => []
  | x :: r => x ++ match r with [] => [] | _ => TPunct 44 :: commas r end
  end.
Fixpoint dotted (p : list str) : list ptok :=
  match p with
  | [] => []
  | x :: r => TName x :: match r with [] => [] | _ => TPunct 46 :: dotted r end
  end.

Fixpoint toks (e:pyexpr) : list ptok :=
  match e with
  | PCall path args => dotted path ++ TPunct 40 :: commas (map toks args) ++ [TPunct 41]
  | PKw k v => TName k :: TPunct 61 :: toks v
  | PStr h s => [TStr h s]
  | PBool true => [TName (lit "True")]
  | PBool false => [TName (lit "False")]
  | PNone => [TName (lit "None")]
  | PInt neg d => (if neg then [TPunct 45] else []) ++ [TNum d]
  | PList l => TPunct 91 :: commas (map toks l) ++ [TPunct 93]
  | PTuple l => TPunct 40 :: commas (map toks l) ++ (match l with [_] => [TPunct 44] | _ => [] end) ++ [TPunct 41]
  end.

Definition wordy (t:ptok) : bool := match t with TPunct _ => false | _ => true end.
Definition needs_space (a b : ptok) : bool :=
  (wordy a && wordy b) || match a, b with TNum _, TPunct 46 => true | _, _ => false end.

Section Print.
  Variable printable : N -> bool.
  Definition tok_text (t:ptok) : str :=
    match t with
    | TName s => s
    | TPunct c => [c]
    | TStr ViaRepr s => py_repr printable s
    | TStr ViaRawQuote s => raw_quote s
    | TNum d => d
    end.
  Fixpoint untok (l : list ptok) : str :=
    match l with
    | [] => []
    | t :: r => tok_text t ++ (match r with t' :: _ => if needs_space t t' then [32%N] else [] | [] => [] end) ++ untok r
    end.
  Definition print (e:pyexpr) : str := untok (toks e).
  (* tokens each preceded by explicit whitespace (text modelled character by character) *)
  Definition untokw (l:list (str * ptok)) (tail:str) : str :=
    flat_map (fun wt => fst wt ++ tok_text (snd wt)) l ++ tail.
End Print.
Definition wtoks := list (str * ptok).
Definition is_ws (w:str) : bool := forallb is_space w.
Fixpoint seps_ok (prev:option ptok) (l:wtoks) : bool :=
  match l with
  | [] => true
  | (w, t) :: r => is_ws w && (match prev with Some p => negb (needs_space p t) || (match w with [] => false | _ => true end) | None => true end)
                   && seps_ok (Some t) r
  end.

Definition erase (t:ptok) : pytoken :=
  match t with TName s => Name s | TPunct c => Punct c | TStr _ s => StrTok s | TNum d => NumTok d end.
Definition tokens (e:pyexpr) : list pytoken := map erase (toks e).

Definition via_repr_tok (t:ptok) : bool := match t with TStr ViaRawQuote _ => false | _ => true end.
Definition all_leaves_via_repr (e:pyexpr) : bool := forallb via_repr_tok (toks e).

(* well-formed tokens: what the lexer theorem needs *)
Definition valid_ident (s:str) : bool :=
  match s with [] => false | c :: r => is_ident_start c && forallb is_ident_char r end.
Definition valid_digits (d:str) : bool :=
  match d with [] => false | [c] => is_digit c | c :: r => is_digit c && negb (c =? 48)%N && forallb is_digit r end.
Definition wf_tok (t:ptok) : bool :=
  match t with
  | TName s => valid_ident s
  | TPunct c => is_punct c
  | TStr _ s => valid_strb s
  | TNum d => valid_digits d
  end.
Definition wf_expr (e:pyexpr) : bool := forallb wf_tok (toks e).

(* ---------------------------------------------------------------- the operation objects (abstracted) *)
Record ident := mkId { i_s : str; i_q : option bool }.      (* str or quoted_name(s, quote=q) *)
Inductive cname := NoName | Plain (i:ident) | Conv (s:str). (* None | str | sqlalchemy conv() *)

Inductive tymod := TySa | TyDialect (d:str).                (* type(type_).__module__: sqlalchemy.* / sqlalchemy.dialects.<d> *)
Record tytok := mkTy { ty_mod : tymod; ty_path : list str; ty_args : list pyexpr }.   (* repr(type_) as a call tree: opaque *)

(* integers as written: sign and decimal digits *)
Definition pint := (bool * str)%type.
(* sqla_compat._get_identity_options_dict: always is always there, the others when not None, in this order *)
Record identity := mkIdn { id_always : option bool; id_on_null : option bool; id_start : option pint; id_increment : option pint;
                           id_minvalue : option pint; id_maxvalue : option pint; id_nominvalue : option bool;
                           id_nomaxvalue : option bool; id_cycle : option bool; id_cache : option pint; id_order : option bool }.
(* the dialect options of an index that are modelled: postgresql_using, postgresql_where (its rendered SQL), postgresql_concurrently *)
Record ixkw := mkIxKw { k_using : option str; k_where : option str; k_conc : option bool }.

Inductive sdefault :=
| SdStr (s:str)                               (* DefaultClause(str) or a plain str *)
| SdText (s:str)                              (* DefaultClause(ClauseElement): s = render_ddl_sql_expr text (opaque) *)
| SdComputed (s:str) (persisted:option bool)  (* Computed(sqltext, persisted=) *)
| SdIdentity (i:identity)                     (* Identity(always=, on_null=, start=, ...) *)
| SdFetched.                                  (* a plain FetchedValue() (exactly that class) *)

(* c_key: Column.key when it differs from the database name (what the ORM produces for uname = mapped_column("user_name"));
   every renderer must address the column by c_name *)
Record column := mkCol { c_name : ident; c_type : tytok; c_default : option sdefault; c_autoinc : option bool;
                         c_nullable : bool; c_system : bool; c_comment : option str; c_key : option str }.
(* the referred column of a foreign key, as render._fk_colspec sees it:
     rf_tokens  ForeignKey._get_colspec() (which names the column by its KEY) split at the dots: [table; key],
                [schema; table; key] or, for a dotted schema such as otherdb.dbo, [otherdb; dbo; table; key];
     rf_named   the database NAME of the referred column when _fk_colspec finds the referred table -- looked up under
                ALL the tokens but the last, joined again -- in the namespace MetaData.
   The rendered spec is that full table name, a dot, and the name (the key when the table was not found). *)
Record refcol := mkRef { rf_tokens : list str; rf_named : option str }.
Fixpoint join_dot (l:list str) : str :=
  match l with [] => [] | [x] => x | x :: r => x ++ 46%N :: join_dot r end.
Definition ref_text (r:refcol) : str :=
  match rev (rf_tokens r) with
  | [] => []
  | k :: tbl_rev => join_dot (rev tbl_rev ++ [match rf_named r with Some n => n | None => k end])
  end.

Inductive tcons :=
| CPk (cols : list ident) (name : cname)
| CFk (cols : list ident) (refcols : list refcol) (name : cname)
      (onupdate ondelete initially : option str) (deferrable : option bool) (use_alter : bool) (match_ : option str)
| CUq (cols : list ident) (name : cname) (deferrable : option bool) (initially : option str)
| CCk (sqltext : str) (name : cname).

Record table := mkTable { t_name : ident; t_schema : option ident; t_cols : list column; t_cons : list tcons;
                          t_comment : option str; t_prefixes : list str; t_if_not_exists : option bool }.

Inductive ixexpr := IxCol (i:ident) (key:option str) | IxExpr (sqltext:str).     (* key: as for c_key *)

(* modify_server_default / modify_comment: False = leave alone, None = drop, value = set *)
Inductive tri (A:Type) := Keep | SetNone | SetTo (a:A).
Arguments Keep {A}. Arguments SetNone {A}. Arguments SetTo {A} a.

Record altercol := mkAlter {
  a_col : ident; a_existing_type : option tytok; a_server_default : tri sdefault; a_new_name : option ident;
  a_type : option tytok; a_nullable : option bool; a_comment : tri str; a_existing_comment : option str;
  a_existing_nullable : option bool; a_autoincrement : option bool; a_existing_server_default : option sdefault }.

Record fkop := mkFk {
  f_name : cname; f_referent : ident; f_local : list ident; f_remote : list ident;
  f_source_schema : option str; f_referent_schema : option str; f_onupdate : option str; f_ondelete : option str;
  f_initially : option str; f_deferrable : option bool; f_use_alter : option bool; f_match : option str }.

(* operations on one table; the table name and schema are carried by the enclosing position *)
Inductive tbl_op :=
| OAddColumn (c : column)
| ODropColumn (c : ident)
| OAlterColumn (a : altercol)
| OCreateIndex (name : cname) (exprs : list ixexpr) (unique : option bool) (if_not_exists : option bool) (kw : ixkw)
| ODropIndex (name : cname) (if_exists : option bool) (name_stable : bool) (kw : ixkw)
      (* name_stable: replacing the expressions the operation object remembers (its _reverse) by the dummy column that
         DropIndexOp.to_index uses when it remembers none does not change the name the naming convention in force gives
         the index.  False only for an index without any table-bound column under a convention with a
         constraint_name token: such an index keeps its plain name, one over a table column is renamed. *)
| OCreateUnique (name : cname) (cols : list ident) (deferrable : option bool) (initially : option str)
| OCreateFk (f : fkop)
| ODropConstraint (name : cname) (type_ : option ident)
| OCreateTableComment (comment : option str) (existing : option str)
| ODropTableComment (existing : option str).

Inductive top_op :=
| TCreateTable (t : table)
| TOpaque                                                            (* an operation outside the modelled universe: no statement *)
| TExecute (sql : str)                                               (* ExecuteSQLOp with a plain SQL string *)
| TDropTable (name : ident) (schema : option ident) (if_exists : option bool) (schema_types : bool)
      (* schema_types: the operation object carries columns whose types have DDL of their own on some dialect
         (a native Enum: DROP TYPE on PostgreSQL); the renderer never looks at the columns *)
| TOp (tname : ident) (schema : option ident) (o : tbl_op)           (* a table-level operation outside a ModifyTableOps *)
| TModify (tname : ident) (schema : option ident) (ops : list (ident * option ident * tbl_op)).
      (* ModifyTableOps(table_name, ops, schema): every member carries its own table name and schema *)

Record cfg := mkCfg { cfg_op : str; cfg_sa : str; cfg_batch : bool; cfg_nc : bool }.
   (* cfg_nc: the MetaData naming convention in force has %(constraint_name)s tokens, so that a plain name given to
      a constraint / index is expanded once more while a conv() name (rendered op.f(...)) is final *)   (* alembic_module_prefix, sqlalchemy_module_prefix (one dotted name each), render_as_batch *)

(* ---------------------------------------------------------------- helpers of render.py *)
Definition Sr (s:str) : pyexpr := PStr ViaRepr s.
Definition okw (k:string) (v:option pyexpr) : list pyexpr := match v with Some e => [PKw (lit k) e] | None => [] end.
Definition truthy (s:option ident) : option ident := match s with Some i => (match i_s i with [] => None | _ => Some i end) | None => None end.
Definition truthy_s (s:option str) : option str := match s with Some [] => None | x => x end.

(* _alembic_autogenerate_prefix *)
Definition aprefix (c:cfg) (has_batch:bool) : str := if has_batch then lit "batch_op" else cfg_op c.
(* _ident: drops the quote flag *)
Definition id_ (i:ident) : pyexpr := Sr (i_s i).

(* _render_gen_name followed by repr() *)
Definition rname (c:cfg) (hb:bool) (n:cname) : pyexpr :=
  match n with
  | NoName => PNone
  | Plain i => id_ i
  | Conv s => PCall [aprefix c hb; lit "f"] [Sr s]
  end.
Definition has_name (n:cname) : bool := match n with NoName => false | Plain i => (match i_s i with [] => false | _ => true end) | Conv s => (match s with [] => false | _ => true end) end.

(* _repr_type: module prefix + repr(type_) *)
Definition repr_type (c:cfg) (t:tytok) : pyexpr :=
  match ty_mod t with
  | TySa => PCall (cfg_sa c :: ty_path t) (ty_args t)
  | TyDialect d => PCall (d :: ty_path t) (ty_args t)
  end.

(* re.sub(r"^'|'$", "", default): a leading quote, and a quote at the very end or just before a final newline *)
Definition strip_quotes (s:str) : str :=
  let r := match s with c :: r => if (c =? c_sq)%N then r else s | [] => s end in
  match rev r with
  | c :: t => if (c =? c_sq)%N then rev t
              else if (c =? 10)%N then (match t with c2 :: t2 => if (c2 =? c_sq)%N then rev (10%N :: t2) else r | [] => r end)
              else r
  | [] => r
  end.

(* keyword arguments: a list of (name, optional value); absent values are not rendered *)
Definition kwlist (l : list (string * option pyexpr)) : list pyexpr := flat_map (fun kv => okw (fst kv) (snd kv)) l.
Definition when (b:bool) (e:pyexpr) : option pyexpr := if b then Some e else None.
Definition opt_s (s:option str) : option pyexpr := option_map Sr s.
Definition opt_b (x:option bool) : option pyexpr := option_map PBool x.
Definition opt_i (x:option ident) : option pyexpr := option_map id_ x.
Definition or_none {A} (f:A -> pyexpr) (x:option A) : pyexpr := match x with Some a => f a | None => PNone end.
Definition tri_v {A} (f:A -> pyexpr) (t:tri A) : option pyexpr :=
  match t with Keep => None | SetNone => Some PNone | SetTo a => Some (f a) end.

Definition opt_n (x:option pint) : option pyexpr := option_map (fun p => PInt (fst p) (snd p)) x.
(* _render_dialect_kwargs_items for the modelled index options: _render_potential_expr of each value *)
Definition ixkw_items (c:cfg) (k:ixkw) : list (string * option pyexpr) :=
  [("postgresql_using"%string, opt_s (k_using k));
   ("postgresql_where"%string, option_map (fun s => PCall [cfg_sa c; lit "text"] [Sr s]) (k_where k));
   ("postgresql_concurrently"%string, opt_b (k_conc k))].

(* _render_server_default *)
Definition render_server_default (c:cfg) (d:sdefault) : pyexpr :=
  match d with
  | SdStr s => Sr (strip_quotes s)
  | SdText s => PCall [cfg_sa c; lit "text"] [Sr s]
  | SdComputed s p => PCall [cfg_sa c; lit "Computed"] (Sr s :: kwlist [("persisted"%string, opt_b p)])
  | SdIdentity i =>                                  (* _render_identity *)
      PCall [cfg_sa c; lit "Identity"]
        (kwlist [("always"%string, Some (or_none PBool (id_always i))); ("on_null"%string, opt_b (id_on_null i));
                 ("start"%string, opt_n (id_start i)); ("increment"%string, opt_n (id_increment i));
                 ("minvalue"%string, opt_n (id_minvalue i)); ("maxvalue"%string, opt_n (id_maxvalue i));
                 ("nominvalue"%string, opt_b (id_nominvalue i)); ("nomaxvalue"%string, opt_b (id_nomaxvalue i));
                 ("cycle"%string, opt_b (id_cycle i)); ("cache"%string, opt_n (id_cache i)); ("order"%string, opt_b (id_order i))])
  | SdFetched => PCall [cfg_sa c; lit "FetchedValue"] []
  end.
(* _should_render_server_default_positionally *)
Definition positional_default (d:sdefault) : bool := match d with SdComputed _ _ | SdIdentity _ => true | _ => false end.
Definition pos_default (c:cfg) (d:option sdefault) : list pyexpr :=
  match d with Some d => if positional_default d then [render_server_default c d] else [] | None => [] end.
Definition kw_default (c:cfg) (d:option sdefault) : option pyexpr :=
  match d with Some d => if positional_default d then None else Some (render_server_default c d) | None => None end.

(* _render_column *)
Definition render_column (c:cfg) (col:column) : pyexpr :=
  PCall [cfg_sa c; lit "Column"]
    ([id_ (c_name col); repr_type c (c_type col)] ++ pos_default c (c_default col)
     ++ kwlist [("server_default"%string, kw_default c (c_default col));
                ("autoincrement"%string, opt_b (c_autoinc col));
                ("nullable"%string, Some (PBool (c_nullable col)));
                ("system"%string, when (c_system col) (PBool true));
                ("comment"%string, opt_s (truthy_s (c_comment col)))]).

(* the constraint renderers used inside create_table *)
Definition opt_name (c:cfg) (n:cname) : option pyexpr := when (has_name n) (rname c false n).
Definition render_constraint (c:cfg) (k:tcons) : option pyexpr :=
  match k with
  | CPk cols n =>
      match cols with
      | [] => None
      | _ => Some (PCall [cfg_sa c; lit "PrimaryKeyConstraint"] (map id_ cols ++ kwlist [("name"%string, opt_name c n)]))
      end
  | CFk cols refcols n onupdate ondelete initially deferrable use_alter match_ =>
      Some (PCall [cfg_sa c; lit "ForeignKeyConstraint"]
        ([PList (map id_ cols); PList (map (fun r => Sr (ref_text r)) refcols)]
         ++ kwlist [("name"%string, opt_name c n); ("onupdate"%string, opt_s (truthy_s onupdate)); ("ondelete"%string, opt_s (truthy_s ondelete));
                    ("initially"%string, opt_s (truthy_s initially)); ("deferrable"%string, opt_b deferrable);
                    ("use_alter"%string, when use_alter (PBool true)); ("match"%string, opt_s (truthy_s match_))]))
  | CUq cols n deferrable initially =>
      Some (PCall [cfg_sa c; lit "UniqueConstraint"]
        (map id_ cols ++ kwlist [("deferrable"%string, opt_b deferrable); ("initially"%string, opt_s (truthy_s initially)); ("name"%string, opt_name c n)]))
  | CCk sqltext n => Some (PCall [cfg_sa c; lit "CheckConstraint"] ([Sr sqltext] ++ kwlist [("name"%string, opt_name c n)]))
  end.
Fixpoint somes {A} (l : list (option A)) : list A :=
  match l with [] => [] | Some a :: r => a :: somes r | None :: r => somes r end.

(* _add_table.  The constraints are rendered in the order given (the real renderer sorts their texts;
   the harness compares them as a set) *)
Definition render_create_table (c:cfg) (t:table) : pyexpr :=
  PCall [cfg_op c; lit "create_table"]
    ((id_ (t_name t) :: map (render_column c) (t_cols t) ++ somes (map (render_constraint c) (t_cons t)))
     ++ kwlist [("schema"%string, opt_i (truthy (t_schema t)));
                ("comment"%string, opt_s (truthy_s (t_comment t)));
                ("prefixes"%string, match t_prefixes t with [] => None | ps => Some (PList (map Sr ps)) end);
                ("if_not_exists"%string, opt_b (t_if_not_exists t))]).

Definition render_drop_table (c:cfg) (n:ident) (schema:option ident) (if_exists:option bool) : pyexpr :=
  PCall [cfg_op c; lit "drop_table"]
    ([id_ n] ++ kwlist [("schema"%string, opt_i (truthy schema)); ("if_exists"%string, opt_b if_exists)]).

Definition render_ixexpr (c:cfg) (e:ixexpr) : pyexpr :=
  match e with IxCol i _ => id_ i | IxExpr s => PCall [cfg_sa c; lit "literal_column"] [Sr s] end.

(* the renderers of the table-level operations; hb = autogen_context._has_batch *)
Definition render_tbl_op (c:cfg) (hb:bool) (tn:ident) (schema:option ident) (o:tbl_op) : pyexpr :=
  let p := aprefix c hb in
  let tbl := if hb then [] else [id_ tn] in
  let sch := if hb then None else opt_i (truthy schema) in
  match o with
  | OAddColumn col => PCall [p; lit "add_column"] ((tbl ++ [render_column c col]) ++ kwlist [("schema"%string, sch)])
  | ODropColumn cn => PCall [p; lit "drop_column"] ((tbl ++ [id_ cn]) ++ kwlist [("schema"%string, sch)])
  | OAlterColumn a =>
      PCall [p; lit "alter_column"]
        ((tbl ++ [id_ (a_col a)])
         ++ kwlist [("existing_type"%string, option_map (repr_type c) (a_existing_type a));
                    ("server_default"%string, tri_v (render_server_default c) (a_server_default a));
                    ("new_column_name"%string, opt_i (a_new_name a));
                    ("type_"%string, option_map (repr_type c) (a_type a));
                    ("nullable"%string, opt_b (a_nullable a));
                    ("comment"%string, tri_v Sr (a_comment a));
                    ("existing_comment"%string, opt_s (a_existing_comment a));
                    ("existing_nullable"%string, match a_nullable a with None => opt_b (a_existing_nullable a) | Some _ => None end);
                    ("autoincrement"%string, opt_b (a_autoincrement a));
                    ("existing_server_default"%string,
                       match a_server_default a with
                       | Keep => option_map (render_server_default c) (a_existing_server_default a)
                       | _ => None end);
                    ("schema"%string, sch)])
  | OCreateIndex n exprs unique ine k =>
      PCall [p; lit "create_index"]
        (([rname c hb n] ++ tbl ++ [PList (map (render_ixexpr c) exprs)])
         ++ kwlist ([("unique"%string, Some (PBool (match unique with Some b => b | None => false end))); ("schema"%string, sch)]
                    ++ ixkw_items c k ++ [("if_not_exists"%string, opt_b ine)]))
  | ODropIndex n ie _ k =>
      PCall [p; lit "drop_index"]
        ([rname c hb n] ++ kwlist ([("table_name"%string, if hb then None else Some (id_ tn)); ("schema"%string, sch)]
                                   ++ ixkw_items c k ++ [("if_exists"%string, opt_b ie)]))
  | OCreateUnique n cols deferrable initially =>
      PCall [p; lit "create_unique_constraint"]
        (([rname c hb n] ++ tbl ++ [PList (map id_ cols)])
         ++ kwlist [("deferrable"%string, opt_b deferrable); ("initially"%string, opt_s (truthy_s initially)); ("schema"%string, sch)])
  | OCreateFk f =>
      PCall [p; lit "create_foreign_key"]
        (([rname c hb (f_name f)] ++ tbl ++ [id_ (f_referent f); PList (map id_ (f_local f)); PList (map id_ (f_remote f))])
         ++ kwlist [("source_schema"%string, if hb then None else opt_s (f_source_schema f));
                    ("referent_schema"%string, opt_s (f_referent_schema f));
                    ("onupdate"%string, opt_s (f_onupdate f)); ("ondelete"%string, opt_s (f_ondelete f));
                    ("initially"%string, opt_s (f_initially f)); ("deferrable"%string, opt_b (f_deferrable f));
                    ("use_alter"%string, opt_b (f_use_alter f)); ("match"%string, opt_s (f_match f))])
  | ODropConstraint n ty =>
      PCall [p; lit "drop_constraint"] (([rname c hb n] ++ tbl) ++ kwlist [("schema"%string, sch); ("type_"%string, opt_i (truthy ty))])
  | OCreateTableComment comment existing =>
      PCall [p; lit "create_table_comment"]
        ((tbl ++ [or_none Sr comment])
         ++ kwlist [("existing_comment"%string, Some (or_none Sr existing)); ("schema"%string, if hb then None else Some (or_none id_ schema))])
  | ODropTableComment existing =>
      PCall [p; lit "drop_table_comment"]
        (tbl ++ kwlist [("existing_comment"%string, Some (or_none Sr existing)); ("schema"%string, if hb then None else Some (or_none id_ schema))])
  end.

(* render_op / _render_modify_table / _render_cmd_body *)
Definition render_top (c:cfg) (o:top_op) : list pystmt :=
  match o with
  | TCreateTable t => [SExpr (render_create_table c t)]
  | TOpaque => []
  | TExecute sql => [SExpr (PCall [cfg_op c; lit "execute"] [Sr sql])]      (* _execute_sql: _alembic_autogenerate_prefix *)
  | TDropTable n s ie _ => [SExpr (render_drop_table c n s ie)]
  | TOp tn s o => [SExpr (render_tbl_op c false tn s o)]
  | TModify tn s ops =>
      match ops with
      | [] => []
      | _ =>
        if cfg_batch c then
          [SWith (PCall [cfg_op c; lit "batch_alter_table"]   (* opts["alembic_module_prefix"] *)
                  ([id_ tn] ++ kwlist [("schema"%string, Some (or_none id_ s))]))
                 (map (fun x => render_tbl_op c true (fst (fst x)) (snd (fst x)) (snd x)) ops)]
        else map (fun x => SExpr (render_tbl_op c false (fst (fst x)) (snd (fst x)) (snd x))) ops
      end
  end.
Definition render_ops (c:cfg) (ops:list top_op) : list pystmt := flat_map (render_top c) ops.

Definition stmt_exprs (s:pystmt) : list pyexpr := match s with SExpr e => [e] | SWith e b => e :: b end.

(* ================================================================ reading a call tree back
   What the Operations / BatchOperations proxies do with the arguments (ops.py classmethods) and what
   sa.Column / sa.*Constraint / sa.text keep of theirs, as far as the abstraction above observes it.
   None = the call would raise (TypeError / AttributeError) or is outside the modelled universe. *)
Definition obind {A B} (x:option A) (f:A -> option B) : option B := match x with Some a => f a | None => None end.
Notation "x <- e ;; f" := (obind e (fun x => f)) (at level 61, e at next level, right associativity).

Fixpoint mapM {A B} (f:A -> option B) (l:list A) : option (list B) :=
  match l with
  | [] => Some []
  | a :: r => b <- f a ;; bs <- mapM f r ;; Some (b :: bs)
  end.

Fixpoint get_kw (k:str) (l:list pyexpr) : option pyexpr :=
  match l with
  | [] => None
  | PKw k' v :: r => if str_eqb k k' then Some v else get_kw k r
  | _ :: r => get_kw k r
  end.
Definition nth_pos (i:nat) (l:list pyexpr) : option pyexpr :=
  match nth_error l i with Some (PKw _ _) => None | x => x end.
(* a parameter that may be passed positionally (i-th) or by keyword *)
Definition kwarg (k:string) (l:list pyexpr) : option pyexpr := get_kw (lit k) l.
Definition arg (i:nat) (k:string) (l:list pyexpr) : option pyexpr :=
  match nth_pos i l with Some e => Some e | None => kwarg k l end.
Fixpoint positionals (l:list pyexpr) : list pyexpr :=
  match l with [] => [] | PKw _ _ :: _ => [] | e :: r => e :: positionals r end.

Definition as_str (e:pyexpr) : option str := match e with PStr _ s => Some s | _ => None end.
Definition as_ident (e:pyexpr) : option ident := option_map (fun s => mkId s None) (as_str e).
Definition as_bool (e:pyexpr) : option bool := match e with PBool b => Some b | _ => None end.
Definition as_list {A} (rd:pyexpr -> option A) (e:pyexpr) : option (list A) :=
  match e with PList l => mapM rd l | _ => None end.
(* parameter with default None *)
Definition opt_arg {A} (rd:pyexpr -> option A) (x:option pyexpr) : option (option A) :=
  match x with None | Some PNone => Some None | Some e => option_map Some (rd e) end.
(* parameter with default False meaning: leave alone *)
Definition tri_arg {A} (rd:pyexpr -> option A) (x:option pyexpr) : option (tri A) :=
  match x with None => Some Keep | Some PNone => Some SetNone | Some e => option_map SetTo (rd e) end.

Definition as_cname (c:cfg) (e:pyexpr) : option cname :=
  match e with
  | PNone => Some NoName
  | PStr _ s => Some (Plain (mkId s None))
  | PCall [p; f] [PStr _ s] =>
      if (str_eqb p (cfg_op c) || str_eqb p (lit "batch_op")) && str_eqb f (lit "f") then Some (Conv s) else None
  | _ => None
  end.
Definition as_type (c:cfg) (e:pyexpr) : option tytok :=
  match e with
  | PCall (m :: path) args => Some (mkTy (if str_eqb m (cfg_sa c) then TySa else TyDialect m) path args)
  | _ => None
  end.
Definition as_int (e:pyexpr) : option pint := match e with PInt n d => Some (n, d) | _ => None end.
(* the keyword arguments of sa.Identity *)
Definition as_identity (args:list pyexpr) : option identity :=
  a <- opt_arg as_bool (kwarg "always" args) ;; o <- opt_arg as_bool (kwarg "on_null" args) ;;
  st <- opt_arg as_int (kwarg "start" args) ;; inc <- opt_arg as_int (kwarg "increment" args) ;;
  mn <- opt_arg as_int (kwarg "minvalue" args) ;; mx <- opt_arg as_int (kwarg "maxvalue" args) ;;
  nmn <- opt_arg as_bool (kwarg "nominvalue" args) ;; nmx <- opt_arg as_bool (kwarg "nomaxvalue" args) ;;
  cy <- opt_arg as_bool (kwarg "cycle" args) ;; ca <- opt_arg as_int (kwarg "cache" args) ;; od <- opt_arg as_bool (kwarg "order" args) ;;
  Some (mkIdn a o st inc mn mx nmn nmx cy ca od).
Definition as_default (c:cfg) (e:pyexpr) : option sdefault :=
  match e with
  | PStr _ s => Some (SdStr s)
  | PCall [m; f] args =>
      if negb (str_eqb m (cfg_sa c)) then None
      else if str_eqb f (lit "Identity") then option_map SdIdentity (as_identity args)
      else if str_eqb f (lit "FetchedValue") then (match args with [] => Some SdFetched | _ => None end)
      else match args with
           | PStr _ s :: rest =>
               if str_eqb f (lit "text") then (match rest with [] => Some (SdText s) | _ => None end)
               else if str_eqb f (lit "Computed") then
                 p <- opt_arg as_bool (kwarg "persisted" rest) ;; Some (SdComputed s p)
               else None
           | _ => None
           end
  | _ => None
  end.
Definition as_sqltext (c:cfg) (e:pyexpr) : option str :=
  match e with
  | PCall [m; f] [PStr _ s] => if str_eqb m (cfg_sa c) && str_eqb f (lit "text") then Some s else None
  | _ => None
  end.
Definition as_ixkw (c:cfg) (args:list pyexpr) : option ixkw :=
  u <- opt_arg as_str (kwarg "postgresql_using" args) ;; w <- opt_arg (as_sqltext c) (kwarg "postgresql_where" args) ;;
  k <- opt_arg as_bool (kwarg "postgresql_concurrently" args) ;; Some (mkIxKw u w k).

Definition sa_call (c:cfg) (e:pyexpr) : option (str * list pyexpr) :=
  match e with
  | PCall [m; f] args => if str_eqb m (cfg_sa c) then Some (f, args) else None
  | _ => None
  end.

(* sa.Column(name, type_, *args, **kw) *)
Definition eval_column (c:cfg) (e:pyexpr) : option column :=
  fa <- sa_call c e ;;
  let (f, args) := fa in
  if negb (str_eqb f (lit "Column")) then None else
  name <- obind (nth_pos 0 args) as_ident ;;
  ty <- obind (nth_pos 1 args) (as_type c) ;;
  dflt <- (match nth_pos 2 args with
           | Some e3 => (match as_default c e3 with Some d => if positional_default d then Some (Some d) else None | None => None end)
           | None => opt_arg (as_default c) (kwarg "server_default" args)
           end) ;;
  ai <- opt_arg as_bool (kwarg "autoincrement" args) ;;
  nullable <- (match kwarg "nullable" args with None => Some true | Some e => as_bool e end) ;;
  system <- (match kwarg "system" args with None => Some false | Some e => as_bool e end) ;;
  comment <- opt_arg as_str (kwarg "comment" args) ;;
  Some (mkCol name ty dflt ai nullable system comment None).

Definition flag_arg (x:option pyexpr) : option bool := match x with None => Some false | Some e => as_bool e end.

(* sa.PrimaryKeyConstraint / ForeignKeyConstraint / UniqueConstraint / CheckConstraint *)
Definition eval_constraint (c:cfg) (e:pyexpr) : option tcons :=
  fa <- sa_call c e ;;
  let (f, args) := fa in
  name <- (match kwarg "name" args with None => Some NoName | Some e => as_cname c e end) ;;
  if str_eqb f (lit "PrimaryKeyConstraint") then
    cols <- mapM as_ident (positionals args) ;; Some (CPk cols name)
  else if str_eqb f (lit "UniqueConstraint") then
    cols <- mapM as_ident (positionals args) ;;
    d <- opt_arg as_bool (kwarg "deferrable" args) ;; i <- opt_arg as_str (kwarg "initially" args) ;;
    Some (CUq cols name d i)
  else if str_eqb f (lit "CheckConstraint") then
    s <- obind (nth_pos 0 args) as_str ;; Some (CCk s name)
  else if str_eqb f (lit "ForeignKeyConstraint") then
    cols <- obind (nth_pos 0 args) (as_list as_ident) ;; refs <- obind (nth_pos 1 args) (as_list as_str) ;;
    ou <- opt_arg as_str (kwarg "onupdate" args) ;; od <- opt_arg as_str (kwarg "ondelete" args) ;;
    i <- opt_arg as_str (kwarg "initially" args) ;; d <- opt_arg as_bool (kwarg "deferrable" args) ;;
    ua <- flag_arg (kwarg "use_alter" args) ;; m <- opt_arg as_str (kwarg "match" args) ;;
    Some (CFk cols (map (fun s => mkRef [s] None) refs) name ou od i d ua m)
  else None.

Definition is_column_call (c:cfg) (e:pyexpr) : bool :=
  match sa_call c e with Some (f, _) => str_eqb f (lit "Column") | None => false end.

(* Operations.create_table(table_name, *columns, if_not_exists=None, **kw) *)
Definition eval_create_table (c:cfg) (args:list pyexpr) : option table :=
  name <- obind (nth_pos 0 args) as_ident ;;
  let items := tl (positionals args) in
  cols <- mapM (eval_column c) (filter (is_column_call c) items) ;;
  cons <- mapM (eval_constraint c) (filter (fun e => negb (is_column_call c e)) items) ;;
  schema <- opt_arg as_ident (kwarg "schema" args) ;;
  comment <- opt_arg as_str (kwarg "comment" args) ;;
  prefixes <- (match kwarg "prefixes" args with None => Some [] | Some e => as_list as_str e end) ;;
  ine <- opt_arg as_bool (kwarg "if_not_exists" args) ;;
  Some (mkTable name schema cols cons comment prefixes ine).

Definition as_ixexpr (c:cfg) (e:pyexpr) : option ixexpr :=
  match e with
  | PStr _ s => Some (IxCol (mkId s None) None)
  | PCall [m; f] [PStr _ s] => if str_eqb m (cfg_sa c) && str_eqb f (lit "literal_column") then Some (IxExpr s) else None
  | _ => None
  end.

(* the table-level operations.  hb: called on batch_op (the table name and schema come from the with-statement);
   otherwise the first positional is the table name (the second for the calls that start with a constraint/index name) *)
Definition eval_tbl_op (c:cfg) (hb:bool) (btn:ident) (bschema:option ident) (f:str) (args:list pyexpr)
  : option (ident * option ident * tbl_op) :=
  let k := if hb then 0%nat else 1%nat in           (* number of leading table-name positionals *)
  let schema_of (a:list pyexpr) := if hb then Some bschema else opt_arg as_ident (kwarg "schema" a) in
  if str_eqb f (lit "add_column") then
    tn <- (if hb then Some btn else obind (nth_pos 0 args) as_ident) ;;
    col <- obind (nth_pos k args) (eval_column c) ;; s <- schema_of args ;; Some (tn, s, OAddColumn col)
  else if str_eqb f (lit "drop_column") then
    tn <- (if hb then Some btn else obind (nth_pos 0 args) as_ident) ;;
    cn <- obind (nth_pos k args) as_ident ;; s <- schema_of args ;; Some (tn, s, ODropColumn cn)
  else if str_eqb f (lit "alter_column") then
    tn <- (if hb then Some btn else obind (nth_pos 0 args) as_ident) ;;
    cn <- obind (nth_pos k args) as_ident ;; s <- schema_of args ;;
    et <- opt_arg (as_type c) (kwarg "existing_type" args) ;;
    sd <- tri_arg (as_default c) (kwarg "server_default" args) ;;
    nn <- opt_arg as_ident (kwarg "new_column_name" args) ;;
    ty <- opt_arg (as_type c) (kwarg "type_" args) ;;
    nu <- opt_arg as_bool (kwarg "nullable" args) ;;
    cm <- tri_arg as_str (kwarg "comment" args) ;;
    ec <- opt_arg as_str (kwarg "existing_comment" args) ;;
    en <- opt_arg as_bool (kwarg "existing_nullable" args) ;;
    ai <- opt_arg as_bool (kwarg "autoincrement" args) ;;
    esd <- opt_arg (as_default c) (kwarg "existing_server_default" args) ;;
    Some (tn, s, OAlterColumn (mkAlter cn et sd nn ty nu cm ec en ai esd))
  else if str_eqb f (lit "create_index") then
    n <- obind (nth_pos 0 args) (as_cname c) ;;
    tn <- (if hb then Some btn else obind (arg 1 "table_name" args) as_ident) ;;
    ex <- obind (arg (S k) "columns" args) (as_list (as_ixexpr c)) ;; s <- schema_of args ;;
    u <- (match kwarg "unique" args with None => Some false | Some e => as_bool e end) ;;
    ine <- opt_arg as_bool (kwarg "if_not_exists" args) ;;
    k <- as_ixkw c args ;;
    Some (tn, s, OCreateIndex n ex (Some u) ine k)
  else if str_eqb f (lit "drop_index") then
    n <- obind (nth_pos 0 args) (as_cname c) ;;
    tn <- (if hb then Some btn else obind (arg 1 "table_name" args) as_ident) ;;
    s <- schema_of args ;; ie <- opt_arg as_bool (kwarg "if_exists" args) ;;
    k <- as_ixkw c args ;;
    Some (tn, s, ODropIndex n ie true k)
  else if str_eqb f (lit "create_unique_constraint") then
    n <- obind (nth_pos 0 args) (as_cname c) ;;
    tn <- (if hb then Some btn else obind (arg 1 "table_name" args) as_ident) ;;
    cols <- obind (arg (S k) "columns" args) (as_list as_ident) ;; s <- schema_of args ;;
    d <- opt_arg as_bool (kwarg "deferrable" args) ;; i <- opt_arg as_str (kwarg "initially" args) ;;
    Some (tn, s, OCreateUnique n cols d i)
  else if str_eqb f (lit "create_foreign_key") then
    n <- obind (nth_pos 0 args) (as_cname c) ;;
    tn <- (if hb then Some btn else obind (arg 1 "source_table" args) as_ident) ;;
    rt <- obind (arg (S k) "referent_table" args) as_ident ;;
    lc <- obind (arg (S (S k)) "local_cols" args) (as_list as_ident) ;;
    rc <- obind (arg (S (S (S k))) "remote_cols" args) (as_list as_ident) ;;
    ss <- (if hb then Some (option_map i_s bschema) else opt_arg as_str (kwarg "source_schema" args)) ;;
    rs <- opt_arg as_str (kwarg "referent_schema" args) ;;
    ou <- opt_arg as_str (kwarg "onupdate" args) ;; od <- opt_arg as_str (kwarg "ondelete" args) ;;
    i <- opt_arg as_str (kwarg "initially" args) ;; d <- opt_arg as_bool (kwarg "deferrable" args) ;;
    ua <- opt_arg as_bool (kwarg "use_alter" args) ;; m <- opt_arg as_str (kwarg "match" args) ;;
    Some (tn, option_map (fun x => mkId x None) ss, OCreateFk (mkFk n rt lc rc ss rs ou od i d ua m))
  else if str_eqb f (lit "drop_constraint") then
    n <- obind (nth_pos 0 args) (as_cname c) ;;
    tn <- (if hb then Some btn else obind (arg 1 "table_name" args) as_ident) ;;
    ty <- opt_arg as_ident (arg (S k) "type_" args) ;; s <- schema_of args ;;
    Some (tn, s, ODropConstraint n ty)
  else if str_eqb f (lit "create_table_comment") then
    tn <- (if hb then Some btn else obind (nth_pos 0 args) as_ident) ;;
    cm <- opt_arg as_str (arg k "comment" args) ;; ec <- opt_arg as_str (kwarg "existing_comment" args) ;;
    s <- schema_of args ;; Some (tn, s, OCreateTableComment cm ec)
  else if str_eqb f (lit "drop_table_comment") then
    tn <- (if hb then Some btn else obind (nth_pos 0 args) as_ident) ;;
    ec <- opt_arg as_str (kwarg "existing_comment" args) ;; s <- schema_of args ;;
    Some (tn, s, ODropTableComment ec)
  else None.

Definition dummy_id : ident := mkId [] None.

Definition eval_stmt (c:cfg) (s:pystmt) : option top_op :=
  match s with
  | SExpr (PCall [p; f] args) =>
      if negb (str_eqb p (cfg_op c)) then None
      else if str_eqb f (lit "create_table") then option_map TCreateTable (eval_create_table c args)
      else if str_eqb f (lit "drop_table") then
        n <- obind (nth_pos 0 args) as_ident ;; s <- opt_arg as_ident (kwarg "schema" args) ;;
        ie <- opt_arg as_bool (kwarg "if_exists" args) ;; Some (TDropTable n s ie false)
      else if str_eqb f (lit "execute") then s <- obind (nth_pos 0 args) as_str ;; Some (TExecute s)
      else r <- eval_tbl_op c false dummy_id None f args ;; Some (TOp (fst (fst r)) (snd (fst r)) (snd r))
  | SWith (PCall [p; f] args) body =>
      if negb (str_eqb p (cfg_op c) && str_eqb f (lit "batch_alter_table")) then None else
      tn <- obind (nth_pos 0 args) as_ident ;; sc <- opt_arg as_ident (kwarg "schema" args) ;;
      ops <- mapM (fun e => match e with
                            | PCall [p'; f'] a => if str_eqb p' (lit "batch_op") then eval_tbl_op c true tn sc f' a else None
                            | _ => None end) body ;;
      Some (TModify tn sc ops)
  | _ => None
  end.
Definition eval_stmts (c:cfg) (l:list pystmt) : option (list top_op) := mapM (eval_stmt c) l.

(* what executing the rendering of a list of operations is expected to invoke: a ModifyTableOps is a
   with-block in batch mode (nothing when empty) and its members one by one otherwise *)
(* the operation objects built from the rendered text address every column by its database name: keys are gone *)
Definition nk_col (x:column) : column :=
  mkCol (c_name x) (c_type x) (c_default x) (c_autoinc x) (c_nullable x) (c_system x) (c_comment x) None.
Definition nk_ref (r:refcol) : refcol := mkRef [ref_text r] None.
Definition nk_cons (k:tcons) : tcons :=
  match k with CFk cols refs n ou od i d ua m => CFk cols (map nk_ref refs) n ou od i d ua m | x => x end.
Definition nk_ix (e:ixexpr) : ixexpr := match e with IxCol i _ => IxCol i None | x => x end.
Definition nk_tbl_op (o:tbl_op) : tbl_op :=
  match o with
  | OAddColumn x => OAddColumn (nk_col x)
  | OCreateIndex n e u i k => OCreateIndex n (map nk_ix e) u i k
  | x => x
  end.
Definition nk_member (m:ident * option ident * tbl_op) := (fst (fst m), snd (fst m), nk_tbl_op (snd m)).
Definition nk_top (o:top_op) : top_op :=
  match o with
  | TCreateTable t => TCreateTable (mkTable (t_name t) (t_schema t) (map nk_col (t_cols t)) (map nk_cons (t_cons t)) (t_comment t)
                                           (t_prefixes t) (t_if_not_exists t))
  | TOp tn s o => TOp tn s (nk_tbl_op o)
  | TModify tn s ops => TModify tn s (map nk_member ops)
  | x => x
  end.
Definition expected_top (c:cfg) (o0:top_op) : list top_op :=
  let o := nk_top o0 in
  match o with
  | TModify tn s ops =>
      match ops with
      | [] => []
      | _ => if cfg_batch c then [o] else map (fun x => TOp (fst (fst x)) (snd (fst x)) (snd x)) ops
      end
  | _ => [o]
  end.
Definition expected (c:cfg) (ops:list top_op) : list top_op := flat_map (expected_top c) ops.

(* ---------------------------------------------------------------- the imports a rendering collects
   _repr_type adds  from sqlalchemy.dialects import <d>  to autogen_context.imports for every type of a dialect module that
   it renders; the file template writes these lines above the rendered body, and nothing else binds the name <d> there.
   The types that are rendered: column types of create_table / add_column, existing_type and type_ of alter_column (the
   columns a drop_table operation remembers are not).  An import is represented by its dialect name. *)
Definition ty_dialect (t:tytok) : list str := match ty_mod t with TySa => [] | TyDialect d => [d] end.
Definition oty_dialect (t:option tytok) : list str := match t with Some x => ty_dialect x | None => [] end.
Definition tbl_op_dialects (o:tbl_op) : list str :=
  match o with
  | OAddColumn x => ty_dialect (c_type x)
  | OAlterColumn a => oty_dialect (a_existing_type a) ++ oty_dialect (a_type a)
  | _ => []
  end.
Definition top_dialects (o:top_op) : list str :=
  match o with
  | TCreateTable t => flat_map (fun x => ty_dialect (c_type x)) (t_cols t)
  | TOp _ _ o => tbl_op_dialects o
  | TModify _ _ ops => flat_map (fun m => tbl_op_dialects (snd m)) ops
  | _ => []
  end.
Definition dialects_of (ops:list top_op) : list str := flat_map top_dialects ops.
Definition render_imports (ops:list top_op) : list str := dialects_of ops.
Definition import_line (d:str) : str := lit "from sqlalchemy.dialects import " ++ d.

(* the rendered body evaluated in a namespace that holds ONLY the two configured module names (and batch_op inside a
   with-block) and what the given import lines bind: eval_stmts refuses every call whose head is another name, except in
   type position, where the head is recorded as the dialect of the type; here those have to be imported ones
   (a NameError otherwise).  The argument trees of a type are opaque to the model (the harness executes them for real). *)
Definition memb (x:str) (l:list str) : bool := existsb (str_eqb x) l.
Definition eval_in (c:cfg) (imports:list str) (l:list pystmt) : option (list top_op) :=
  match eval_stmts c l with
  | Some ops => if forallb (fun d => memb d imports) (dialects_of ops) then Some ops else None
  | None => None
  end.
