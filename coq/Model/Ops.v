(* C09 — the operation objects of alembic/operations/ops.py as far as `reverse()` and
   `operations/toimpl.py` read them, the SQLAlchemy schema objects the reversal travels
   through (to_constraint/from_constraint, to_index/from_index, to_table/from_table as done by
   operations/schemaobj.py), `reverse`, `ModifyTableOps.reverse`, `UpgradeOps.reverse_into`,
   and the projection `ddl_view` on the fields the toimpl functions read.  No proofs here.

   Strings are lists of code points.  A `tok` is an opaque token interned by the harness for
   things whose content the reversal never inspects (SQLAlchemy types, server defaults, CHECK
   conditions, text() index expressions, dialect keyword dictionaries, SQL text); token 0 is
   "absent / empty dictionary". *)
From AV Require Export Base.ListSet.

Definition str := list N.
Definition tok := N.

Inductive err := NotImplementedError | ValueError
  | OtherError.   (* implementation side only: any other exception class *)
Inductive res (A:Type) := Ok (a:A) | Err (e:err).
Arguments Ok {A} a.
Arguments Err {A} e.
Definition bind {A B} (r : res A) (f : A -> res B) : res B :=
  match r with Ok a => f a | Err e => Err e end.
(* [f(x) for x in l]: the first failing element raises *)
Fixpoint mapM {A B} (f : A -> res B) (l : list A) : res (list B) :=
  match l with
  | [] => Ok []
  | x :: r => bind (f x) (fun y => bind (mapM f r) (fun ys => Ok (y :: ys)))
  end.

(* Python truthiness as used by `if constraint.deferrable:` / `if fk.onupdate:` *)
Definition truthy_b (x : option bool) : option bool := match x with Some false => None | _ => x end.
Definition truthy_s (x : option str) : option str := match x with Some [] => None | _ => x end.

(* ------------------------------------------------------------------ schema objects *)

(* sqlalchemy Column, the attributes CREATE TABLE / ADD COLUMN spell, and the unique= / index= flags that make
   Table() (hence add_column / create_table) produce a UniqueConstraint / Index of their own *)
Record column := mkCol { c_name : str; c_type : tok; c_nullable : bool; c_default : option tok; c_comment : option str;
                         c_unique : bool; c_index : bool }.
(* schemaobj.table with _constraints_included: `c.unique = c.index = False` *)
Definition clear_flags (c : column) : column := mkCol (c_name c) (c_type c) (c_nullable c) (c_default c) (c_comment c) false false.

Record fkopts := mkFkO { fo_onupdate : option str; fo_ondelete : option str; fo_initially : option str;
                         fo_match : option str; fo_deferrable : option bool }.

(* sqlalchemy constraint objects attached to their (parent) table; kw = dialect_kwargs token *)
Inductive constr :=
| CPk (name : option str) (table : str) (schema : option str) (cols : list str) (kw : tok)
| CUq (name : option str) (table : str) (schema : option str) (cols : list str) (deferrable : option bool) (initially : option str) (kw : tok)
| CFk (name : option str) (table : str) (schema : option str) (cols : list str)
      (rtable : str) (rschema : option str) (rcols : list str) (o : fkopts) (kw : tok)
| CCk (name : option str) (table : str) (schema : option str) (cond : tok) (kw : tok).

(* index expressions: a column name or a text()/expression token *)
Inductive iexpr := IxCol (n : str) | IxText (t : tok).

(* sqlalchemy Index attached to its table *)
Record index := mkIdx { i_name : option str; i_table : str; i_schema : option str; i_exprs : list iexpr; i_unique : bool; i_kw : tok }.

(* sqlalchemy Table: name, schema, columns, the non-type-bound constraints (an empty primary key
   constraint is not listed), the indexes (explicit Index elements and those made by index=True flags),
   comment, prefixes, dialect keyword token *)
Record tdesc := mkT { t_name : str; t_schema : option str; t_cols : list column; t_cons : list constr; t_idx : list index;
                      t_comment : option str; t_prefixes : list str; t_kw : tok }.

(* ------------------------------------------------------------------ operation objects *)

(* the AddConstraintOp subclasses *)
Inductive addcons :=
| CreatePrimaryKeyOp (name : option str) (table : str) (cols : list str) (schema : option str) (kw : tok)
| CreateUniqueConstraintOp (name : option str) (table : str) (cols : list str) (schema : option str)
                           (deferrable : option bool) (initially : option str) (kw : tok)            (* kw: the rest of **kw *)
| CreateForeignKeyOp (name : option str) (source referent : str) (local_cols remote_cols : list str)
                     (source_schema referent_schema : option str) (o : fkopts) (kw : tok)
| CreateCheckConstraintOp (name : option str) (table : str) (cond : tok) (schema : option str) (kw : tok).

Inductive ctype := TyUnique | TyForeignKey | TyPrimary | TyCheck.

Record cindex := mkCI { ci_name : option str; ci_table : str; ci_cols : list iexpr; ci_schema : option str;
                        ci_unique : bool; ci_if_not_exists : option bool; ci_kw : tok }.

(* the `_reverse` CreateTableOp stored on a DropTableOp, as far as DropTableOp.to_table reads it *)
Record trev := mkTRev { tr_cols : list column; tr_cons : list constr; tr_ci : bool }.

(* `False` (argument not given) versus a value that may be None *)
Inductive tri (A:Type) := Unset | SetTo (a : option A).
Arguments Unset {A}.
Arguments SetTo {A} a.

Record altercol := mkAC {
  ac_table : str; ac_column : str; ac_schema : option str;
  ac_existing_type : option tok; ac_existing_server_default : tri tok; ac_existing_nullable : option bool;
  ac_existing_comment : option str;
  ac_modify_nullable : option bool; ac_modify_comment : tri str; ac_modify_server_default : tri tok;
  ac_modify_name : option str; ac_modify_type : option tok;
  ac_kw : tok                                  (* remaining **kw (autoincrement, existing_autoincrement, ...) *)
}.

Inductive op :=
| AddConstraintOp (a : addcons)
| DropConstraintOp (name : option str) (table : str) (ty : option ctype) (schema : option str) (rev : option addcons)
| CreateIndexOp (c : cindex)
| DropIndexOp (name : option str) (table : option str) (schema : option str) (if_exists : option bool)
              (kw_unique : option bool) (kw : tok) (rev : option cindex)
| CreateTableOp (t : tdesc) (if_not_exists : option bool) (constraints_included : bool)
| DropTableOp (name : str) (schema : option str) (if_exists : option bool) (comment : option str)
              (prefixes : list str) (kw : tok) (rev : option trev)
| CreateTableCommentOp (table : str) (comment : option str) (existing_comment : option str) (schema : option str)
| DropTableCommentOp (table : str) (existing_comment : option str) (schema : option str)
| AlterColumnOp (a : altercol)
| AddColumnOp (table : str) (c : column) (schema : option str)
| DropColumnOp (table : str) (column_name : str) (schema : option str) (kw : tok)
               (rev : option (str * column * option str))        (* AddColumnOp(table, column, schema) *)
| RenameTableOp (table new_name : str) (schema : option str)
| ExecuteSQLOp (sql : tok)
| BulkInsertOp (table : str) (rows : tok).

(* what an UpgradeOps / DowngradeOps container holds *)
Inductive top :=
| Leaf (o : op)
| ModifyTableOps (table : str) (schema : option str) (ops : list op).

(* ------------------------------------------------------------------ to_* / from_* *)

(* schemaobj.primary_key_constraint / unique_constraint / foreign_key_constraint / check_constraint *)
Definition to_constraint (a : addcons) : constr :=
  match a with
  | CreatePrimaryKeyOp n t cs s k => CPk n t s cs k
  | CreateUniqueConstraintOp n t cs s d i k => CUq n t s cs d i k
  | CreateForeignKeyOp n src ref lc rc ss rs o k => CFk n src ss lc ref rs rc o k
  | CreateCheckConstraintOp n t c s k => CCk n t s c k
  end.

(* AddConstraintOp.from_constraint dispatching on __visit_name__; the `if x:` filters
   (deferrable is kept whenever it `is not None`) *)
Definition from_constraint (c : constr) : addcons :=
  match c with
  | CPk n t s cs k => CreatePrimaryKeyOp n t cs s k
  | CUq n t s cs d i k => CreateUniqueConstraintOp n t cs s d (truthy_s i) k
  | CFk n t s cs rt rs rcs o k =>
      CreateForeignKeyOp n t rt cs rcs s rs
        (mkFkO (truthy_s (fo_onupdate o)) (truthy_s (fo_ondelete o)) (truthy_s (fo_initially o))
               (truthy_s (fo_match o)) (fo_deferrable o)) k
  | CCk n t s c k => CreateCheckConstraintOp n t c s k
  end.

Definition constr_type (c : constr) : ctype :=
  match c with CPk _ _ _ _ _ => TyPrimary | CUq _ _ _ _ _ _ _ => TyUnique | CFk _ _ _ _ _ _ _ _ _ => TyForeignKey | CCk _ _ _ _ _ => TyCheck end.
Definition constr_name (c : constr) : option str :=
  match c with CPk n _ _ _ _ => n | CUq n _ _ _ _ _ _ => n | CFk n _ _ _ _ _ _ _ _ => n | CCk n _ _ _ _ => n end.
Definition constr_table (c : constr) : str :=
  match c with CPk _ t _ _ _ => t | CUq _ t _ _ _ _ _ => t | CFk _ t _ _ _ _ _ _ _ => t | CCk _ t _ _ _ => t end.
Definition constr_schema (c : constr) : option str :=
  match c with CPk _ _ s _ _ => s | CUq _ _ s _ _ _ _ => s | CFk _ _ s _ _ _ _ _ _ => s | CCk _ _ s _ _ => s end.

(* DropConstraintOp.from_constraint *)
Definition drop_from_constraint (c : constr) : op :=
  DropConstraintOp (constr_name c) (constr_table c) (Some (constr_type c)) (constr_schema c) (Some (from_constraint c)).

Definition optstr_eqb (a b : option str) : bool :=
  match a, b with
  | None, None => true
  | Some x, Some y => list_eqb N.eqb x y
  | _, _ => false
  end.

(* DropConstraintOp.to_constraint: the stored original re-made, then
   `constraint.name = ...; constraint_table.name = ...; constraint_table.schema = ...`.
   A self-referential foreign key refers to the very Table object that is renamed. *)
Definition retarget (n : option str) (t : str) (s : option str) (c : constr) : constr :=
  match c with
  | CPk _ _ _ cs k => CPk n t s cs k
  | CUq _ _ _ cs d i k => CUq n t s cs d i k
  | CFk _ t0 s0 cs rt rs rcs o k =>
      if list_eqb N.eqb t0 rt && optstr_eqb s0 rs then CFk n t s cs t s rcs o k else CFk n t s cs rt rs rcs o k
  | CCk _ _ _ c k => CCk n t s c k
  end.

Definition no_table : str := [110; 111; 95; 116; 97; 98; 108; 101]%N.   (* "no_table" *)
Definition col_x : list iexpr := [IxCol [120%N]].                        (* ["x"] *)
(* schemaobj.index: `tablename or "no_table"` *)
Definition table_or_no_table (t : str) : str := match t with [] => no_table | _ => t end.

(* schemaobj.index via CreateIndexOp.to_index *)
Definition to_index (c : cindex) : index :=
  mkIdx (ci_name c) (table_or_no_table (ci_table c)) (ci_schema c) (ci_cols c) (ci_unique c) (ci_kw c).
(* CreateIndexOp.from_index *)
Definition from_index (i : index) : cindex :=
  mkCI (i_name i) (i_table i) (i_exprs i) (i_schema i) (i_unique i) None (i_kw i).
(* DropIndexOp.from_index *)
Definition drop_from_index (i : index) : op :=
  DropIndexOp (i_name i) (Some (i_table i)) (i_schema i) None (Some (i_unique i)) (i_kw i) (Some (from_index i)).

(* DropIndexOp.to_index *)
Definition drop_to_index (name : option str) (table : option str) (schema : option str)
           (kw_unique : option bool) (kw : tok) (rev : option cindex) : index :=
  mkIdx name (match table with Some t => table_or_no_table t | None => no_table end) schema
        (match rev with Some r => ci_cols r | None => col_x end)
        (match kw_unique with Some b => b | None => false end) kw.

(* schemaobj.table copies a constraint onto the new Table *)
Definition onto_table (t : str) (s : option str) (c : constr) : constr :=
  match c with
  | CPk n _ _ cs k => CPk n t s cs k
  | CUq n _ _ cs d i k => CUq n t s cs d i k
  | CFk n _ _ cs rt rs rcs o k => CFk n t s cs rt rs rcs o k
  | CCk n _ _ c k => CCk n t s c k
  end.

Definition flags_off (ci : bool) (l : list column) : list column := if ci then map clear_flags l else l.
Definition index_onto (t : str) (s : option str) (i : index) : index :=
  mkIdx (i_name i) t s (i_exprs i) (i_unique i) (i_kw i).

(* CreateTableOp.to_table.  The harness hands over the description of the Table that to_table() returns (so the
   UniqueConstraint / Index objects that unique= / index= flags produce when _constraints_included is false are
   already listed in t_cons / t_idx); this function is therefore idempotent. *)
Definition create_to_table (t : tdesc) (ci : bool) : tdesc :=
  mkT (t_name t) (t_schema t) (flags_off ci (t_cols t)) (map (onto_table (t_name t) (t_schema t)) (t_cons t))
      (map (index_onto (t_name t) (t_schema t)) (t_idx t))
      (t_comment t) (t_prefixes t) (t_kw t).
(* DropTableOp.to_table: only columns and constraints of the stored original; no Index is carried.
   (A stored original with _constraints_included false and flagged columns is outside the model.) *)
Definition drop_to_table (name : str) (schema : option str) (comment : option str) (prefixes : list str)
           (kw : tok) (rev : option trev) : tdesc :=
  mkT name schema (match rev with Some r => flags_off (tr_ci r) (tr_cols r) | None => [] end)
      (match rev with Some r => map (onto_table name schema) (tr_cons r) | None => [] end)
      []
      comment prefixes kw.
(* CreateTableOp.from_table: list(table.c) + table.constraints; table.indexes are not taken *)
Definition create_from_table (t : tdesc) : op :=
  CreateTableOp (mkT (t_name t) (t_schema t) (t_cols t) (t_cons t) [] (t_comment t) (t_prefixes t) (t_kw t)) None true.
(* DropTableOp.from_table *)
Definition drop_from_table (t : tdesc) : op :=
  DropTableOp (t_name t) (t_schema t) None (t_comment t) (t_prefixes t) (t_kw t)
              (Some (mkTRev (t_cols t) (t_cons t) true)).

(* DropColumnOp.to_column: the stored column, else Column(column_name, NULLTYPE) (type token 0) *)
Definition drop_to_column (cn : str) (rev : option (str * column * option str)) : column :=
  match rev with Some (_, c, _) => c | None => mkCol cn 0%N true None None false false end.

(* ------------------------------------------------------------------ reverse *)

(* AlterColumnOp.reverse: existing_* are copied, the given modify_* are added, every key that
   has a modify_ entry is swapped with its existing_ entry, then the rename is turned round *)
Definition alter_reverse (a : altercol) : altercol :=
  let '(et, mt) := match ac_modify_type a with
                   | Some m => (Some m, ac_existing_type a)
                   | None => (ac_existing_type a, None) end in
  let '(en, mn) := match ac_modify_nullable a with
                   | Some m => (Some m, ac_existing_nullable a)
                   | None => (ac_existing_nullable a, None) end in
  let '(es, ms) := match ac_modify_server_default a with
                   | SetTo m => (SetTo m, ac_existing_server_default a)
                   | Unset => (ac_existing_server_default a, Unset) end in
  let '(ec, mc) := match ac_modify_comment a with
                   | SetTo m => (m, SetTo (ac_existing_comment a))
                   | Unset => (ac_existing_comment a, Unset) end in
  let '(cn, mname) := match ac_modify_name a with
                      | Some n => (n, Some (ac_column a))
                      | None => (ac_column a, None) end in
  mkAC (ac_table a) cn (ac_schema a) et es en ec mn mc ms mname mt (ac_kw a).

Definition reverse (o : op) : res op :=
  match o with
  | AddConstraintOp a => Ok (drop_from_constraint (to_constraint a))
  | DropConstraintOp n t ty s rev =>
      match rev with
      | Some a => Ok (AddConstraintOp (from_constraint (retarget n t s (to_constraint a))))
      | None => Err ValueError
      end
  | CreateIndexOp c => Ok (drop_from_index (to_index c))
  | DropIndexOp n t s ie ku kw rev => Ok (CreateIndexOp (from_index (drop_to_index n t s ku kw rev)))
  | CreateTableOp t ine ci => Ok (drop_from_table (create_to_table t ci))
  | DropTableOp n s ie c p kw rev => Ok (create_from_table (drop_to_table n s c p kw rev))
  | CreateTableCommentOp t c e s =>
      match e with
      | None => Ok (DropTableCommentOp t c s)
      | Some _ => Ok (CreateTableCommentOp t e c s)
      end
  | DropTableCommentOp t e s => Ok (CreateTableCommentOp t e None s)
  | AlterColumnOp a => Ok (AlterColumnOp (alter_reverse a))
  | AddColumnOp t c s => Ok (DropColumnOp t (c_name c) s 0%N (Some (t, c, s)))
  | DropColumnOp t cn s kw rev =>
      match rev with
      | Some (_, c, _) => Ok (AddColumnOp t c s)
      | None => Err ValueError
      end
  | RenameTableOp _ _ _ => Err NotImplementedError
  | ExecuteSQLOp _ => Err NotImplementedError
  | BulkInsertOp _ _ => Err NotImplementedError
  end.

(* list(reversed([op.reverse() for op in self.ops])) *)
Definition reverse_list (l : list op) : res (list op) := bind (mapM reverse l) (fun r => Ok (rev r)).

(* ModifyTableOps.reverse *)
Definition reverse_top (x : top) : res top :=
  match x with
  | Leaf o => bind (reverse o) (fun r => Ok (Leaf r))
  | ModifyTableOps t s l => bind (reverse_list l) (fun r => Ok (ModifyTableOps t s r))
  end.

(* UpgradeOps.reverse_into / UpgradeOps.reverse / DowngradeOps.reverse *)
Definition reverse_ops (l : list top) : res (list top) := bind (mapM reverse_top l) (fun r => Ok (rev r)).

(* ------------------------------------------------------------------ kinds *)

Inductive kind :=
| KCreateTable | KDropTable | KAddColumn | KDropColumn | KAlterColumn | KCreateIndex | KDropIndex
| KAddConstraint (t : ctype) | KDropConstraint (t : option ctype) | KTableComment
| KRenameTable | KExecute | KBulkInsert.
(* a container is identified by the table it is about (batch mode renders it as batch_alter_table(table, schema)) *)
Inductive tkind := KLeaf (k : kind) | KModify (t : str) (s : option str) (ks : list kind).

Definition addcons_type (a : addcons) : ctype := constr_type (to_constraint a).

(* the kind of constraint a DropConstraintOp removes is that of the stored original when there
   is one (this is what reverse() re-creates), else the declared type_ *)
Definition kind_of (o : op) : kind :=
  match o with
  | AddConstraintOp a => KAddConstraint (addcons_type a)
  | DropConstraintOp _ _ ty _ rev => KDropConstraint (match rev with Some a => Some (addcons_type a) | None => ty end)
  | CreateIndexOp _ => KCreateIndex
  | DropIndexOp _ _ _ _ _ _ _ => KDropIndex
  | CreateTableOp _ _ _ => KCreateTable
  | DropTableOp _ _ _ _ _ _ _ => KDropTable
  | CreateTableCommentOp _ _ _ _ => KTableComment
  | DropTableCommentOp _ _ _ => KTableComment
  | AlterColumnOp _ => KAlterColumn
  | AddColumnOp _ _ _ => KAddColumn
  | DropColumnOp _ _ _ _ _ => KDropColumn
  | RenameTableOp _ _ _ => KRenameTable
  | ExecuteSQLOp _ => KExecute
  | BulkInsertOp _ _ => KBulkInsert
  end.
Definition tkind_of (x : top) : tkind :=
  match x with Leaf o => KLeaf (kind_of o) | ModifyTableOps t s l => KModify t s (map kind_of l) end.
Definition kinds (l : list top) : list tkind := map tkind_of l.

(* setting and removing the table comment are one kind (which of the two classes reverses a
   CreateTableCommentOp depends on existing_comment, not on the class) *)
Definition inverse_kind (k : kind) : kind :=
  match k with
  | KCreateTable => KDropTable | KDropTable => KCreateTable
  | KAddColumn => KDropColumn | KDropColumn => KAddColumn
  | KAlterColumn => KAlterColumn
  | KCreateIndex => KDropIndex | KDropIndex => KCreateIndex
  | KAddConstraint t => KDropConstraint (Some t)
  | KDropConstraint (Some t) => KAddConstraint t
  | KDropConstraint None => KDropConstraint None        (* not reversible; never the kind of a reversed op *)
  | KTableComment => KTableComment
  | KRenameTable => KRenameTable | KExecute => KExecute | KBulkInsert => KBulkInsert
  end.
Definition inverse_tkind (k : tkind) : tkind :=
  match k with KLeaf k => KLeaf (inverse_kind k) | KModify t s ks => KModify t s (rev (map inverse_kind ks)) end.

(* ------------------------------------------------------------------ what toimpl reads *)

(* One constructor per toimpl function; its arguments are exactly the attributes (or to_*()
   results) that function hands to the dialect implementation.  if_exists / if_not_exists are
   handed over only when not None and the dialect implementations test them for truth, so False
   reads as None. *)
Inductive ddl :=
| DAddConstraint (c : constr)                                                   (* impl.add_constraint(op.to_constraint()) *)
| DDropConstraint (name : option str) (table : str) (ty : option ctype) (schema : option str)   (* generic_constraint(...) *)
| DCreateIndex (i : index) (if_not_exists : option bool)
| DDropIndex (i : index) (if_exists : option bool)
| DCreateTable (t : tdesc) (if_not_exists : option bool)
| DDropTable (t : tdesc) (if_exists : option bool)
| DCreateTableComment (table : str) (schema : option str) (comment : option str)
| DDropTableComment (table : str) (schema : option str)
| DAlterColumn (a : altercol)
| DAddColumn (table : str) (c : column) (schema : option str)
| DDropColumn (table : str) (c : column) (schema : option str) (kw : tok)       (* impl.drop_column(table, op.to_column(), ...) *)
| DRenameTable (table new_name : str) (schema : option str)
| DExecute (sql : tok)
| DBulkInsert (table : str) (rows : tok).

(* inside a Table the flags themselves spell nothing: what they produced is listed in t_cons / t_idx *)
Definition erase_flags (t : tdesc) : tdesc :=
  mkT (t_name t) (t_schema t) (map clear_flags (t_cols t)) (t_cons t) (t_idx t) (t_comment t) (t_prefixes t) (t_kw t).

Definition ddl_view (o : op) : ddl :=
  match o with
  | AddConstraintOp a => DAddConstraint (to_constraint a)
  | DropConstraintOp n t ty s _ => DDropConstraint n t ty s
  | CreateIndexOp c => DCreateIndex (to_index c) (truthy_b (ci_if_not_exists c))
  | DropIndexOp n t s ie ku kw rev => DDropIndex (drop_to_index n t s ku kw rev) (truthy_b ie)
  | CreateTableOp t ine ci => DCreateTable (erase_flags (create_to_table t ci)) (truthy_b ine)
  | DropTableOp n s ie c p kw rev => DDropTable (erase_flags (drop_to_table n s c p kw rev)) (truthy_b ie)
  | CreateTableCommentOp t c _ s => DCreateTableComment t s c
  | DropTableCommentOp t _ s => DDropTableComment t s
  | AlterColumnOp a => DAlterColumn a
  | AddColumnOp t c s => DAddColumn t c s
  | DropColumnOp t cn s kw rev => DDropColumn t (drop_to_column cn rev) s kw
  | RenameTableOp t n s => DRenameTable t n s
  | ExecuteSQLOp q => DExecute q
  | BulkInsertOp t r => DBulkInsert t r
  end.

Definition ddl_equiv (a b : op) : Prop := ddl_view a = ddl_view b.
Definition ddl_equiv_top (a b : top) : Prop :=
  match a, b with
  | Leaf x, Leaf y => ddl_equiv x y
  | ModifyTableOps t s l, ModifyTableOps t' s' l' => t = t' /\ s = s' /\ Forall2 ddl_equiv l l'
  | _, _ => False
  end.

(* ------------------------------------------------------------------ to_diff_tuple / OpContainer.as_diffs *)

(* one entry of AlterColumnOp.to_diff_tuple(): (name, schema, table, column, {the other existing_*}, existing, modify) *)
Inductive adiff :=
| ModifyType (s : option str) (t c : str) (en : option bool) (esd : tri tok) (ec : option str) (et : option tok) (mt : tok)
| ModifyNullable (s : option str) (t c : str) (et : option tok) (esd : tri tok) (ec : option str) (en : option bool) (mn : bool)
| ModifyDefault (s : option str) (t c : str) (en : option bool) (et : option tok) (ec : option str) (esd : tri tok) (msd : option tok)
| ModifyComment (s : option str) (t c : str) (en : option bool) (et : option tok) (esd : tri tok) (ec : option str) (mc : option str).

Inductive difft :=
| DfAddConstraint (c : constr) | DfAddFk (c : constr)                   (* "add_constraint" / "add_fk" *)
| DfRemoveConstraint (c : constr) | DfRemoveFk (c : constr)              (* "remove_constraint" / "remove_fk" *)
| DfAddIndex (i : index) | DfRemoveIndex (i : index)
| DfAddTable (t : tdesc) | DfRemoveTable (t : tdesc)
| DfAddTableComment (t : str) (s : option str) (c : option str) (existing : option str)   (* (.., to_table(), existing_comment) *)
| DfRemoveTableComment (t : str) (s : option str)
| DfAlter (l : list adiff)                                               (* the list AlterColumnOp returns is one element *)
| DfAddColumn (s : option str) (t : str) (c : column)
| DfRemoveColumn (s : option str) (t : str) (c : column)
| DfExecute (sql : tok).

Definition alter_diffs (a : altercol) : list adiff :=
  let s := ac_schema a in let t := ac_table a in let c := ac_column a in
  (match ac_modify_type a with
   | Some m => [ModifyType s t c (ac_existing_nullable a) (ac_existing_server_default a) (ac_existing_comment a) (ac_existing_type a) m]
   | None => [] end) ++
  (match ac_modify_nullable a with
   | Some m => [ModifyNullable s t c (ac_existing_type a) (ac_existing_server_default a) (ac_existing_comment a) (ac_existing_nullable a) m]
   | None => [] end) ++
  (match ac_modify_server_default a with
   | SetTo m => [ModifyDefault s t c (ac_existing_nullable a) (ac_existing_type a) (ac_existing_comment a) (ac_existing_server_default a) m]
   | Unset => [] end) ++
  (match ac_modify_comment a with
   | SetTo m => [ModifyComment s t c (ac_existing_nullable a) (ac_existing_type a) (ac_existing_server_default a) (ac_existing_comment a) m]
   | Unset => [] end).

Definition is_fk (c : constr) : bool := match c with CFk _ _ _ _ _ _ _ _ _ => true | _ => false end.

Definition to_diff_tuple (o : op) : res difft :=
  match o with
  | AddConstraintOp a => let c := to_constraint a in Ok (if is_fk c then DfAddFk c else DfAddConstraint c)
  | DropConstraintOp n t ty s rev =>
      match rev with
      | Some a => let c := retarget n t s (to_constraint a) in
                  Ok (match ty with Some TyForeignKey => DfRemoveFk c | _ => DfRemoveConstraint c end)
      | None => Err ValueError                     (* to_constraint(): "original constraint is not present" *)
      end
  | CreateIndexOp c => Ok (DfAddIndex (to_index c))
  | DropIndexOp n t s _ ku kw rev => Ok (DfRemoveIndex (drop_to_index n t s ku kw rev))
  | CreateTableOp t _ ci => Ok (DfAddTable (create_to_table t ci))
  | DropTableOp n s _ c p kw rev => Ok (DfRemoveTable (drop_to_table n s c p kw rev))
  | CreateTableCommentOp t c e s => Ok (DfAddTableComment t s c e)
  | DropTableCommentOp t _ s => Ok (DfRemoveTableComment t s)
  | AlterColumnOp a => Ok (DfAlter (alter_diffs a))
  | AddColumnOp t c s => Ok (DfAddColumn s t c)
  | DropColumnOp t cn s _ rev => Ok (DfRemoveColumn s t (drop_to_column cn rev))
  | ExecuteSQLOp q => Ok (DfExecute q)
  | RenameTableOp _ _ _ | BulkInsertOp _ _ => Err NotImplementedError     (* MigrateOperation.to_diff_tuple *)
  end.

(* OpContainer._ops_as_diffs: containers are flattened, leaves give their tuple *)
Definition as_diffs (l : list top) : res (list difft) :=
  bind (mapM (fun x => match x with
                       | Leaf o => bind (to_diff_tuple o) (fun d => Ok [d])
                       | ModifyTableOps _ _ ops => mapM to_diff_tuple ops
                       end) l)
       (fun ls => Ok (concat ls)).

(* the name in first position of a diff tuple *)
Inductive dtag := TgAddConstraint | TgAddFk | TgRemoveConstraint | TgRemoveFk | TgAddIndex | TgRemoveIndex | TgAddTable | TgRemoveTable
                | TgAddTableComment | TgRemoveTableComment | TgAddColumn | TgRemoveColumn | TgExecute
                | TgModifyType | TgModifyNullable | TgModifyDefault | TgModifyComment.
Definition adiff_tag (d : adiff) : dtag :=
  match d with ModifyType _ _ _ _ _ _ _ _ => TgModifyType | ModifyNullable _ _ _ _ _ _ _ _ => TgModifyNullable
             | ModifyDefault _ _ _ _ _ _ _ _ => TgModifyDefault | ModifyComment _ _ _ _ _ _ _ _ => TgModifyComment end.
Definition diff_tags (d : difft) : list dtag :=
  match d with
  | DfAddConstraint _ => [TgAddConstraint] | DfAddFk _ => [TgAddFk]
  | DfRemoveConstraint _ => [TgRemoveConstraint] | DfRemoveFk _ => [TgRemoveFk]
  | DfAddIndex _ => [TgAddIndex] | DfRemoveIndex _ => [TgRemoveIndex]
  | DfAddTable _ => [TgAddTable] | DfRemoveTable _ => [TgRemoveTable]
  | DfAddTableComment _ _ _ _ => [TgAddTableComment] | DfRemoveTableComment _ _ => [TgRemoveTableComment]
  | DfAlter l => map adiff_tag l
  | DfAddColumn _ _ _ => [TgAddColumn] | DfRemoveColumn _ _ _ => [TgRemoveColumn]
  | DfExecute _ => [TgExecute]
  end.
(* what compare_metadata reports for the opposite change; table comments: setting and removing are one family *)
Definition inverse_tag (t : dtag) : dtag :=
  match t with
  | TgAddConstraint => TgRemoveConstraint | TgRemoveConstraint => TgAddConstraint
  | TgAddFk => TgRemoveFk | TgRemoveFk => TgAddFk
  | TgAddIndex => TgRemoveIndex | TgRemoveIndex => TgAddIndex
  | TgAddTable => TgRemoveTable | TgRemoveTable => TgAddTable
  | TgAddColumn => TgRemoveColumn | TgRemoveColumn => TgAddColumn
  | t => t
  end.
Definition comment_family (t : dtag) : dtag := match t with TgRemoveTableComment => TgAddTableComment | t => t end.

(* ------------------------------------------------------------------ autogenerate: what compare.py captures for a CHANGED object
   (same name on both sides).  `old` is the object reflected from the database, `new` the one of the metadata: the drop /
   existing_ half of what is emitted is built from old, the add / modify_ half from new, so that the reversal re-creates
   the database's object. *)
Inductive change :=
| ChUnique (old new : constr)                               (* _compare_indexes_and_uniques.obj_changed, unique constraint *)
| ChIndex (old new : index)                                 (* _compare_indexes_and_uniques.obj_changed, index *)
| ChForeignKey (old new : constr)                           (* _compare_foreign_keys: removed signature, then added signature *)
| ChTableComment (old new : option str)                     (* _compare_table_comment *)
| ChColumn (old new : column) (type_differs default_differs : bool).
    (* _compare_columns with _compare_nullable/_compare_type/_compare_server_default/_compare_column_comment; the verdicts of
       impl.compare_type and compare_server_default are inputs *)

Definition is_none {A} (o : option A) : bool := match o with None => true | Some _ => false end.
Definition capture_column (t : str) (s : option str) (old new : column) (ty_diff sd_diff : bool) : list op :=
  let both_sd_none := is_none (c_default old) && is_none (c_default new) in
  let both_cm_none := is_none (c_comment old) && is_none (c_comment new) in
  let cm_diff := negb both_cm_none && negb (optstr_eqb (c_comment old) (c_comment new)) in
  let nl_diff := negb (Bool.eqb (c_nullable old) (c_nullable new)) in
  let sd_diff := negb both_sd_none && sd_diff in
  let a := mkAC t (c_name old) s (Some (c_type old)) (if both_sd_none then Unset else SetTo (c_default old))
                (Some (c_nullable old)) (c_comment old)
                (if nl_diff then Some (c_nullable new) else None)
                (if cm_diff then SetTo (c_comment new) else Unset)
                (if sd_diff then SetTo (c_default new) else Unset)
                None (if ty_diff then Some (c_type new) else None) 0%N in
  if nl_diff || cm_diff || sd_diff || ty_diff then [AlterColumnOp a] else [].       (* AlterColumnOp.has_changes() *)

Definition capture (t : str) (s : option str) (ch : change) : list op :=
  match ch with
  | ChUnique old new | ChForeignKey old new => [drop_from_constraint old; AddConstraintOp (from_constraint new)]
  | ChIndex old new => [drop_from_index old; CreateIndexOp (from_index new)]
  | ChTableComment old new =>
      match old, new with
      | None, None => []
      | Some _, None => [DropTableCommentOp t old s]
      | _, _ => if optstr_eqb old new then [] else [CreateTableCommentOp t new old s]
      end
  | ChColumn old new ty_diff sd_diff => capture_column t s old new ty_diff sd_diff
  end.
(* the UpgradeOps content _compare_tables produces for one existing table with that one change *)
Definition capture_ops (t : str) (s : option str) (ch : change) : list top :=
  match capture t s ch with [] => [] | l => [ModifyTableOps t s l] end.
