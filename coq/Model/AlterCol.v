(* C13 — executable model of the per-dialect `alter_column` planning of alembic.

   Python anchors (alembic 1.15.3, /repo/alembic):
     operations/toimpl.py   alter_column               -> [toimpl_alter_column]
     ddl/impl.py            DefaultImpl.alter_column    -> [default_alter_column]
     ddl/mysql.py           MySQLImpl.alter_column      -> [mysql_alter_column]
                            _is_mysql_allowed_functional_default, MySQLChangeColumn.__init__,
                            _mysql_colspec, the @compiles visitors
     ddl/mssql.py           MSSQLImpl.alter_column      -> [mssql_alter_column] + visitors
     ddl/postgresql.py      PostgresqlImpl.alter_column -> [postgresql_alter_column] + visitors
     ddl/oracle.py, ddl/sqlite.py, ddl/base.py           the @compiles visitor table -> [compile]

   Two layers, as in the code: the `alter_column` methods hand *constructs* to `_exec`;
   `_exec` (offline mode) compiles the construct with the dialect's visitor and appends the
   statement to the output buffer.  A Python exception stops the call; what has been written
   to the buffer before stays there, so the result of a call is
       (statements emitted so far, None | Some exception-class).

   Values that the code only passes through (types, default expressions, comments, names,
   the USING expression) are abstract: N with decidable equality.  A type carries the one
   bit the code looks at: whether `_type_affinity is DateTime`.

   Server defaults that are Identity / Computed objects are in the model (which construct class, which dialect
   has a visitor, the MySQL / MSSQL pre-blocks); an identity or generation clause lives in the column's default
   slot.  Outside this model: unnamed type-bound constraints, batch mode with table recreate.
   No proofs in this file. *)
From Coq Require Import List NArith Bool.
Import ListNotations.

Inductive dialect := Ddefault | Dsqlite | Dpostgresql | Dmysql | Dmariadb | Dmssql | Doracle.

Record ty := mkTy {
  ty_id : N;
  ty_dt : bool;          (* _type_affinity is sqltypes.DateTime *)
  ty_ck : option N       (* name of the type-bound CHECK constraint that toimpl's _count_constraint accepts for a
                            column of this type on the dialect under test (Boolean / non-native Enum with
                            create_constraint=True); SQLAlchemy's create rule is an oracle observed by the harness *)
}.

(* Python's three-valued arguments: False (= not given) / None / a value *)
Inductive tri (A:Type) := TFalse | TNone | TSome (a:A).
Arguments TFalse {A}. Arguments TNone {A}. Arguments TSome {A} a.

(* what kind of object a server default is: a plain string / text(), sqlalchemy.Computed, sqlalchemy.Identity *)
Inductive dkind := KPlain | KComputed | KIdentity.

Record request := mkReq {
  r_type    : option ty;      (* type_ *)
  r_null    : option bool;    (* nullable *)
  r_default : tri N;          (* server_default: False / None / value *)
  r_name    : option N;       (* new_column_name *)
  r_comment : tri N;          (* comment: False / None / value *)
  r_autoinc : option bool;    (* autoincrement *)
  r_using   : option N;       (* postgresql_using *)
  r_dkind   : dkind           (* kind of the server_default object (meaningful when r_default is a value) *)
}.

Record existing := mkEx {
  e_name    : N;              (* column_name: the column's current name, always given *)
  e_type    : option ty;      (* existing_type *)
  e_null    : option bool;    (* existing_nullable *)
  e_default : tri N;          (* existing_server_default: op.alter_column's default is False *)
  e_comment : option N;       (* existing_comment *)
  e_autoinc : option bool;    (* existing_autoincrement *)
  e_dkind   : dkind           (* kind of the existing_server_default object (when e_default is a value) *)
}.

(* the MySQL column specification as rendered by _mysql_colspec:
   <type> NULL|NOT NULL [AUTO_INCREMENT] [DEFAULT d] [COMMENT c] *)
Record colspec := mkSpec {
  cs_type : ty; cs_null : bool; cs_autoinc : bool; cs_default : option N; cs_comment : option N }.

(* abstract statement alphabet (what the harness tokenizer parses the emitted SQL into).
   Every statement that addresses a column carries the column name it addresses (first argument c),
   as the real constructs do (column_name); renames carry the old and the new name. *)
Inductive stmt :=
| SetNull (c:N) (b:bool)                 (* ALTER COLUMN c DROP/SET NOT NULL ; oracle: MODIFY c NULL/NOT NULL *)
| SetDefault (c:N) (d:option N)          (* ALTER COLUMN c SET DEFAULT d / DROP DEFAULT ; oracle: MODIFY c DEFAULT d / DEFAULT NULL *)
| SetType (c:N) (t:ty) (usg:option N)    (* ALTER COLUMN c TYPE t [USING u] ; oracle: MODIFY c t *)
| SetComment (c:N) (cm:option N)         (* COMMENT ON COLUMN t.c IS 'cm' / NULL ; oracle: IS '' *)
| Rename (c:N) (n:N)                     (* ALTER TABLE t RENAME [COLUMN] c TO n *)
| MySQLChange (c:N) (n:N) (s:colspec)    (* ALTER TABLE t CHANGE c n <colspec> *)
| MySQLModify (c:N) (s:colspec)          (* ALTER TABLE t MODIFY c <colspec> *)
| MySQLAlterDefault (c:N) (d:option N)   (* ALTER TABLE t ALTER COLUMN c SET DEFAULT d / DROP DEFAULT *)
| MSSQLAlterNull (c:N) (t:ty) (b:bool)   (* ALTER TABLE t ALTER COLUMN c <type> NULL/NOT NULL *)
| MSSQLAlterType (c:N) (t:ty)            (* ALTER TABLE t ALTER COLUMN c <type> *)
| MSSQLDropDefault (c:N)                 (* declare @const_name ... sys.default_constraints ... col_name(..) = 'c' ... drop constraint *)
| MSSQLAddDefault (c:N) (d:N)            (* ALTER TABLE t ADD DEFAULT d FOR c *)
| MSSQLSpRename (c:N) (n:N)              (* EXEC sp_rename 't.c', n, 'COLUMN' *)
| AddIdentity (c:N) (v:N)                (* pg: ALTER COLUMN c ADD GENERATED .. AS IDENTITY (..) ; oracle: MODIFY c GENERATED .. AS IDENTITY (..) *)
| DropIdentity (c:N)                     (* ALTER COLUMN c DROP IDENTITY ; oracle: MODIFY c DROP IDENTITY *)
| AlterIdentity (c:N) (v:N) (full:bool)  (* pg: ALTER COLUMN c SET .. SET .. : the attributes in which v differs from the existing
                                            identity (full: from everything, the existing default is not an identity) *)
| AlterIdentityEmpty (c:N)               (* pg: ALTER COLUMN c <nothing>: the SET loop found no identity attribute to set *)
| DropConstraint (k:N)                   (* ALTER TABLE t DROP CONSTRAINT k      (type-bound CHECK of the existing type) *)
| AddConstraint (c:N) (k:N).             (* ALTER TABLE t ADD CONSTRAINT k CHECK (c IN (...))  (type-bound CHECK of the new type) *)

(* exception classes *)
Inductive err := CommandError | CompileError | NotImplementedErr | OtherErr.

(* ------------------------------------------------------------------ constructs handed to _exec.
   Every construct is built as Cls(table_name, column_name, ...): the column_name is the [col] argument of
   [compile] / [exec] below (every call site passes the method's own column_name) *)
Inductive construct :=
| ColumnNullable (nullable:bool) (existing_type:option ty)
| ColumnDefault (d:option N)
| ColumnType (t:ty)
| ColumnComment (c:option N)
| ColumnName (n:N)
| PostgresqlColumnType (t:ty) (usg:option N)
| ComputedColumnDefault
| IdentityColumnDefault (default:option N) (default_is_identity:bool) (existing:tri N) (existing_is_identity:bool)
| MySQLChangeColumn (newname:N) (s:colspec) (bad_default:bool)   (* bad_default: the default to render is a Computed/Identity *)
| MySQLModifyColumn (s:colspec) (bad_default:bool)
| MySQLAlterDefaultC (d:option N)
| ExecDropConstraint.

Definition is_mysql (d:dialect) : bool := match d with Dmysql | Dmariadb => true | _ => false end.

(* the @compiles visitor table: base.py defaults, overridden per dialect *)
Definition compile (d:dialect) (col:N) (c:construct) : stmt + err :=
  match c with
  | ColumnNullable b et =>
      match d with
      | Dmysql | Dmariadb => inr NotImplementedErr          (* _mysql_doesnt_support_individual *)
      | Dmssql => match et with Some t => inl (MSSQLAlterNull col t b) | None => inr OtherErr end
      | _ => inl (SetNull col b)
      end
  | ColumnDefault dv =>
      match d with
      | Dmysql | Dmariadb => inr NotImplementedErr
      | Dmssql => match dv with Some v => inl (MSSQLAddDefault col v) | None => inr OtherErr end
      | _ => inl (SetDefault col dv)
      end
  | ColumnType t =>
      match d with
      | Dmysql | Dmariadb => inr NotImplementedErr
      | Dmssql => inl (MSSQLAlterType col t)
      | _ => inl (SetType col t None)
      end
  | ColumnComment cm =>
      match d with
      | Dpostgresql | Doracle => inl (SetComment col cm)
      | _ => inr CompileError                               (* no visitor: UnsupportedCompilationError *)
      end
  | ColumnName n =>
      match d with
      | Dmysql | Dmariadb => inr NotImplementedErr
      | Dmssql => inl (MSSQLSpRename col n)
      | _ => inl (Rename col n)
      end
  | PostgresqlColumnType t u =>
      match d with Dpostgresql => inl (SetType col t u) | _ => inr CompileError end
  | ComputedColumnDefault => inr CompileError              (* base.visit_computed_column raises on every dialect *)
  | IdentityColumnDefault dv di ex ei =>
      match d with
      | Dpostgresql =>                                     (* postgresql.visit_identity_column *)
          match dv with
          | None => inl (DropIdentity col)
          | Some v =>
              match ex with
              | TNone => if di then inl (AddIdentity col v) else inr OtherErr
              | _ => if di then inl (AlterIdentity col v (negb (match ex with TSome _ => ei | _ => false end)))
                     else inl (AlterIdentityEmpty col)    (* _compare_identity_default finds nothing to set *)
              end
          end
      | Doracle =>                                         (* oracle.visit_identity_column *)
          match dv with
          | None => inl (DropIdentity col)
          | Some v => if di then inl (AddIdentity col v) else inr OtherErr   (* visit_identity_column(<str>): AttributeError *)
          end
      | _ => inr CompileError                              (* base.visit_identity_column raises *)
      end
  (* format_server_default asserts on a Computed / Identity: AssertionError *)
  | MySQLChangeColumn n s bad => if is_mysql d then (if bad then inr OtherErr else inl (MySQLChange col n s)) else inr CompileError
  | MySQLModifyColumn s bad => if is_mysql d then (if bad then inr OtherErr else inl (MySQLModify col s)) else inr CompileError
  | MySQLAlterDefaultC dv => if is_mysql d then inl (MySQLAlterDefault col dv) else inr CompileError
  | ExecDropConstraint => match d with Dmssql => inl (MSSQLDropDefault col) | _ => inr CompileError end
  end.

(* ------------------------------------------------------------------ the output-buffer monad *)
Definition out := (list stmt * option err)%type.
Definition ret : out := ([], None).
Definition raise (e:err) : out := ([], Some e).
Definition exec (d:dialect) (col:N) (c:construct) : out :=
  match compile d col c with inl s => ([s], None) | inr e => ([], Some e) end.
Definition seq (a b : out) : out :=
  match a with
  | (sa, None) => let (sb, e) := b in (sa ++ sb, e)
  | (sa, Some e) => (sa, Some e)
  end.
Infix ">>" := seq (at level 61, left associativity).
Definition when (c:bool) (a:out) : out := if c then a else ret.

Definition isSome {A} (o:option A) : bool := match o with Some _ => true | None => false end.
Definition given {A} (t:tri A) : bool := match t with TFalse => false | _ => true end.  (* `is not False` *)

(* ------------------------------------------------------------------ sqla_compat._server_default_is_computed / _is_identity:
   isinstance(x, Computed) / isinstance(x, Identity) of either argument *)
Definition dkind_eqb (a b:dkind) : bool :=
  match a, b with KPlain, KPlain | KComputed, KComputed | KIdentity, KIdentity => true | _, _ => false end.
Definition is_kind (k:dkind) (t:tri N) (tk:dkind) : bool :=
  dkind_eqb tk k && match t with TSome _ => true | _ => false end.
Definition _server_default_is_computed (sd:tri N) (sk:dkind) (esd:tri N) (ek:dkind) : bool :=
  is_kind KComputed sd sk || is_kind KComputed esd ek.
Definition _server_default_is_identity (sd:tri N) (sk:dkind) (esd:tri N) (ek:dkind) : bool :=
  is_kind KIdentity sd sk || is_kind KIdentity esd ek.

(* ------------------------------------------------------------------ DefaultImpl.alter_column *)
(* arguments as in the signature; existing_* other than existing_type / existing_server_default are not looked at *)
Definition default_alter_column (d:dialect) (col:N) (nullable:option bool) (server_default:tri N) (name:option N)
           (type_:option ty) (comment:tri N) (existing_type:option ty)
           (sk:dkind) (existing_server_default:tri N) (ek:dkind) : out :=
  (* autoincrement / existing_autoincrement: util.warn only *)
  (match nullable with Some b => exec d col (ColumnNullable b existing_type) | None => ret end) >>
  (match server_default with
   | TFalse => ret
   | sd =>
     if _server_default_is_computed sd sk existing_server_default ek then exec d col ComputedColumnDefault
     else if _server_default_is_identity sd sk existing_server_default ek then
       exec d col (IdentityColumnDefault (match sd with TSome v => Some v | _ => None end) (is_kind KIdentity sd sk)
                                         existing_server_default (is_kind KIdentity existing_server_default ek))
     else match sd with
          | TFalse => ret
          | TNone => exec d col (ColumnDefault None)
          | TSome v => exec d col (ColumnDefault (Some v))
          end
   end) >>
  (match type_ with Some t => exec d col (ColumnType t) | None => ret end) >>
  (match comment with
   | TFalse => ret
   | TNone => exec d col (ColumnComment None)
   | TSome c => exec d col (ColumnComment (Some c))
   end) >>
  (match name with Some n => exec d col (ColumnName n) | None => ret end).

(* ------------------------------------------------------------------ MySQLImpl *)
Definition _is_mysql_allowed_functional_default (type_:option ty) (server_default:tri N) : bool :=
  match type_ with
  | Some t => ty_dt t && match server_default with TNone => false | _ => true end   (* `is not None`: False passes *)
  | None => false
  end.

Definition or_else {A} (a b : option A) : option A := match a with Some _ => a | None => b end.
Definition tri_or_else (a:tri N) (b:tri N) : tri N := match a with TFalse => b | _ => a end.

(* _mysql_colspec: which clauses are rendered *)
Definition _mysql_colspec (nullable:bool) (server_default:tri N) (type_:ty) (autoincrement:option bool)
           (comment:tri N) : colspec :=
  mkSpec type_ nullable
         (match autoincrement with Some true => true | _ => false end)
         (match server_default with TSome v => Some v | _ => None end)
         (match comment with TSome c => Some c | _ => None end).

Definition opt_to_tri (o:option N) : tri N := match o with Some c => TSome c | None => TNone end.

Definition mysql_alter_column (d:dialect) (req:request) (ex:existing) : out :=
  let col := e_name ex in
  let nullable := match r_null req with Some b => b
                  | None => match e_null ex with Some b => b | None => true end end in
  let type_ := or_else (r_type req) (e_type ex) in
  let default := tri_or_else (r_default req) (e_default ex) in
  let autoincrement := or_else (r_autoinc req) (e_autoinc ex) in
  let comment := match r_comment req with TFalse => opt_to_tri (e_comment ex) | c => c end in
  (* the default that _mysql_colspec renders is a Computed / Identity object *)
  let bad := match r_default req with
             | TFalse => negb (dkind_eqb (e_dkind ex) KPlain) && match e_default ex with TSome _ => true | _ => false end
             | TNone => false
             | TSome _ => negb (dkind_eqb (r_dkind req) KPlain)
             end in
  (* "modifying computed or identity columns is not supported, the default will raise" *)
  (if _server_default_is_identity (r_default req) (r_dkind req) (e_default ex) (e_dkind ex)
      || _server_default_is_computed (r_default req) (r_dkind req) (e_default ex) (e_dkind ex)
   then default_alter_column d col (r_null req) (r_default req) None (r_type req) TFalse (e_type ex)
                             (r_dkind req) (e_default ex) (e_dkind ex)
   else ret) >>
  (if isSome (r_name req) || _is_mysql_allowed_functional_default type_ (r_default req) then
    match type_ with
    | None => raise CommandError                           (* MySQLChangeColumn.__init__ *)
    | Some t => exec d col (MySQLChangeColumn (match r_name req with Some n => n | None => e_name ex end)
                                          (_mysql_colspec nullable default t autoincrement comment) bad)
    end
  else if isSome (r_null req) || isSome (r_type req) || isSome (r_autoinc req) || given (r_comment req) then
    match type_ with
    | None => raise CommandError
    | Some t => exec d col (MySQLModifyColumn (_mysql_colspec nullable default t autoincrement comment) bad)
    end
  else match r_default req with
       | TFalse => ret
       | TNone => exec d col (MySQLAlterDefaultC None)
       | TSome v => exec d col (MySQLAlterDefaultC (Some v))
       end).

(* ------------------------------------------------------------------ MSSQLImpl *)
Definition mssql_alter_column (d:dialect) (req:request) (ex:existing) : out :=
  let col := e_name ex in
  (* first block: fold the type into the NULL / NOT NULL alter *)
  let '(pre, nullable, type_, existing_type) :=
    match r_null req, r_type req, e_type ex, e_null ex with
    | Some b, Some t, _, _ => (None, Some b, None, Some t)
    | Some b, None, None, _ => (Some CommandError, Some b, None, None)
    | Some b, None, Some et, _ => (None, Some b, None, Some et)
    | None, Some t, _, Some eb => (None, Some eb, None, Some t)
    | None, ty_, et, _ => (None, None, ty_, et)            (* incl. the util.warn branch *)
    end in
  (* used_default: an Identity / Computed default is handed to DefaultImpl (kw["server_default"] ...) *)
  let used_default := _server_default_is_identity (r_default req) (r_dkind req) (e_default ex) (e_dkind ex)
                      || _server_default_is_computed (r_default req) (r_dkind req) (e_default ex) (e_dkind ex) in
  match pre with
  | Some e => raise e
  | None =>
    (if used_default
     then default_alter_column d col nullable (r_default req) None type_ (r_comment req) existing_type
                               (r_dkind req) (e_default ex) (e_dkind ex)
     else default_alter_column d col nullable TFalse None type_ (r_comment req) existing_type KPlain TNone KPlain) >>
    (match r_default req with
     | TFalse => ret
     | sd =>
       if used_default then ret else
       when (given (e_default ex) || match sd with TNone => true | _ => false end) (exec d col ExecDropConstraint) >>
       (match sd with
        | TSome v => default_alter_column d col None (TSome v) None None TFalse None (r_dkind req) TNone KPlain
        | _ => ret
        end)
     end) >>
    (match r_name req with
     | Some n => default_alter_column d col None TFalse (Some n) None TFalse None KPlain TNone KPlain
     | None => ret
     end)
  end.

(* ------------------------------------------------------------------ PostgresqlImpl *)
Definition postgresql_alter_column (d:dialect) (req:request) (ex:existing) : out :=
  let col := e_name ex in
  if isSome (r_using req) && negb (isSome (r_type req)) then raise CommandError
  else
    (match r_type req with Some t => exec d col (PostgresqlColumnType t (r_using req)) | None => ret end) >>
    default_alter_column d col (r_null req) (r_default req) (r_name req) None (r_comment req) (e_type ex)
                         (r_dkind req) (e_default ex) (e_dkind ex).

(* ------------------------------------------------------------------ dispatch (impl class by dialect name) *)
Definition alter_column (d:dialect) (req:request) (ex:existing) : out :=
  match d with
  | Dmysql | Dmariadb => mysql_alter_column d req ex
  | Dmssql => mssql_alter_column d req ex
  | Dpostgresql => postgresql_alter_column d req ex
  | Ddefault | Dsqlite | Doracle =>
      default_alter_column d (e_name ex) (r_null req) (r_default req) (r_name req) (r_type req) (r_comment req) (e_type ex)
                           (r_dkind req) (e_default ex) (e_dkind ex)
  end.

(* ------------------------------------------------------------------ toimpl.alter_column:
   drops the type-bound constraint of existing_type before, adds the one of type_ after *)
Definition drop_constraint (d:dialect) (k:N) : out :=   (* impl.drop_constraint on a type-bound CHECK *)
  match d with
  | Dmysql | Dmariadb => ret            (* MySQLImpl.drop_constraint: `_is_type_bound(const)` -> return *)
  | Dsqlite => ret                      (* SQLiteImpl.drop_constraint: raises only when _create_rule is None *)
  | _ => ([DropConstraint k], None)     (* self._exec(schema.DropConstraint(const)) *)
  end.
Definition add_constraint (d:dialect) (col:N) (k:N) : out :=
  match d with
  | Dsqlite => ret                      (* SQLiteImpl.add_constraint: util.warn("Skipping unsupported ALTER ...") *)
  | _ => ([AddConstraint col k], None)  (* self._exec(schema.AddConstraint(const)); the CHECK text names the column [col] *)
  end.
Definition ck_of (t:option ty) : option N := match t with Some t => ty_ck t | None => None end.

Definition toimpl_alter_column (d:dialect) (req:request) (ex:existing) : out :=
  (match e_type ex, r_type req with                      (* if existing_type and type_: *)
   | Some et, Some _ => match ty_ck et with Some k => drop_constraint d k | None => ret end
   | _, _ => ret
   end) >>
  alter_column d req ex >>
  (* the post-alter table is built with column(new_column_name or column_name, type_): the column has been
     renamed by now (fix 0b330f6) *)
  (match ck_of (r_type req) with
   | Some k => add_constraint d (match r_name req with Some n => n | None => e_name ex end) k
   | None => ret
   end).   (* if type_: *)

Definition plan := toimpl_alter_column.

(* ------------------------------------------------------------------ meaning of the statements *)
Record colstate := mkCol {
  c_name : N; c_type : ty; c_null : bool; c_default : option N; c_comment : option N; c_autoinc : bool }.

(* what a statement does to the column it addresses *)
Definition apply (st:colstate) (s:stmt) : colstate :=
  match s with
  | SetNull _ b => mkCol (c_name st) (c_type st) b (c_default st) (c_comment st) (c_autoinc st)
  | SetDefault _ dv | MySQLAlterDefault _ dv =>
      mkCol (c_name st) (c_type st) (c_null st) dv (c_comment st) (c_autoinc st)
  | SetType _ t _ => mkCol (c_name st) t (c_null st) (c_default st) (c_comment st) (c_autoinc st)
  | SetComment _ cm => mkCol (c_name st) (c_type st) (c_null st) (c_default st) cm (c_autoinc st)
  | Rename _ n | MSSQLSpRename _ n => mkCol n (c_type st) (c_null st) (c_default st) (c_comment st) (c_autoinc st)
  (* MySQL CHANGE / MODIFY replace the whole column definition: a clause that is absent means
     "no default", "no comment", "not auto_increment" *)
  | MySQLChange _ n s => mkCol n (cs_type s) (cs_null s) (cs_default s) (cs_comment s) (cs_autoinc s)
  | MySQLModify _ s => mkCol (c_name st) (cs_type s) (cs_null s) (cs_default s) (cs_comment s) (cs_autoinc s)
  | MSSQLAlterNull _ t b => mkCol (c_name st) t b (c_default st) (c_comment st) (c_autoinc st)
  (* T-SQL: "ANSI_NULL defaults are always on for ALTER COLUMN; if not specified, the column is nullable" *)
  | MSSQLAlterType _ t => mkCol (c_name st) t true (c_default st) (c_comment st) (c_autoinc st)
  | MSSQLDropDefault _ => mkCol (c_name st) (c_type st) (c_null st) None (c_comment st) (c_autoinc st)
  | MSSQLAddDefault _ v | AddIdentity _ v | AlterIdentity _ v _ =>
      mkCol (c_name st) (c_type st) (c_null st) (Some v) (c_comment st) (c_autoinc st)
  | DropIdentity _ => mkCol (c_name st) (c_type st) (c_null st) None (c_comment st) (c_autoinc st)
  | AlterIdentityEmpty _ => st
  (* table-level CHECK constraints: none of the six column attributes *)
  | DropConstraint _ | AddConstraint _ _ => st
  end.

(* the column name a statement addresses (None: a table-level statement naming no column) *)
Definition addr (s:stmt) : option N :=
  match s with
  | SetNull c _ | SetDefault c _ | SetType c _ _ | SetComment c _ | Rename c _ | MySQLChange c _ _ | MySQLModify c _
  | MySQLAlterDefault c _ | MSSQLAlterNull c _ _ | MSSQLAlterType c _ | MSSQLDropDefault c | MSSQLAddDefault c _
  | MSSQLSpRename c _ | AddConstraint c _ | AddIdentity c _ | DropIdentity c | AlterIdentity c _ _
  | AlterIdentityEmpty c => Some c
  | DropConstraint _ => None
  end.

(* a statement that addresses a name the column does not have at that point fails (None): the column it
   names does not exist.  So the ORDER of the statements relative to a rename matters. *)
Definition sem (st:colstate) (s:stmt) : option colstate :=
  match addr s with
  | Some c => if N.eqb c (c_name st) then Some (apply st s) else None
  | None => Some (apply st s)
  end.

Fixpoint run (ss:list stmt) (st:colstate) : option colstate :=
  match ss with
  | [] => Some st
  | s :: r => match sem st s with Some st' => run r st' | None => None end
  end.

(* "existing overridden by requested" *)
Definition override (st:colstate) (req:request) : colstate :=
  mkCol (match r_name req with Some n => n | None => c_name st end)
        (match r_type req with Some t => t | None => c_type st end)
        (match r_null req with Some b => b | None => c_null st end)
        (match r_default req with TFalse => c_default st | TNone => None | TSome v => Some v end)
        (match r_comment req with TFalse => c_comment st | TNone => None | TSome c => Some c end)
        (match r_autoinc req with Some b => b | None => c_autoinc st end).
