(* The planners behind `upgrade` and `downgrade` once the target string has been resolved
   (target resolution itself is C16): RevisionMap._collect_upgrade_revisions,
   _collect_downgrade_revisions, _iterate_related_revisions(check=True), _topological_sort,
   iterate_revisions, ScriptDirectory._upgrade_revs/_downgrade_revs.  No proofs here. *)
From AV Require Export Model.RevGraph Model.Cycle Model.Topo.

Inductive plan_err :=
| PEOverlap     (* RevisionError "Requested revision X overlaps with other requested revisions" *)
| PERange       (* RangeNotAncestorError *)
| PERevision    (* any other RevisionError *)
| PEAssert      (* AssertionError (`assert not todo`) *)
| PEFuel        (* model only: out of fuel; proved unreachable *)
| PEOther.      (* implementation side only: an unexpected exception class *)
Inductive pres (A:Type) := POk (a:A) | PErr (e:plan_err).
Arguments POk {A} a. Arguments PErr {A} e.

(* --- _iterate_related_revisions with check=True --- *)
(* like RevGraph.dfs, additionally recording every popped node (per_target.add(rev) happens
   before the `if rev in seen: continue`) *)
Fixpoint dfs_p (succ : N -> list N) (fuel:nat) (todo seen popped : list N) : option (list N * list N) :=
  match fuel with
  | O => None
  | S f => match todo with
           | [] => Some (seen, popped)
           | x :: rest => if memN x seen then dfs_p succ f rest seen (x :: popped)
                          else dfs_p succ f (rev (succ x) ++ rest) (x :: seen) (x :: popped)
           end
  end.

Fixpoint iterate_check (succ : N -> list N) (fuel:nat) (targets all_targets seen : list N) : pres (list N) :=
  match targets with
  | [] => POk seen
  | t :: ts =>
    match dfs_p succ fuel [t] seen [] with
    | None => PErr PEFuel
    | Some (seen', popped) =>
      (* overlaps = per_target.intersection(targets).difference([target]) *)
      if existsb (fun p => memN p all_targets && negb (N.eqb p t)) popped then PErr PEOverlap
      else iterate_check succ fuel ts all_targets seen'
    end
  end.

Definition anc_check (G:graph) (targets : list N) : pres (list N) :=
  iterate_check (norm_down G) (dfs_fuel (norm_down G) G [0%N]) targets targets [].

(* get_ancestors(rev_id) inside _topological_sort *)
Definition anc_of (G:graph) (x:N) : list N :=
  match reach_set (norm_down G) G [x] with Some l => l | None => [] end.
Definition linear_of (G:graph) (x:N) : bool :=
  match find_rev G x with
  | Some r => match r_ndeps r, r_down r with [], [_] => true | _, _ => false end
  | None => false
  end.

(* sorted(set, key=inserted_order.index): ids are load positions, so this is numeric order *)
Fixpoint insertN (x:N) (l:list N) : list N :=
  match l with [] => [x] | y :: r => if N.leb x y then x :: l else y :: insertN x r end.
Definition sortN (l:list N) : list N := fold_right insertN [] l.

Definition topo_fuel (todo : list N) : nat := S ((length todo + 2) * (length todo + 2)).

Definition topological_sort (G:graph) (revisions heads : list N) : pres (list N) :=
  let todo := revisions in
  let current_heads := sortN (dedupe (filter (fun h => memN h todo) heads)) in
  match run (norm_down G) (anc_of G) (linear_of G) (topo_fuel todo)
            (init (anc_of G) todo current_heads current_heads) with
  | None => PErr PEFuel
  | Some o => if subsetN todo o then POk o else PErr PEAssert      (* assert not todo *)
  end.

(* --- upgrade: iterate_revisions(destination, current, implicit_base=True), reversed --- *)
Definition collect_upgrade (G:graph) (targets lower : list N) : pres (list N * list N) :=
  match anc_check G targets with
  | PErr e => PErr e
  | POk req =>
    match anc_check G lower with
    | PErr e => PErr e
    | POk cur => POk (diffN (dedupe (req ++ targets)) (cur ++ lower), targets)
    end
  end.

Definition upgrade_plan (G:graph) (targets lower : list N) : pres (list N) :=
  match collect_upgrade G targets lower with
  | PErr e => PErr e
  | POk (needs, heads) =>
    match topological_sort G needs heads with
    | PErr e => PErr e
    | POk o => POk (rev o)
    end
  end.

(* --- downgrade: iterate_revisions(current, destination, select_for_downgrade=True) ---
   target = None for `base`; branch = the revision `_resolve_branch(branch_label)` when the
   resolved target carried a branch label (for `-N` from the current state the code sets
   branch_label := current_revisions[0]) *)
Definition reach_or_nil (succ : N -> list N) (G:graph) (targets : list N) : list N :=
  match reach_set succ G targets with Some l => l | None => [] end.

(* roots of the removal: children by down_revision of the target, all bases for `base`;
   `if branch_label and len(roots) > 1:` keep those among the down-ancestors of the branch revision *)
Definition roots0_of (G:graph) (target : option N) : list N :=
  match target with None => bases_of G | Some t => nextrev G t end.
Definition roots_of (G:graph) (target branch : option N) : list N :=
  match branch, roots0_of G target with
  | Some b, _ :: _ :: _ => interN (roots0_of G target) (reach_or_nil (down G) G [b])
  | _, _ => roots0_of G target
  end.

Definition collect_downgrade (G:graph) (target branch : option N) (upper : list N) : pres (list N * list N) :=
  let roots := roots_of G target branch in
  match branch, roots0_of G target, roots with
  | Some _, _ :: _ :: _, [] => PErr PERevision       (* "Not a valid downgrade target from current heads" *)
  | _, _, _ =>
    let desc := reach_or_nil (all_nextrev G) G roots in
    let active := reach_or_nil (norm_down G) G upper in
    let dg := interN desc active in
    match target, dg with
    | Some t, [] => if memN t upper then POk (dg, upper) else PErr PERange
    | _, _ => POk (dg, upper)
    end
  end.

Definition downgrade_plan (G:graph) (target branch : option N) (upper : list N) : pres (list N) :=
  match collect_downgrade G target branch upper with
  | PErr e => PErr e
  | POk (dg, heads) => topological_sort G dg heads
  end.

(* --- _normalize_depends_on: what r_ndeps must be (as a set) --- *)
Definition normalize (G:graph) (r:revision) : list N :=
  let ancs := removeN (r_id r) (reach_or_nil (down G) G [r_id r]) in
  diffN (r_deps r) (flat_map (fun a => of_rev r_deps G a) ancs).
Definition ndeps_okb (G:graph) : bool :=
  forallb (fun r => seteqN (r_ndeps r) (normalize G r) && nodupb (r_ndeps r)) G.

Definition plan_err_eqb (a b : plan_err) : bool :=
  match a, b with
  | PEOverlap, PEOverlap | PERange, PERange | PERevision, PERevision | PEAssert, PEAssert
  | PEFuel, PEFuel | PEOther, PEOther => true
  | _, _ => false
  end.
Definition pres_list_eqb (a b : pres (list N)) : bool :=
  match a, b with
  | POk x, POk y => list_eqb N.eqb x y
  | PErr x, PErr y => plan_err_eqb x y
  | _, _ => false
  end.
