(* Shared revision-graph core: the data alembic/script/revision.py works on and the
   traversal `_iterate_related_revisions`, transcribed.  No proofs here. *)
From AV Require Export Base.ListSet.

(* One revision file.  Ids are load positions interned by the harness (N).
   r_down   = Revision._versioned_down_revisions
   r_deps   = Revision._resolved_dependencies      (already resolved to ids)
   r_ndeps  = Revision._normalized_resolved_dependencies, in the order the
              implementation stored them (an "order oracle": CPython iterates a
              set of strings in hash order); only the planners read it
   r_labels = Revision._orig_branch_labels (labels interned as N)            *)
Record revision := mkRev { r_id : N; r_down : list N; r_deps : list N; r_ndeps : list N; r_labels : list N }.
Definition graph := list revision.     (* in load order = key order of RevisionMap._revision_map *)

Definition ids (G:graph) : list N := map r_id G.
Fixpoint find_rev (G:graph) (x:N) : option revision :=
  match G with [] => None | r :: G' => if N.eqb (r_id r) x then Some r else find_rev G' x end.

Definition all_down_r (r:revision) : list N := dedupe (r_down r ++ r_deps r).     (* _all_down_revisions *)
Definition norm_down_r (r:revision) : list N := dedupe (r_down r ++ r_ndeps r).   (* _normalized_down_revisions *)

Definition of_rev (f : revision -> list N) (G:graph) (x:N) : list N :=
  match find_rev G x with Some r => f r | None => [] end.
Definition down (G:graph) : N -> list N := of_rev r_down G.
Definition all_down (G:graph) : N -> list N := of_rev all_down_r G.
Definition norm_down (G:graph) : N -> list N := of_rev norm_down_r G.

(* Revision.nextrev / _all_nextrev as built by add_nextrev: children in load order *)
Definition children_by (f : revision -> list N) (G:graph) (x:N) : list N :=
  map r_id (filter (fun c => memN x (f c)) G).
Definition nextrev (G:graph) : N -> list N := children_by r_down G.
Definition all_nextrev (G:graph) : N -> list N := children_by all_down_r G.

(* _iterate_related_revisions without `check`: a stack (head of the list = top), a seen
   set, yield order = reverse of the returned list.  One unit of fuel per loop iteration. *)
Fixpoint dfs (succ : N -> list N) (fuel:nat) (todo seen : list N) : option (list N) :=
  match fuel with
  | O => None
  | S f => match todo with
           | [] => Some seen
           | x :: rest => if memN x seen then dfs succ f rest seen
                          else dfs succ f (rev (succ x) ++ rest) (x :: seen)
           end
  end.

(* enough fuel for any call on G: every id is expanded at most once *)
Definition edge_count (succ : N -> list N) (U : list N) : nat :=
  fold_right (fun x acc => S (length (succ x)) + acc) 0 U.
Definition dfs_fuel (succ : N -> list N) (G:graph) (targets : list N) : nat :=
  S (length targets + 2 * edge_count succ (ids G)).

Definition reach_set (succ : N -> list N) (G:graph) (targets : list N) : option (list N) :=
  dfs succ (dfs_fuel succ G targets) targets [].

(* graph-theoretic notions used by the specifications *)
Inductive path (succ : N -> list N) : N -> N -> Prop :=
| path_refl x : path succ x x
| path_step x y z : In y (succ x) -> path succ y z -> path succ x z.
Definition path1 (succ : N -> list N) (x z : N) : Prop := exists y, In y (succ x) /\ path succ y z.
Definition cyclic (succ : N -> list N) : Prop := exists x, path1 succ x x.

Definition wf_refs (G:graph) : Prop :=
  NoDup (ids G) /\ forall r, In r G -> incl (r_down r) (ids G) /\ incl (r_deps r) (ids G).
Definition wf_refsb (G:graph) : bool :=
  nodupb (ids G) && forallb (fun r => subsetN (r_down r) (ids G) && subsetN (r_deps r) (ids G)) G.
