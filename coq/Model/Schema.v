(* First-order database schemas as autogenerate sees them (C06 / C07 / C20), the DDL meaning
   of the abstract operations on them, and what SQLAlchemy reflects back from SQLite.
   No proofs here.

   Universe: tables; columns with a type (token0 family of the SQLite type compiler output plus
   its parenthesised arguments), nullability, a primary-key flag and a server default (a Python
   string or a text() expression, as a list of code points); named unique constraints; named indexes
   (unique or not) over plain columns; named foreign keys (single- or multi-column, possibly
   self-referential, with ON UPDATE / ON DELETE / DEFERRABLE / INITIALLY options in any casing).  Names are interned as N.
   Outside, and what the code does with it on SQLite (each confirmed on the real code; the harness decorates schemas with the
   first two kinds and with collations, and the comparison must be unaffected):
   - CHECK constraints: SQLAlchemy reflects them, autogenerate has no comparator for them: a CHECK that is added, removed or
     changed is never reported; it only travels inline inside CreateTableOp.  C06 is silent about them (no operation mentions
     them, database and model may differ in them for ever), C07 does not list them.
   - expression indexes (Index(name, func.lower(col)) / Index(name, text(...))): SQLAlchemy's SQLite dialect skips them when
     reflecting ("Skipped unsupported reflection of expression-based index"), and DefaultImpl._skip_functional_indexes drops a
     metadata expression index whose name is not among the reflected ones (always, then) with a warning: they are invisible on both
     sides, never created (not even for a new table), dropped or altered by autogenerate, never shown to the filters.
   - string collations (String(20, collation=NOCASE)): rendered into the DDL, not reflected by SQLite; _column_args_match compares
     the trailing type tokens only when both sides have as many, so a collation is never reported.
   - table / column comments: not a SQLite feature (dialect.supports_comments is False, the comparators return at once).
   - identity columns; foreign key MATCH.
   Unnamed unique constraints (t_uuqs) are modelled for the correspondence (the unnamed_metadata_uniques / conn_uniques_by_sig
   branch, the name filter with name None); the C06 / C07 / C20-conservativity theorems assume there are none. *)
From AV Require Export Base.ListSet.

(* ---------------------------------------------------------------- data *)

(* A column type as DefaultImpl._tokenize_column_type sees it: token0 (interned: the harness holds the
   catalogue  0 INTEGER 1 BIGINT 2 SMALLINT 3 VARCHAR 4 TEXT 5 NUMERIC 6 DECIMAL 7 FLOAT 8 BOOLEAN
   9 DATE 10 DATETIME 11 BLOB) and Params.args (the comma separated terms in parentheses, as numbers).
   Params.tokens[1:] and Params.kwargs are empty for every type of the catalogue. *)
Record ty := mkTy { ty_fam : N; ty_args : list N }.
Definition F_NUMERIC : N := 5.
Definition F_DECIMAL : N := 6.

(* Column.server_default: DefaultClause(arg) with arg a Python str (DLit, rendered by SQLAlchemy as a quoted SQL
   literal) or a text() clause (DExpr, rendered verbatim); strings are lists of code points *)
(* ... or Computed(sqltext, persisted=None|True|False): a generated column (GENERATED ALWAYS AS (sqltext) [STORED|VIRTUAL]) *)
Inductive dflt := DLit (s:list N) | DExpr (s:list N) | DComputed (s:list N) (persisted:option bool).
Definition d_txt (d:dflt) : list N := match d with DLit s | DExpr s | DComputed s _ => s end.
Definition is_computed (d:option dflt) : bool := match d with Some (DComputed _ _) => true | _ => false end.

(* c_null_set: nullable= was given explicitly (Column._user_defined_nullable is not NULL_UNSPECIFIED); when it is not,
   c_null is SQLAlchemy's default `not primary_key` *)
Record col := mkCol { c_name : N; c_ty : ty; c_null : bool; c_pk : bool; c_default : option dflt; c_null_set : bool }.

(* unique constraint (name, columns) / index (name, columns, unique) *)
Inductive cons := Uq (n:N) (cols:list N) | Ix (n:N) (cols:list N) (u:bool).
Definition k_name (k:cons) : N := match k with Uq n _ => n | Ix n _ _ => n end.
Definition k_cols (k:cons) : list N := match k with Uq _ c => c | Ix _ c _ => c end.
Definition is_ix (k:cons) : bool := match k with Ix _ _ _ => true | Uq _ _ => false end.
Definition is_uq (k:cons) : bool := negb (is_ix k).

(* ForeignKeyConstraint(cols, [rtable.rcol ...], name=..., onupdate=, ondelete=, deferrable=, initially=); the option
   strings are kept as written in the model (any casing), as lists of code points *)
Record fkopts := mkFkOpts { o_onupdate : option (list N); o_ondelete : option (list N); o_deferrable : option bool;
                            o_initially : option (list N) }.
Definition no_opts : fkopts := mkFkOpts None None None None.
(* f_named = false: the constraint has no name (SQLite reflects a key declared without CONSTRAINT <name> with name None);
   f_name is then only a handle that tells the keys of a table apart, never shown to alembic *)
Record fk := mkFk { f_name : N; f_cols : list N; f_rtable : N; f_rcols : list N; f_opts : fkopts; f_named : bool }.

(* UniqueConstraint(cols) without a name (SQLite reflects it with name None); u_h is only a handle *)
Record uuq := mkUuq { u_h : N; u_cols : list N }.
Definition uuq_eqb (a b:uuq) : bool := list_eqb N.eqb (u_cols a) (u_cols b).     (* the handle is not observable *)

Record table := mkTable { t_name : N; t_cols : list col; t_cons : list cons; t_fks : list fk; t_uuqs : list uuq }.
Definition schema := list table.

(* ---------------------------------------------------------------- equality tests *)
Definition ty_eqb (a b:ty) : bool := N.eqb (ty_fam a) (ty_fam b) && list_eqb N.eqb (ty_args a) (ty_args b).
Definition opt_eqb {A} (e:A->A->bool) (a b:option A) : bool :=
  match a, b with Some x, Some y => e x y | None, None => true | _, _ => false end.
Definition dflt_eqb (a b:dflt) : bool :=
  match a, b with
  | DLit s, DLit s' | DExpr s, DExpr s' => list_eqb N.eqb s s'
  | DComputed s p, DComputed s' p' => list_eqb N.eqb s s' && opt_eqb Bool.eqb p p'
  | _, _ => false
  end.
Definition col_eqb (a b:col) : bool :=
  N.eqb (c_name a) (c_name b) && ty_eqb (c_ty a) (c_ty b) && Bool.eqb (c_null a) (c_null b) && Bool.eqb (c_pk a) (c_pk b)
  && opt_eqb dflt_eqb (c_default a) (c_default b) && Bool.eqb (c_null_set a) (c_null_set b).
Definition fkopts_eqb (a b:fkopts) : bool :=
  opt_eqb (list_eqb N.eqb) (o_onupdate a) (o_onupdate b) && opt_eqb (list_eqb N.eqb) (o_ondelete a) (o_ondelete b)
  && opt_eqb Bool.eqb (o_deferrable a) (o_deferrable b) && opt_eqb (list_eqb N.eqb) (o_initially a) (o_initially b).
Definition fk_eqb (a b:fk) : bool :=
  Bool.eqb (f_named a) (f_named b) && (negb (f_named a) || N.eqb (f_name a) (f_name b)) && list_eqb N.eqb (f_cols a) (f_cols b) && N.eqb (f_rtable a) (f_rtable b)
  && list_eqb N.eqb (f_rcols a) (f_rcols b) && fkopts_eqb (f_opts a) (f_opts b).
Definition cons_eqb (a b:cons) : bool :=
  match a, b with
  | Uq n c, Uq n' c' => N.eqb n n' && list_eqb N.eqb c c'
  | Ix n c u, Ix n' c' u' => N.eqb n n' && list_eqb N.eqb c c' && Bool.eqb u u'
  | _, _ => false
  end.

(* ---------------------------------------------------------------- keyed lists *)
Section Keyed.
  Context {A:Type} (key : A -> N).
  Definition kfind (n:N) (l:list A) : option A := find (fun a => N.eqb (key a) n) l.
  Definition kremove (n:N) (l:list A) : list A := filter (fun a => negb (N.eqb (key a) n)) l.
  Definition kupdate (n:N) (f:A->A) (l:list A) : list A := map (fun a => if N.eqb (key a) n then f a else a) l.
  Definition keys (l:list A) : list N := map key l.
End Keyed.

(* ---------------------------------------------------------------- abstract operations *)
(* The operation objects autogenerate emits, reduced to what they say:
   CreateTableOp (columns + inline unique constraints and foreign keys; its indexes follow as separate CreateIndexOp),
   DropTableOp, AddColumnOp, DropColumnOp, AlterColumnOp (existing_nullable / existing_type / existing_server_default /
   modify_nullable / modify_type / modify_server_default: None = untouched, Some None = default removed), CreateIndexOp | CreateUniqueConstraintOp (OpAddCons),
   DropIndexOp | DropConstraintOp(type_='unique') (OpDropCons, ix = true for an index). *)
Inductive op :=
| OpCreateTable (t:table)
| OpDropTable (t:N)
| OpAddColumn (t:N) (c:col)
| OpDropColumn (t:N) (c:N)
| OpAlterColumn (t c:N) (ex_null:bool) (ex_ty:ty) (ex_default:option dflt)
                (m_null:option bool) (m_ty:option ty) (m_default:option (option dflt))
| OpAddCons (t:N) (k:cons)
| OpDropCons (t:N) (ix:bool) (n:N)
| OpAddFk (t:N) (f:fk)            (* CreateForeignKeyOp *)
| OpDropFk (t:N) (n:N) (named:bool)
| OpAddUUq (t:N) (u:uuq).   (* DropConstraintOp(type_='foreignkey'); named = false: constraint_name is None *)

Definition op_table (o:op) : N :=
  match o with
  | OpCreateTable t => t_name t
  | OpDropTable t | OpAddColumn t _ | OpDropColumn t _ | OpAlterColumn t _ _ _ _ _ _ _ | OpAddCons t _ | OpDropCons t _ _
  | OpAddFk t _ | OpDropFk t _ _ | OpAddUUq t _ => t
  end.

(* ---------------------------------------------------------------- DDL meaning *)
Definition alter_col (m_null:option bool) (m_ty:option ty) (m_default:option (option dflt)) (c:col) : col :=
  mkCol (c_name c) (match m_ty with Some t => t | None => c_ty c end)
        (match m_null with Some b => b | None => c_null c end) (c_pk c)
        (match m_default with Some d => d | None => c_default c end)
        (match m_null with Some _ => true | None => c_null_set c end).

(* effect of an operation on the column list / on the constraint+index list of its table *)
Definition apply_cop (o:op) (cs:list col) : list col :=
  match o with
  | OpAddColumn _ c => cs ++ [c]
  | OpDropColumn _ c => kremove c_name c cs
  | OpAlterColumn _ c _ _ _ mn mt md => kupdate c_name c (alter_col mn mt md) cs
  | _ => cs
  end.
Definition apply_kop (o:op) (ks:list cons) : list cons :=
  match o with
  | OpAddCons _ k => ks ++ [k]
  | OpDropCons _ ix n => filter (fun k => negb (Bool.eqb (is_ix k) ix && N.eqb (k_name k) n)) ks
  | _ => ks
  end.
Definition apply_fop (o:op) (fs:list fk) : list fk :=
  match o with
  (* batch mode keeps the table's named constraints in a dict keyed by name (ApplyBatchImpl.named_constraints): adding a key
     whose name is already there replaces the old one *)
  | OpAddFk _ f => (if f_named f then kremove f_name (f_name f) fs else fs) ++ [f]
  | OpDropFk _ n _ => kremove f_name n fs
  | _ => fs
  end.
Definition apply_uop (o:op) (us:list uuq) : list uuq := match o with OpAddUUq _ u => us ++ [u] | _ => us end.
Definition apply_top (o:op) (t:table) : table :=
  mkTable (t_name t) (apply_cop o (t_cols t)) (apply_kop o (t_cons t)) (apply_fop o (t_fks t)) (apply_uop o (t_uuqs t)).

Definition apply_op (o:op) (S:schema) : schema :=
  match o with
  | OpCreateTable t => S ++ [t]
  | OpDropTable n => kremove t_name n S
  | _ => kupdate t_name (op_table o) (apply_top o) S
  end.
Definition apply_ops_direct (ops:list op) (S:schema) : schema := fold_left (fun s o => apply_op o s) ops S.

(* The upgrade is not the operation objects but the Python text render_python_code prints for them, executed.  The text differs
   from the objects in one place that matters here: autogenerate/render.py _render_server_default prints a Python-string server
   default as repr of re.sub(^QUOTE|QUOTE$, empty, default) - a leading and a trailing quote character are lost (wherever a column is
   printed: create_table, add_column, alter_column(server_default=...)). *)
Definition strip_edge_quotes (s:list N) : list N :=
  let s1 := match s with x :: r => if N.eqb x 39 then r else s | [] => [] end in
  if N.eqb (last s1 0%N) 39 then removelast s1 else s1.
(* rendered with the SQLite migration context, an unparenthesised SQL expression default is also wrapped in parentheses
   (SQLiteImpl.render_ddl_sql_expr); SQLite stores and reflects both spellings alike (autogen_column_reflect adds the same
   parentheses), so the post-state is the same and the wrapping is not transcribed; the harness renders with the context and the
   correspondence compares the post-states *)
Definition render_default (d:dflt) : dflt := match d with DLit s => DLit (strip_edge_quotes s) | _ => d end.
Definition render_col (c:col) : col :=
  mkCol (c_name c) (c_ty c) (c_null c) (c_pk c) (option_map render_default (c_default c)) (c_null_set c).
Definition render_op (o:op) : op :=
  match o with
  | OpCreateTable t => OpCreateTable (mkTable (t_name t) (map render_col (t_cols t)) (t_cons t) (t_fks t) (t_uuqs t))
  | OpAddColumn t c => OpAddColumn t (render_col c)
  | OpAlterColumn t c en et ed mn mt md => OpAlterColumn t c en et ed mn mt (option_map (option_map render_default) md)
  | _ => o
  end.
Definition apply_ops (ops:list op) (S:schema) : schema := apply_ops_direct (map render_op ops) S.

(* ---------------------------------------------------------------- strings *)
Definition ch_quote : N := 39.   (* ' *)
Definition ch_dquote : N := 34.  (* double quote *)
Definition ch_lpar : N := 40.
Definition ch_rpar : N := 41.
(* s = a :: mid ++ [b] with mid non-empty  (Python: re.match of ^A(.+)B$ on s, no newline in s) *)
Definition wrapped (a b:N) (s:list N) : bool :=
  match s with x :: r => N.eqb x a && N.eqb (last r 0%N) b && Nat.leb 2 (length r) | [] => false end.
Definition unwrap (s:list N) : list N := removelast (tl s).
Fixpoint dbl_quotes (s:list N) : list N :=
  match s with [] => [] | x :: r => if N.eqb x ch_quote then x :: x :: dbl_quotes r else x :: dbl_quotes r end.
Definition is_digit_or_dot (x:N) : bool := (N.leb 48 x && N.leb x 57) || N.eqb x 46.

(* str.lower / str.upper on ASCII letters *)
Definition lower_char (x:N) : N := (if N.leb 65 x && N.leb x 90 then x + 32 else x)%N.
Definition upper_char (x:N) : N := (if N.leb 97 x && N.leb x 122 then x - 32 else x)%N.
Definition lower (s:list N) : list N := map lower_char s.
Definition upper (s:list N) : list N := map upper_char s.
Definition s_no_action : list N := [110;111;32;97;99;116;105;111;110]%N.     (* no action *)

(* SQLiteImpl._guess_if_default_is_unparenthesized_sql_expr *)
Definition guess_if_default_is_unparenthesized_sql_expr (expr:list N) : bool :=
  match expr with
  | [] => false
  | [x] => negb (is_digit_or_dot x)                       (* ^[0-9\.]$ *)
  | _ => if wrapped ch_quote ch_quote expr then false      (* ^'.+'$ *)
         else if wrapped ch_lpar ch_rpar expr then false   (* ^\(.+\)$ *)
         else true
  end.

(* ---------------------------------------------------------------- reflection *)
(* What inspector.reflect_table (with SQLiteImpl.autogen_column_reflect listening on column_reflect) /
   get_unique_constraints / get_indexes / get_foreign_keys report for a database created from the schema on SQLite.
   Types, nullability, primary keys, constraint / index / foreign-key names and columns come back as written.
   A server default comes back as the text SQLite stored: SQLAlchemy writes a Python str as a quoted literal
   (quotes doubled) and a text() clause verbatim, SQLite's table_info drops one pair of enclosing parentheses, and
   autogen_column_reflect then re-parenthesises what it guesses to be an unparenthesised SQL expression.
   (Validated against the really reflected tables on every case; the theorems cover the defaults of class dflt_ok.) *)
Definition sqlite_stored_default (d:dflt) : list N :=
  match d with
  | DLit s => ch_quote :: dbl_quotes s ++ [ch_quote]
  | DExpr s => if wrapped ch_lpar ch_rpar s then unwrap s else s
  | DComputed s _ => s
  end.
Definition autogen_column_reflect (dflt_text:list N) : list N :=
  if guess_if_default_is_unparenthesized_sql_expr dflt_text then ch_lpar :: dflt_text ++ [ch_rpar] else dflt_text.
(* a generated column comes back as Computed(sqltext, persisted = (it was declared STORED)); nullable is always explicit on a
   reflected column *)
Definition reflect_default (d:dflt) : dflt :=
  match d with
  | DComputed s p => DComputed s (Some (match p with Some true => true | _ => false end))
  | _ => DExpr (autogen_column_reflect (sqlite_stored_default d))
  end.
Definition reflect_col (c:col) : col := mkCol (c_name c) (c_ty c) (c_null c) (c_pk c) (option_map reflect_default (c_default c)) true.
(* foreign key options: SQLAlchemy's SQLite dialect parses them out of the stored CREATE TABLE text case-insensitively and
   reports them upper-cased; ON DELETE / ON UPDATE NO ACTION is reported as absent; DEFERRABLE / NOT DEFERRABLE as True / False *)
Definition reflect_action (a:option (list N)) : option (list N) :=
  match a with Some s => if list_eqb N.eqb (lower s) s_no_action then None else Some (upper s) | None => None end.
Definition reflect_fkopts (o:fkopts) : fkopts :=
  mkFkOpts (reflect_action (o_onupdate o)) (reflect_action (o_ondelete o)) (o_deferrable o) (option_map upper (o_initially o)).
Definition reflect_fk (f:fk) : fk := mkFk (f_name f) (f_cols f) (f_rtable f) (f_rcols f) (reflect_fkopts (f_opts f)) (f_named f).
Definition reflect_table (t:table) : table := mkTable (t_name t) (map reflect_col (t_cols t)) (t_cons t) (map reflect_fk (t_fks t)) (t_uuqs t).
Definition reflect_sqlite (S:schema) : schema := map reflect_table S.

(* ---------------------------------------------------------------- well-formedness (boolean) *)
Definition all_in (xs ys:list N) : bool := forallb (fun x => memN x ys) xs.
Definition wf_cons (colnames:list N) (k:cons) : bool :=
  match k_cols k with [] => false | _ => true end && nodupb (k_cols k) && all_in (k_cols k) colnames.
Definition wf_col (c:col) : bool :=
  implb (c_pk c) (negb (c_null c)) && (c_null_set c || Bool.eqb (c_null c) (negb (c_pk c)))
  && negb (c_pk c && is_computed (c_default c)).
Definition wf_fk (colnames:list N) (f:fk) : bool :=
  match f_cols f with [] => false | _ => true end && nodupb (f_cols f) && all_in (f_cols f) colnames
  && Nat.eqb (length (f_cols f)) (length (f_rcols f))
  && match o_initially (f_opts f), o_deferrable (f_opts f) with Some _, None => false | _, _ => true end.   (* INITIALLY needs [NOT] DEFERRABLE *)
Definition wf_table (t:table) : bool :=
  nodupb (keys c_name (t_cols t)) && nodupb (keys k_name (t_cons t)) && nodupb (keys f_name (t_fks t))
  && forallb wf_col (t_cols t) && forallb (wf_cons (keys c_name (t_cols t))) (t_cons t)
  && forallb (wf_fk (keys c_name (t_cols t))) (t_fks t).
Definition wf_schemab (S:schema) : bool := nodupb (keys t_name S) && forallb wf_table S.

(* the server defaults the theorems cover: no quote, double quote, parenthesis or newline inside; a Python string is
   non-empty; a text() expression is such a run of characters (not starting or ending with a blank), or one in
   single quotes, or one in a single pair of parentheses *)
Definition plain_char (x:N) : bool := negb (N.eqb x ch_quote || N.eqb x ch_dquote || N.eqb x ch_lpar || N.eqb x ch_rpar || N.eqb x 10).
Definition plain (s:list N) : bool := match s with [] => false | _ => forallb plain_char s end.
Definition trimmed (s:list N) : bool := negb (N.eqb (hd 0%N s) 32) && negb (N.eqb (last s 0%N) 32).
Definition dflt_ok (d:dflt) : bool :=
  match d with
  | DLit s => plain s
  | DExpr s => (plain s && trimmed s) || (wrapped ch_quote ch_quote s && plain (unwrap s))
               || (wrapped ch_lpar ch_rpar s && plain (unwrap s) && trimmed (unwrap s))
  | DComputed _ _ => true       (* never compared *)
  end.
(* foreign key names are used consistently by the two schemas: a name of B that also names a key of the same table in A
   which stays (its signature is still wanted by B) names that same signature.  Otherwise the comparison, which matches
   foreign keys by signature only, adds the B key under a name that is still taken (see C06_converge_fkname_refuted). *)
Definition fk_names_okb (sig_eqb:fk->fk->bool) (fc fm:list fk) : bool :=
  forallb (fun mf => forallb (fun cf => implb (N.eqb (f_name cf) (f_name mf) && f_named mf && existsb (sig_eqb cf) fm) (sig_eqb mf cf)) fc) fm.
(* "all constraints named" for unique constraints *)
Definition no_unnamed_uq (S:schema) : bool := forallb (fun t => match t_uuqs t with [] => true | _ => false end) S.
Definition defaults_ok (S:schema) : bool :=
  forallb (fun t => forallb (fun c => match c_default c with Some d => dflt_ok d | None => true end) (t_cols t)) S.
