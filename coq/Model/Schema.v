(* First-order database schemas as autogenerate sees them (C06 / C07 / C20), the DDL meaning
   of the abstract operations on them, and what SQLAlchemy reflects back from SQLite.
   No proofs here.

   Universe: tables; columns with a type (token0 family of the SQLite type compiler output plus
   its parenthesised arguments), nullability and a primary-key flag; named unique constraints;
   named indexes (unique or not) over plain columns.  Names are interned as N by the harness.
   Outside: server defaults, foreign keys, CHECK constraints, comments, unnamed constraints,
   expression indexes, schemas other than the default one, computed / identity columns. *)
From AV Require Export Base.ListSet.

(* ---------------------------------------------------------------- data *)

(* A column type as DefaultImpl._tokenize_column_type sees it: token0 (interned: the harness holds the
   catalogue  0 INTEGER 1 BIGINT 2 SMALLINT 3 VARCHAR 4 TEXT 5 NUMERIC 6 DECIMAL 7 FLOAT 8 BOOLEAN
   9 DATE 10 DATETIME 11 BLOB) and Params.args (the comma separated terms in parentheses, as numbers).
   Params.tokens[1:] and Params.kwargs are empty for every type of the catalogue. *)
Record ty := mkTy { ty_fam : N; ty_args : list N }.
Definition F_NUMERIC : N := 5.
Definition F_DECIMAL : N := 6.

Record col := mkCol { c_name : N; c_ty : ty; c_null : bool; c_pk : bool }.

(* unique constraint (name, columns) / index (name, columns, unique) *)
Inductive cons := Uq (n:N) (cols:list N) | Ix (n:N) (cols:list N) (u:bool).
Definition k_name (k:cons) : N := match k with Uq n _ => n | Ix n _ _ => n end.
Definition k_cols (k:cons) : list N := match k with Uq _ c => c | Ix _ c _ => c end.
Definition is_ix (k:cons) : bool := match k with Ix _ _ _ => true | Uq _ _ => false end.
Definition is_uq (k:cons) : bool := negb (is_ix k).

Record table := mkTable { t_name : N; t_cols : list col; t_cons : list cons }.
Definition schema := list table.

(* ---------------------------------------------------------------- equality tests *)
Definition ty_eqb (a b:ty) : bool := N.eqb (ty_fam a) (ty_fam b) && list_eqb N.eqb (ty_args a) (ty_args b).
Definition col_eqb (a b:col) : bool :=
  N.eqb (c_name a) (c_name b) && ty_eqb (c_ty a) (c_ty b) && Bool.eqb (c_null a) (c_null b) && Bool.eqb (c_pk a) (c_pk b).
Definition cons_eqb (a b:cons) : bool :=
  match a, b with
  | Uq n c, Uq n' c' => N.eqb n n' && list_eqb N.eqb c c'
  | Ix n c u, Ix n' c' u' => N.eqb n n' && list_eqb N.eqb c c' && Bool.eqb u u'
  | _, _ => false
  end.

(* ---------------------------------------------------------------- keyed lists *)
Section Keyed.
  Context {A:Type} (key : A -> N).
  Definition kfind (n:N) (l:list A) : option A := find (fun a => N.eqb (key a) n) l.
  Definition kremove (n:N) (l:list A) : list A := filter (fun a => negb (N.eqb (key a) n)) l.
  Definition kupdate (n:N) (f:A->A) (l:list A) : list A := map (fun a => if N.eqb (key a) n then f a else a) l.
  Definition keys (l:list A) : list N := map key l.
End Keyed.

(* ---------------------------------------------------------------- abstract operations *)
(* The operation objects autogenerate emits, reduced to what they say:
   CreateTableOp (columns + inline unique constraints; its indexes follow as separate CreateIndexOp),
   DropTableOp, AddColumnOp, DropColumnOp, AlterColumnOp (existing_nullable / existing_type /
   modify_nullable / modify_type), CreateIndexOp | CreateUniqueConstraintOp (OpAddCons),
   DropIndexOp | DropConstraintOp(type_='unique') (OpDropCons, ix = true for an index). *)
Inductive op :=
| OpCreateTable (t:table)
| OpDropTable (t:N)
| OpAddColumn (t:N) (c:col)
| OpDropColumn (t:N) (c:N)
| OpAlterColumn (t c:N) (ex_null:bool) (ex_ty:ty) (m_null:option bool) (m_ty:option ty)
| OpAddCons (t:N) (k:cons)
| OpDropCons (t:N) (ix:bool) (n:N).

Definition op_table (o:op) : N :=
  match o with
  | OpCreateTable t => t_name t
  | OpDropTable t | OpAddColumn t _ | OpDropColumn t _ | OpAlterColumn t _ _ _ _ _ | OpAddCons t _ | OpDropCons t _ _ => t
  end.

(* ---------------------------------------------------------------- DDL meaning *)
Definition alter_col (m_null:option bool) (m_ty:option ty) (c:col) : col :=
  mkCol (c_name c) (match m_ty with Some t => t | None => c_ty c end)
        (match m_null with Some b => b | None => c_null c end) (c_pk c).

(* effect of an operation on the column list / on the constraint+index list of its table *)
Definition apply_cop (o:op) (cs:list col) : list col :=
  match o with
  | OpAddColumn _ c => cs ++ [c]
  | OpDropColumn _ c => kremove c_name c cs
  | OpAlterColumn _ c _ _ mn mt => kupdate c_name c (alter_col mn mt) cs
  | _ => cs
  end.
Definition apply_kop (o:op) (ks:list cons) : list cons :=
  match o with
  | OpAddCons _ k => ks ++ [k]
  | OpDropCons _ ix n => filter (fun k => negb (Bool.eqb (is_ix k) ix && N.eqb (k_name k) n)) ks
  | _ => ks
  end.
Definition apply_top (o:op) (t:table) : table := mkTable (t_name t) (apply_cop o (t_cols t)) (apply_kop o (t_cons t)).

Definition apply_op (o:op) (S:schema) : schema :=
  match o with
  | OpCreateTable t => S ++ [t]
  | OpDropTable n => kremove t_name n S
  | _ => kupdate t_name (op_table o) (apply_top o) S
  end.
Definition apply_ops (ops:list op) (S:schema) : schema := fold_left (fun s o => apply_op o s) ops S.

(* ---------------------------------------------------------------- reflection *)
(* What inspector.reflect_table / get_unique_constraints / get_indexes report for a database that was
   created from the schema on SQLite.  On this universe every component comes back as written: the types
   of the catalogue are in SQLite's ischema_names and re-compile to the same text, PRIMARY KEY columns are
   NOT NULL in the model already, CONSTRAINT names of UNIQUE clauses are recovered from the stored CREATE
   TABLE text, sqlite_autoindex_* entries are hidden by get_indexes.  The function is kept (and compared with
   the really reflected tables on every run) because it is the place where reflection quirks live. *)
Definition reflect_col (c:col) : col := c.
Definition reflect_cons (k:cons) : cons := k.
Definition reflect_table (t:table) : table := mkTable (t_name t) (map reflect_col (t_cols t)) (map reflect_cons (t_cons t)).
Definition reflect_sqlite (S:schema) : schema := map reflect_table S.

(* ---------------------------------------------------------------- well-formedness (boolean) *)
Definition all_in (xs ys:list N) : bool := forallb (fun x => memN x ys) xs.
Definition wf_cons (colnames:list N) (k:cons) : bool :=
  match k_cols k with [] => false | _ => true end && nodupb (k_cols k) && all_in (k_cols k) colnames.
Definition wf_col (c:col) : bool := implb (c_pk c) (negb (c_null c)).
Definition wf_table (t:table) : bool :=
  nodupb (keys c_name (t_cols t)) && nodupb (keys k_name (t_cons t))
  && forallb wf_col (t_cols t) && forallb (wf_cons (keys c_name (t_cols t))) (t_cons t).
Definition wf_schemab (S:schema) : bool := nodupb (keys t_name S) && forallb wf_table S.
