(* alembic/script/base.py ScriptDirectory._stamp_revs with RevisionMap.filter_for_lineage / _shares_lineage
   (include_dependencies=True), and MigrationContext.stamp incl. the purge branch of run_migrations,
   transcribed.  No proofs here. *)
From AV Require Export Model.Heads.

(* the `revision` argument as command.stamp passes it (always a tuple), after RevisionMap._resolve_revision_number:
   TBase      = ("base",)
   THeads o   = ("heads",)  with o the observed order of RevisionMap._real_heads (a tuple built from a set)
   TIds l     = a tuple of full revision ids                                                        *)
Inductive target := TBase | THeads (order:list N) | TIds (l:list N).

Definition real_heads_of (G:graph) : list N := map r_id (filter (fun r => is_nil (all_nextrev G (r_id r))) G).

(* RevisionMap._shares_lineage(target, test_against_revs, include_dependencies=True) *)
Definition shares_lineage (G:graph) (h:N) (against:list N) : option bool :=
  match against with
  | [] => Some true
  | _ => match reach_set (all_nextrev G) G [h], reach_set (norm_down G) G [h] with
         | Some d, Some a => Some (negb (is_nil (interN (d ++ a) against)))
         | _, _ => None
         end
  end.

(* RevisionMap.filter_for_lineage(targets, check_against, include_dependencies=True) *)
Fixpoint filter_for_lineage (G:graph) (targets against:list N) : option (list N) :=
  match targets with
  | [] => Some []
  | h :: r => match shares_lineage G h against, filter_for_lineage G r against with
              | Some b, Some l => Some (if b then h :: l else l)
              | _, _ => None
              end
  end.

Fixpoint filtered_heads (G:graph) (hds:list N) (groups:list (list N)) : option (list N) :=
  match groups with
  | [] => Some []
  | a :: r => match filter_for_lineage G hds a, filtered_heads G hds r with
              | Some x, Some y => Some (x ++ y)
              | _, _ => None
              end
  end.

(* the body of the `for dest in dests` loop for a dest that is a revision *)
Definition stamp_dest (G:graph) (filtered:list N) (d:N) : res (list step) :=
  if memN d filtered then Ok []                                  (* already in the version table *)
  else match reach_set (all_nextrev G) G [d], reach_set (norm_down G) G [d] with
       | Some descendants, Some ancestors =>
         if negb (is_nil (interN descendants filtered)) then
           if negb (is_nil (interN ancestors filtered)) then Err EAssert
           else Ok [StampStep filtered [d] false false]
         else if negb (is_nil (interN ancestors filtered)) then Ok [StampStep filtered [d] true false]
         else Ok [StampStep [] [d] true true]
       | _, _ => Err EFuel
       end.

Fixpoint stamp_dests (G:graph) (filtered:list N) (dests:list N) : res (list step) :=
  match dests with
  | [] => Ok []
  | d :: r => bind (stamp_dest G filtered d) (fun a => bind (stamp_dests G filtered r) (fun b => Ok (a ++ b)))
  end.

(* ScriptDirectory._stamp_revs(revision, heads) *)
Definition stamp_revs (G:graph) (t:target) (hds:list N) : res (list step) :=
  let groups := match t with TBase => [[]] | THeads o => [o] | TIds l => map (fun x => [x]) l end in
  match filtered_heads G hds groups with
  | None => Err EFuel
  | Some fh =>
    let filtered := dedupe fh in                                        (* util.unique_list *)
    match t with
    | TBase => Ok (map (fun h => StampStep [h] [] false true) filtered)  (* dests = [None] *)
    | THeads o => if permb o (real_heads_of G) then stamp_dests G filtered o else Err EOther
    | TIds l => stamp_dests G filtered l
    end
  end.

(* MigrationContext.stamp, or command.stamp through run_migrations (purge: the table is emptied first, heads = ()) *)
Definition stamp (G:graph) (purge:bool) (t:target) (rws:list N) : res (list step * list obs * option (list N)) :=
  let rws0 := if purge then [] else rws in
  match stamp_revs G t rws0 with
  | Err e => Err e
  | Ok steps => let (o, f) := run_cmd G (fun l => l) steps rws0 in Ok (steps, o, f)
  end.

(* ---------- command.stamp end to end ----------
   _stamp_revs with the revision argument already resolved by RevisionMap._resolve_revision_number (that resolution
   belongs to C16): `groups` = for every element of the revision tuple the revisions filter_for_lineage tests against
   ([] for base, [id] for an id, [revision carrying the label; head] for label@head), `dests` = get_revisions(revision)
   (None for base). *)
Definition stamp_revs_gen (G:graph) (groups:list (list N)) (dests:option (list N)) (hds:list N) : res (list step) :=
  match filtered_heads G hds groups with
  | None => Err EFuel
  | Some fh =>
    let filtered := dedupe fh in
    match dests with
    | None => Ok (map (fun h => StampStep [h] [] false true) filtered)
    | Some l => stamp_dests G filtered l
    end
  end.

(* command.stamp(config, revision, purge=..) through env.py (engine.connect(); context.begin_transaction();
   context.run_migrations()): the rows a FRESH connection reads afterwards.  Without --purge a row that is not a
   revision of the history makes get_revisions(heads) fail (CommandError); with --purge the table is emptied first. *)
Definition first_err (os:list obs) : herr :=
  hd EOther (flat_map (fun o => match o with ObsErr e => [e] | ObsOk _ _ => [] end) os).
Definition stamp_cmd (G:graph) (purge:bool) (groups:list (list N)) (dests:option (list N)) (rws:list N) : res (list N) :=
  let rws0 := if purge then [] else rws in
  if negb (subsetN rws0 (ids G)) then Err ECommand
  else match stamp_revs_gen G groups dests rws0 with
       | Err e => Err e
       | Ok steps => match run_cmd G (fun l => l) steps rws0 with
                     | (_, Some r) => Ok r
                     | (os, None) => Err (first_err os)
                     end
       end.

(* ---------- label targets: <label>@head, <label>@base ----------
   RevisionMap._resolve_revision_number / get_current_head / _revision_for_ident as far as these two forms need them:
   the revision that declares the label (`_map_branch_labels`: label -> revision), and for @head the heads (by
   down_revision) that share lineage with it (filter_for_lineage(self.heads, label), include_dependencies=False) *)
Definition label_rev (G:graph) (lab:N) : option N :=
  option_map r_id (find (fun r => memN lab (r_labels r)) G).
Definition heads_down (G:graph) : list N := map r_id (filter (fun r => is_nil (nextrev G (r_id r))) G).
Fixpoint label_heads_of (G:graph) (lr:N) (hs:list N) : option (list N) :=
  match hs with
  | [] => Some []
  | h :: r => match reach_set (nextrev G) G [h], reach_set (down G) G [h], label_heads_of G lr r with
              | Some d, Some a, Some l => Some (if memN lr (d ++ a) then h :: l else l)
              | _, _, _ => None
              end
  end.
Inductive ltarget := LHead (lab:N) | LBase (lab:N).
(* (groups, dests) for stamp_revs_gen; ECommand = ResolutionError / MultipleHeads surfacing as CommandError *)
Definition resolve_label (G:graph) (t:ltarget) : res (list (list N) * option (list N)) :=
  let lab := match t with LHead l => l | LBase l => l end in
  match label_rev G lab with
  | None => Err ECommand
  | Some lr =>
    match t with
    | LBase _ => Ok ([[lr]], None)                        (* id_ = (): shares = [label]; get_revisions -> () -> [None] *)
    | LHead _ =>
      match label_heads_of G lr (heads_down G) with
      | None => Err EFuel
      | Some [] => Ok ([[lr]], None)                      (* get_current_head -> None: id_ = () *)
      | Some [h] => Ok ([[lr; h]], Some [h])              (* shares = [label, head]; dest = head *)
      | Some _ => Err ECommand                            (* MultipleHeads *)
      end
    end
  end.
Definition stamp_label (G:graph) (purge:bool) (t:ltarget) (rws:list N) : res (list N) :=
  match resolve_label G t with
  | Err e => Err e
  | Ok (groups, dests) => stamp_cmd G purge groups dests rws
  end.

(* ---------- partial revision ids as stamp targets ----------
   RevisionMap._revision_for_ident(resolved_id): an exact key of _revision_map, else the keys longer than 3 characters
   that start with the given string — exactly one, otherwise ResolutionError (-> CommandError).  `keys` is
   _revision_map as (key string, revision) pairs in the map's order (revision ids and branch labels; strings are
   lists of code points).  _stamp_revs resolves every element of the tuple twice (filter_for_lineage -> _shares_lineage,
   and get_revisions), both through this function. *)
Definition str := list N.
Definition streqb (a b:str) : bool := list_eqb N.eqb a b.
Fixpoint startswith (k p:str) {struct p} : bool :=
  match p, k with
  | [], _ => true
  | c :: p', d :: k' => N.eqb c d && startswith k' p'
  | _ :: _, [] => false
  end.
Definition resolve_partial (keys:list (str * N)) (s:str) : res N :=
  match find (fun k => streqb (fst k) s) keys with
  | Some k => Ok (snd k)
  | None =>
    match s with
    | [] => Err EAssert                                                    (* assert resolved_id *)
    | _ => match filter (fun k => Nat.ltb 3 (length (fst k)) && startswith (fst k) s) keys with
           | [k] => Ok (snd k)
           | _ => Err ECommand                                             (* no such revision / multiple revisions start with *)
           end
    end
  end.
Fixpoint resolve_partials (keys:list (str * N)) (l:list str) : res (list N) :=
  match l with
  | [] => Ok []
  | s :: r => bind (resolve_partial keys s) (fun x => bind (resolve_partials keys r) (fun xs => Ok (x :: xs)))
  end.
Definition stamp_partial (G:graph) (purge:bool) (keys:list (str * N)) (targets:list str) (rws:list N) : res (list N) :=
  match resolve_partials keys targets with
  | Err e => Err e
  | Ok ts => stamp_cmd G purge (map (fun x => [x]) ts) (Some ts) rws
  end.

(* ---------- several databases in one run (the multidb template: configure + run_migrations per engine inside one
   EnvironmentContext, one transaction per engine, all committed at the end) ----------
   every database gets the same command with the same options, independently; an exception on any of them aborts the
   command (and rolls every database back) *)
Fixpoint stamp_multi (G:graph) (purge:bool) (groups:list (list N)) (dests:option (list N)) (dbs:list (list N)) : res (list (list N)) :=
  match dbs with
  | [] => Ok []
  | rws :: r => bind (stamp_cmd G purge groups dests rws) (fun a => bind (stamp_multi G purge groups dests r) (fun b => Ok (a :: b)))
  end.
