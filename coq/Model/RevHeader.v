(* C17, file round trip: the revision identifiers as script.py.mako writes them (repr() of a str, a tuple,
   a list or None after an annotated name) and as loading the module reads them back; and the module docstring
   the template opens with.  No proofs here. *)
From Coq Require Import String.
From AV Require Export Model.Render.

(* ---------------------------------------------------------------- values written with repr() *)
Inductive hval := VNone | VStr (s:str) | VTuple (l:list str) | VList (l:list str).
Record hargs := mkH { h_rev : str; h_down : hval; h_labels : hval; h_deps : hval }.

(* generate_revision: down_revision = tuple_rev_as_scalar(tuple(heads)); branch_labels = util.to_tuple(branch_labels);
   depends_on = tuple_rev_as_scalar(resolved_depends_on: a list) *)
Definition scalar_or (mk:list str -> hval) (l:list str) : hval :=
  match l with [] => VNone | [s] => VStr s | _ => mk l end.
Definition mk_args (rev:str) (down labels deps : list str) : hargs :=
  mkH rev (scalar_or VTuple down) (match labels with [] => VNone | _ => VTuple labels end) (scalar_or VList deps).

Definition sp : str := [32%N].
Definition nl : str := [10%N].
Definition rs (w:str) (s:str) : str * ptok := (w, TStr ViaRepr s).

(* repr of a tuple / list of str: elements separated by a comma and a space; a 1-tuple ends with a comma *)
Fixpoint elems_tail (l:list str) : wtoks :=
  match l with [] => [] | s :: r => ([], TPunct 44) :: rs sp s :: elems_tail r end.
Definition elems (l:list str) : wtoks :=
  match l with [] => [] | s :: r => rs [] s :: elems_tail r end.
Definition val_toks (lead:str) (v:hval) : wtoks :=
  match v with
  | VNone => [(lead, TName (lit "None"))]
  | VStr s => [rs lead s]
  | VTuple l => (lead, TPunct 40) :: elems l ++ (match l with [_] => [([], TPunct 44)] | _ => [] end) ++ [([], TPunct 41)]
  | VList l => (lead, TPunct 91) :: elems l ++ [([], TPunct 93)]
  end.

Definition nm (w:str) (s:string) : str * ptok := (w, TName (lit s)).
Definition pu (w:str) (c:N) : str * ptok := (w, TPunct c).
Definition ann_str : wtoks := [nm sp "str"].
Definition ann_opt_str : wtoks :=       (* Union[str, None] *)
  [nm sp "Union"; pu [] 91; nm [] "str"; pu [] 44; nm sp "None"; pu [] 93].
Definition ann_seq : wtoks :=           (* Union[str, Sequence[str], None] *)
  [nm sp "Union"; pu [] 91; nm [] "str"; pu [] 44; nm sp "Sequence"; pu [] 91; nm [] "str"; pu [] 93; pu [] 44; nm sp "None"; pu [] 93].
Definition line (w:str) (name:string) (ann:wtoks) (v:hval) : wtoks :=
  nm w name :: pu [] 58 :: ann ++ [pu sp 61] ++ val_toks sp v.

(* the four lines under "# revision identifiers, used by Alembic." *)
Definition header_toks (a:hargs) : wtoks :=
  line [] "revision" ann_str (VStr (h_rev a)) ++ line nl "down_revision" ann_opt_str (h_down a)
  ++ line nl "branch_labels" ann_seq (h_labels a) ++ line nl "depends_on" ann_seq (h_deps a).
Definition write_header (printable:N -> bool) (a:hargs) : str := untokw printable (header_toks a) nl.

(* ---------------------------------------------------------------- reading the module attributes back *)
(* a parenthesised / bracketed sequence of string literals; comma: a comma has been seen *)
Fixpoint parse_seq (close:N) (acc:list str) (comma:bool) (l:list pytoken) : option (list str * bool * list pytoken) :=
  match l with
  | Punct c :: r => if (c =? close)%N then Some (rev acc, comma, r)
                    else if (c =? 44)%N then parse_seq close acc true r else None
  | StrTok s :: r => parse_seq close (s :: acc) comma r
  | _ => None
  end.
Definition parse_value (l:list pytoken) : option (hval * list pytoken) :=
  match l with
  | Name n :: r => if str_eqb n (lit "None") then Some (VNone, r) else None
  | StrTok s :: r => Some (VStr s, r)
  | Punct c :: r =>
      if (c =? 40)%N then
        match parse_seq 41 [] false r with
        | Some (l, comma, r') => Some (match l, comma with [s], false => VStr s | _, _ => VTuple l end, r')     (* ('a') is 'a' *)
        | None => None
        end
      else if (c =? 91)%N then
        match parse_seq 93 [] false r with Some (l, _, r') => Some (VList l, r') | None => None end
      else None
  | _ => None
  end.
(* the annotation is skipped: everything up to the = sign *)
Fixpoint after_eq (l:list pytoken) : option (list pytoken) :=
  match l with
  | [] => None
  | Punct c :: r => if (c =? 61)%N then Some r else after_eq r
  | _ :: r => after_eq r
  end.
Definition read_assign (name:string) (l:list pytoken) : option (hval * list pytoken) :=
  match l with
  | Name n :: Punct c :: r =>
      if str_eqb n (lit name) && (c =? 58)%N then (r' <- after_eq r ;; parse_value r') else None
  | _ => None
  end.

(* Script.__init__ / Revision.__init__: util.to_tuple of each attribute *)
Definition val_list (v:hval) : list str :=
  match v with VNone => [] | VStr s => [s] | VTuple l | VList l => l end.
Record fields := mkFields { fd_rev : str; fd_down : list str; fd_labels : list str; fd_deps : list str }.

Definition read_header (text:str) : option fields :=
  match py_lex text with
  | Err _ => None
  | Ok toks =>
      r1 <- read_assign "revision" toks ;;
      r2 <- read_assign "down_revision" (snd r1) ;;
      r3 <- read_assign "branch_labels" (snd r2) ;;
      r4 <- read_assign "depends_on" (snd r3) ;;
      match fst r1, snd r4 with
      | VStr rev, [] => Some (mkFields rev (val_list (fst r2)) (val_list (fst r3)) (val_list (fst r4)))
      | _, _ => None
      end
  end.

(* ---------------------------------------------------------------- the module docstring
   The template opens the file with three double quotes, the message, blank line, "Revision ID: ...", "Revises: ...",
   "Create Date: ...", blank line, three double quotes.  Nothing is escaped.  scan_doc finds where the literal the
   lexer sees actually ends; a backslash starts an escape sequence whose validity is not modelled. *)
Inductive docres := DocClosed (body rest : str) | DocUnterminated | DocEscape.
Fixpoint scan_doc (q:nat) (acc:str) (l:str) : docres :=
  match l with
  | [] => DocUnterminated
  | c :: r =>
      if (c =? c_dq)%N then
        match q with
        | S (S _) => DocClosed (rev (tl (tl acc))) r
        | _ => scan_doc (S q) (c :: acc) r
        end
      else if (c =? c_bs)%N then DocEscape
      else scan_doc 0 (c :: acc) r
  end.
Definition triple : str := [c_dq; c_dq; c_dq].
(* the text after the opening quotes: body, closing quotes, rest of the module *)
Definition doc_text (body rest : str) : str := body ++ triple ++ rest.
Definition doc_ok (body rest : str) : bool :=
  match scan_doc 0 [] (doc_text body rest) with
  | DocClosed b r => str_eqb b body && str_eqb r rest
  | _ => false
  end.

Fixpoint has_triple (l:str) : bool :=
  match l with
  | a :: ((b :: c :: _) as r) => ((a =? c_dq) && (b =? c_dq) && (c =? c_dq))%N || has_triple r
  | _ => false
  end.
Definition ends_with_quote (l:str) : bool := match rev l with c :: _ => (c =? c_dq)%N | [] => false end.
Definition doc_safe (body:str) : bool := negb (memN c_bs body) && negb (has_triple body) && negb (ends_with_quote body).

(* ---------------------------------------------------------------- the file name (ScriptDirectory._rev_path)
   slug = "_".join(re.findall(r"\w+", message or "")).lower(), cut at truncate_slug_length; the name is
   file_template % {rev, slug, date tokens} + ".py".  The template is given as its pieces (the %-format syntax is Python's);
   date / epoch tokens arrive already formatted.  \w and str.lower are Unicode tables: oracles. *)
Inductive tpiece := TLit (s:str) | TRevId | TSlug | TDate (s:str).

Section FileName.
  Variable is_word : N -> bool.          (* re: \w *)
  Variable lower : N -> str.             (* str.lower of one character (the final-sigma context rule is outside) *)

  (* re.findall(r"\w+", msg): maximal runs of word characters; cur is the run being read, reversed *)
  Fixpoint words_from (cur:str) (l:str) : list str :=
    match l with
    | [] => match cur with [] => [] | _ => [rev cur] end
    | c :: r => if is_word c then words_from (c :: cur) r
                else match cur with [] => words_from [] r | _ => rev cur :: words_from [] r end
    end.
  Fixpoint join_us (ws:list str) : str :=
    match ws with [] => [] | [w] => w | w :: r => w ++ 95%N :: join_us r end.
  (* s.rsplit("_", 1)[0]: everything before the last underscore, the whole string when there is none *)
  Fixpoint before_last_us (l:str) : str :=
    match l with
    | [] => []
    | c :: r => if memN 95%N r then c :: before_last_us r
                else if (c =? 95)%N then [] else c :: r
    end.
  Definition slug_of (msg:str) (trunc:nat) : str :=
    let s := flat_map lower (join_us (words_from [] msg)) in
    if (trunc <? length s)%nat then before_last_us (firstn trunc s) ++ [95%N] else s.

  Definition piece_text (rev slug:str) (p:tpiece) : str :=
    match p with TLit s | TDate s => s | TRevId => rev | TSlug => slug end.
  Definition rev_filename (tpl:list tpiece) (rev msg:str) (trunc:nat) : str :=
    flat_map (piece_text rev (slug_of msg trunc)) tpl ++ lit ".py".
End FileName.

Fixpoint has_prefix (p l:str) : bool :=
  match p, l with
  | [], _ => true
  | a :: p', b :: l' => N.eqb a b && has_prefix p' l'
  | _ :: _, [] => false
  end.
(* _only_source_rev_file = (?!\.\#|__init__)(.*\.py)$ : a name starting with .# or __init__ is never loaded,
   . does not match a line feed, and the name must end with .py *)
Definition loadable_name (fn:str) : bool :=
  negb (has_prefix (lit ".#") fn) && negb (has_prefix (lit "__init__") fn) && negb (memN 10%N fn)
  && has_prefix (rev (lit ".py")) (rev fn).

(* the per-case oracles as finite tables *)
Definition word_of (ws:list N) (c:N) : bool := memN c ws.
Fixpoint lower_of (tbl:list (N * str)) (c:N) : str :=
  match tbl with [] => [c] | (k, v) :: r => if N.eqb k c then v else lower_of r c end.
