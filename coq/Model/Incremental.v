(* C17, incremental map: RevisionMap._revision_map (the batch load) and RevisionMap.add_revision (the
   single-revision update used by generate_revision), over revisions whose identifiers and branch labels are
   interned in ONE key space (both are keys of the same dict).  No proofs here.

   Scope: _detect_cycles is not transcribed (it cannot fire on a history built by successive generate_revision
   calls); get_ancestor_nodes / get_descendant_nodes are modelled by the set they compute (one pass over a history
   in which parents precede children) rather than by the DFS transcription of Model.RevGraph; sets whose iteration
   order CPython leaves to hashing (normalised dependencies, labels) are kept in a fixed order and compared as sets. *)
From AV Require Export Model.RevGraph Model.Cycle.

(* one revision file: id, down_revision, depends_on as written (ids or branch labels), branch_labels *)
Record frev := mkF { f_id : N; f_down : list N; f_deps : list N; f_labels : list N }.
Definition hist := list frev.       (* generation order: parents before children *)

Inductive merr := ERevisionError | EKeyError.
Inductive mres (A:Type) := MOk (a:A) | MErr (e:merr).
Arguments MOk {A} a. Arguments MErr {A} e.

(* one Revision object without the two attributes that are sets of strings: revision, down_revision, dependencies,
   _orig_branch_labels, _resolved_dependencies, nextrev, _all_nextrev *)
Record crev := mkC { c_id : N; c_down : list N; c_rawdeps : list N; c_labels0 : list N; c_deps : list N;
                     c_next : list N; c_allnext : list N }.
Record rmap := mkMap {
  rm_core : list crev;                 (* in key order *)
  rm_ndeps : list (N * list N);        (* _normalized_resolved_dependencies per revision *)
  rm_labels : list (N * list N);       (* branch_labels per revision *)
  rm_keys : list (N * N);              (* branch label -> revision id *)
  rm_heads : list N; rm_bases : list N; rm_rheads : list N; rm_rbases : list N }.

Fixpoint assocN (k:N) (l:list (N*N)) : option N :=
  match l with [] => None | (k', v) :: r => if N.eqb k k' then Some v else assocN k r end.
Fixpoint assocL (k:N) (l:list (N * list N)) : list N :=
  match l with [] => [] | (k', v) :: r => if N.eqb k k' then v else assocL k r end.

(* map_[key]: a revision id or a branch label *)
Definition lookup_key (ids:list N) (keys:list (N*N)) (k:N) : option N :=
  if memN k ids then Some k else assocN k keys.
Fixpoint resolve_all (ids:list N) (keys:list (N*N)) (ks:list N) : option (list N) :=
  match ks with
  | [] => Some []
  | k :: r => match lookup_key ids keys k, resolve_all ids keys r with
              | Some v, Some vs => Some (v :: vs)
              | _, _ => None
              end
  end.

Definition all_down_c (r:crev) : list N := dedupe (c_down r ++ c_deps r).      (* _all_down_revisions *)
Definition is_base_f (down:list N) : bool := match down with [] => true | _ => false end.
Definition is_real_base_f (down deps:list N) : bool := match down, deps with [], [] => true | _, _ => false end.

(* proper ancestors through down_revision only: one pass over the history, newest first *)
Definition tri := (N * list N * list N)%type.       (* id, down_revision, _resolved_dependencies *)
Definition tri_of (r:crev) : tri := (c_id r, c_down r, c_deps r).
Fixpoint anc_pass (newest_first:list tri) (want:list N) : list N :=
  match newest_first with
  | [] => []
  | (i, d, _) :: older => if memN i want then i :: anc_pass older (d ++ want) else anc_pass older want
  end.
Fixpoint deps_of (T:list tri) (x:N) : list N :=
  match T with [] => [] | (i, _, ds) :: r => if N.eqb i x then ds else deps_of r x end.
(* _normalize_depends_on for one revision: its dependencies minus those of its proper ancestors *)
Definition normalize_one (T:list tri) (down deps:list N) : list N :=
  match deps with
  | [] => []
  | _ => filter (fun d => negb (memN d (flat_map (deps_of T) (anc_pass (rev T) down)))) (dedupe deps)
  end.

(* descendants through nextrev, oldest first: one pass *)
Fixpoint desc_pass (core:list crev) (have:list N) : list N :=
  match core with
  | [] => have
  | r :: newer => if existsb (fun p => memN p have) (c_down r) then desc_pass newer (have ++ [c_id r]) else desc_pass newer have
  end.
Definition find_c (core:list crev) (x:N) : option crev := find (fun r => N.eqb (c_id r) x) core.
Definition add_labels (ls:list N) (xs:list N) (tbl:list (N * list N)) : list (N * list N) :=
  map (fun e => if memN (fst e) xs then (fst e, dedupe (snd e ++ ls)) else e) tbl.
(* the upward walk of _add_branches: from a node up through single-parent, non-branch-point revisions *)
Fixpoint walk_up (fuel:nat) (core:list crev) (x:N) : list N :=
  match fuel with
  | O => []
  | S f => match find_c core x with
           | None => []
           | Some r =>
               if (1 <? length (c_allnext r))%nat || (1 <? length (c_down r))%nat then []
               else x :: match c_down r with [p] => walk_up f core p | _ => [] end
           end
  end.
(* _add_branches for one labelled revision; the walk starts from the newest descendant *)
Definition add_branches_one (core:list crev) (tbl:list (N * list N)) (x:N) : list (N * list N) :=
  match assocL x tbl with
  | [] => tbl
  | ls =>
      let ds := desc_pass core [x] in
      let tbl1 := add_labels ls ds tbl in
      add_labels ls (walk_up (S (length core)) core (last ds x)) tbl1
  end.
(* every branch_labels set starts from _orig_branch_labels, then _add_branches over the labelled revisions *)
Definition relabel (core:list crev) : list (N * list N) :=
  fold_left (add_branches_one core)
            (map c_id (filter (fun r => match c_labels0 r with [] => false | _ => true end) core))
            (map (fun r => (c_id r, c_labels0 r)) core).

Definition label_pairs (r:frev) : list (N*N) := map (fun l => (l, f_id r)) (f_labels r).
Definition children_of (sel:crev -> list N) (core:list crev) (x:N) : list N :=
  map c_id (filter (fun c => memN x (sel c)) core).
Definition no_children (l:list N) : bool := match l with [] => true | _ => false end.

Definition resolve_rev (ids:list N) (keys:list (N*N)) (r:frev) : option crev :=
  match resolve_all ids keys (f_deps r) with
  | Some ds => Some (mkC (f_id r) (f_down r) (f_deps r) (f_labels r) ds [] [])
  | None => None
  end.
Fixpoint resolve_revs (ids:list N) (keys:list (N*N)) (G:hist) : option (list crev) :=
  match G with
  | [] => Some []
  | r :: G' => match resolve_rev ids keys r, resolve_revs ids keys G' with
               | Some c, Some cs => Some (c :: cs)
               | _, _ => None
               end
  end.
Definition with_children (core0:list crev) (r:crev) : crev :=
  mkC (c_id r) (c_down r) (c_rawdeps r) (c_labels0 r) (c_deps r) (children_of c_down core0 (c_id r)) (children_of all_down_c core0 (c_id r)).

Definition heads_c (core:list crev) : list N := map c_id (filter (fun r => no_children (c_next r)) core).
Definition rheads_c (core:list crev) : list N := map c_id (filter (fun r => no_children (c_allnext r)) core).
Definition bases_c (core:list crev) : list N := map c_id (filter (fun r => is_base_f (c_down r)) core).
Definition rbases_c (core:list crev) : list N := map c_id (filter (fun r => is_real_base_f (c_down r) (c_rawdeps r)) core).

(* ---------------------------------------------------------------- RevisionMap._revision_map *)
Definition load (G:hist) : mres rmap :=
  let ids := map f_id G in
  let keys := flat_map label_pairs G in
  (* _map_branch_labels: a label that is already a key (an id or another label) is an error;
     two files with one id are only warned about by alembic and are outside the scope *)
  if negb (nodupb (ids ++ map fst keys)) then MErr ERevisionError else
  match resolve_revs ids keys G with                                   (* _add_depends_on: map_[dep] *)
  | None => MErr EKeyError
  | Some core0 =>
      if negb (forallb (fun r => subsetN (all_down_c r) ids) core0) then MErr EKeyError else    (* map_[downrev] *)
      let core := map (with_children core0) core0 in                  (* add_nextrev *)
      let T := map tri_of core in
      MOk (mkMap core (map (fun r => (c_id r, normalize_one T (c_down r) (c_deps r))) core) (relabel core) keys
                 (heads_c core) (bases_c core) (rheads_c core) (rbases_c core))
  end.

(* ---------------------------------------------------------------- RevisionMap.add_revision *)
Definition add_next (child:N) (down alld:list N) (core:list crev) : list crev :=
  map (fun r => mkC (c_id r) (c_down r) (c_rawdeps r) (c_labels0 r) (c_deps r)
                    (if memN (c_id r) down then c_next r ++ [child] else c_next r)
                    (if memN (c_id r) alld then c_allnext r ++ [child] else c_allnext r)) core.

Definition add_revision (L:rmap) (r:frev) : mres rmap :=
  let ids0 := map c_id (rm_core L) in
  let ids := ids0 ++ [f_id r] in                                        (* map_[revision.revision] = revision *)
  (* the first _add_branches([revision]) only touches branch_labels, which the final re-derivation resets *)
  (* _map_branch_labels([revision]): each label must not be a key yet *)
  if negb (nodupb (f_labels r)) || existsb (fun l => memN l (ids ++ map fst (rm_keys L))) (f_labels r) then MErr ERevisionError else
  let keys := rm_keys L ++ label_pairs r in
  match resolve_rev ids keys r with                                     (* _add_depends_on([revision]) *)
  | None => MErr EKeyError
  | Some new0 =>
      let bases := if is_base_f (f_down r) then rm_bases L ++ [f_id r] else rm_bases L in
      let rbases := if is_real_base_f (f_down r) (f_deps r) then rm_rbases L ++ [f_id r] else rm_rbases L in
      let alld := all_down_c new0 in
      if negb (subsetN alld ids0) then MErr EKeyError else              (* map_[downrev].add_nextrev(revision) *)
      let core := add_next (f_id r) (f_down r) alld (rm_core L) ++ [new0] in
      let nd := normalize_one (map tri_of core) (c_down new0) (c_deps new0) in      (* _normalize_depends_on([revision]) *)
      let rheads := filter (fun h => negb (memN h (alld ++ [f_id r]))) (rm_rheads L) ++ [f_id r] in
      let heads := filter (fun h => negb (memN h (f_down r ++ [f_id r]))) (rm_heads L) ++ [f_id r] in
      MOk (mkMap core (rm_ndeps L ++ [(f_id r, nd)]) (relabel core) keys heads bases rheads rbases)
  end.

(* ---------------------------------------------------------------- the view compared with the implementation:
   every component as a set (sorted by the harness on the implementation side, here compared with seteqN) *)
Record vrev := mkV { v_id : N; v_down : list N; v_deps : list N; v_ndeps : list N; v_next : list N; v_allnext : list N; v_labels : list N }.
Record view := mkView { vw_revs : list vrev; vw_keys : list (N*N); vw_heads : list N; vw_bases : list N; vw_rheads : list N; vw_rbases : list N }.
Definition view_of (L:rmap) : view :=
  mkView (map (fun r => mkV (c_id r) (c_down r) (c_deps r) (assocL (c_id r) (rm_ndeps L)) (c_next r) (c_allnext r) (assocL (c_id r) (rm_labels L))) (rm_core L))
         (rm_keys L) (rm_heads L) (rm_bases L) (rm_rheads L) (rm_rbases L).

Definition vrev_eqb (a b:vrev) : bool :=
  N.eqb (v_id a) (v_id b) && seteqN (v_down a) (v_down b) && seteqN (v_deps a) (v_deps b) && seteqN (v_ndeps a) (v_ndeps b)
  && seteqN (v_next a) (v_next b) && seteqN (v_allnext a) (v_allnext b) && seteqN (v_labels a) (v_labels b).
Definition find_v (l:list vrev) (x:N) : option vrev := find (fun r => N.eqb (v_id r) x) l.
Definition vrevs_eqb (a b:list vrev) : bool :=
  seteqN (map v_id a) (map v_id b) && nodupb (map v_id a) && nodupb (map v_id b)
  && forallb (fun r => match find_v b (v_id r) with Some r' => vrev_eqb r r' | None => false end) a.
Definition pair_mem (p:N*N) (l:list (N*N)) : bool := existsb (fun q => N.eqb (fst p) (fst q) && N.eqb (snd p) (snd q)) l.
Definition keys_eqb (a b:list (N*N)) : bool := forallb (fun p => pair_mem p b) a && forallb (fun p => pair_mem p a) b.
Definition view_eqb (a b:view) : bool :=
  vrevs_eqb (vw_revs a) (vw_revs b) && keys_eqb (vw_keys a) (vw_keys b) && seteqN (vw_heads a) (vw_heads b)
  && seteqN (vw_bases a) (vw_bases b) && seteqN (vw_rheads a) (vw_rheads b) && seteqN (vw_rbases a) (vw_rbases b).
