(* C18 — the per-dialect facts of alembic/ddl/*.py as data, and their interpretation.
   The data (`list klass`) is regenerated from the working tree by harness/translator/dialect_tables.py
   into Gen/DialectTables.v; this file gives it meaning: attribute lookup along the (single-inheritance)
   class chain and the four-constructor language for the bodies of emit_begin / emit_commit.
   No proofs in this file. *)
From AV Require Import Base.ListSet.

Definition str := list N.     (* code points *)

(* one offline output chunk = one call of DefaultImpl.static_output (text + "\n\n") *)
Inductive rchunk :=
  | RRaw (t:str)                      (* a chunk the harness does not interpret: marker, separator, anything unknown *)
  | RRunning (k:N)                    (* "-- Running ..." of the k-th step                                         *)
  | RStmt (k:N) (p:N) (auto:bool)     (* p-th statement of the k-th migration; auto: written inside autocommit_block *)
  | RVersion (k j:N)                  (* the j-th version-table INSERT/UPDATE/DELETE emitted by the k-th step     *)
  | RCreate (k:N)                     (* CREATE TABLE alembic_version, emitted in the k-th step                   *)
  | RDrop.                            (* DROP TABLE alembic_version                                               *)

Inductive action :=
  | AStatic (lit:str)   (* self.static_output(lit + self.command_terminator)                                      *)
  | AExec (lit:str)     (* self._exec(lit)                                                                        *)
  | ASuper              (* super().emit_begin() / super().emit_commit()                                           *)
  | ASepIfSql           (* if self.as_sql and self.batch_separator: self.static_output(self.batch_separator)      *)
  | AGStatic (lit:str)  (* the first three again, but inside `if self.as_sql and self.batch_separator:`            *)
  | AGExec (lit:str)
  | AGSuper.

Record klass := mkKlass {
  k_id : N; k_parent : option N;
  k_dialect : str;                      (* __dialect__                                                            *)
  k_tddl : option bool;                 (* transactional_ddl = <literal>            (None: not set in this class) *)
  k_term : option str;                  (* command_terminator = <literal>                                         *)
  k_sep : option str;                   (* batch_separator = <literal>                                            *)
  k_sep_opt : option bool;              (* Some true: __init__ does self.batch_separator = self.context_opts.get(
                                           "<dialect>_batch_separator", self.batch_separator); root: Some false   *)
  k_exec_sep : option bool;             (* Some false: the root _exec; Some true: `_exec` = super()._exec(...) followed
                                           by the separator tail; None: inherited                                 *)
  k_begin : option (list action);       (* body of emit_begin                                                     *)
  k_commit : option (list action)       (* body of emit_commit                                                    *)
}.

Definition find_class (cs:list klass) (id:N) : option klass := find (fun c => N.eqb (k_id c) id) cs.

(* attribute lookup along the chain; Some (defining class, value) *)
Fixpoint lookup {A} (fuel:nat) (cs:list klass) (get:klass -> option A) (id:N) : option (klass * A) :=
  match fuel with
  | O => None
  | S f => match find_class cs id with
           | None => None
           | Some c => match get c with
                       | Some a => Some (c, a)
                       | None => match k_parent c with Some p => lookup f cs get p | None => None end
                       end
           end
  end.

Definition nonempty (s:str) : bool := match s with [] => false | _ => true end.

Section Interp.
  Variable cs : list klass.
  Variable term : str.               (* self.command_terminator *)
  Variable sep : option str.         (* self.batch_separator, None = no such attribute *)
  Variable exec_sep : bool.          (* the dialect's _exec appends the separator *)

  Definition sep_chunks : option (list rchunk) :=
    match sep with None => None | Some s => Some (if nonempty s then [RRaw s] else []) end.

  (* DefaultImpl._exec(text(lit)) in as_sql mode, followed by the override's tail *)
  Definition exec_text (lit:str) : option (list rchunk) :=
    if exec_sep then match sep_chunks with Some l => Some (RRaw (lit ++ term) :: l) | None => None end
    else Some [RRaw (lit ++ term)].

  (* `if self.as_sql and self.batch_separator:` around x *)
  Definition guarded (x:option (list rchunk)) : option (list rchunk) :=
    match sep with None => None | Some s => if nonempty s then x else Some [] end.

  Definition opt_app {A} (a b:option (list A)) : option (list A) :=
    match a, b with Some x, Some y => Some (x ++ y) | _, _ => None end.

  (* the emit_xxx method as found from class `id` upwards *)
  Fixpoint emit (fuel:nat) (get:klass -> option (list action)) (id:N) : option (list rchunk) :=
    match fuel with
    | O => None
    | S f =>
        match lookup (S (length cs)) cs get id with
        | None => None
        | Some (c, body) =>
            fold_left (fun acc a =>
                         opt_app acc
                           match a with
                           | AStatic lit => Some [RRaw (lit ++ term)]
                           | AExec lit => exec_text lit
                           | ASuper => match k_parent c with Some p => emit f get p | None => None end
                           | ASepIfSql => sep_chunks
                           | AGStatic lit => guarded (Some [RRaw (lit ++ term)])
                           | AGExec lit => guarded (exec_text lit)
                           | AGSuper => guarded (match k_parent c with Some p => emit f get p | None => None end)
                           end) body (Some [])
        end
    end.
End Interp.

(* what MigrationContext sees of self.impl for one dialect *)
Record dialect := mkDialect {
  d_name : str; d_tddl : bool; d_term : str; d_sep : option str; d_exec_sep : bool;
  d_begin : list rchunk;          (* output of self.impl.emit_begin()  *)
  d_commit : list rchunk          (* output of self.impl.emit_commit() *)
}.

(* sepo: the value of the <dialect>_batch_separator option given to context.configure(), if any *)
Definition resolve_sep (cs:list klass) (sepo:option str) (c:klass) : option dialect :=
  let fuel := S (length cs) in
  match lookup fuel cs k_tddl (k_id c), lookup fuel cs k_term (k_id c), lookup fuel cs k_exec_sep (k_id c) with
  | Some (_, tddl), Some (_, term), Some (_, es) =>
      let sep := match sepo, lookup fuel cs k_sep_opt (k_id c) with
                 | Some s, Some (_, true) => Some s
                 | _, _ => match lookup fuel cs k_sep (k_id c) with Some (_, s) => Some s | None => None end
                 end in
      match emit cs term sep es fuel k_begin (k_id c), emit cs term sep es fuel k_commit (k_id c) with
      | Some b, Some cm => Some (mkDialect (k_dialect c) tddl term sep es b cm)
      | _, _ => None
      end
  | _, _, _ => None
  end.

Definition resolve (cs:list klass) (c:klass) : option dialect := resolve_sep cs None c.

Definition resolve_all (cs:list klass) : list (option dialect) := map (resolve cs) cs.

(* a dialect the model can always fall back on (never a member of a generated table) *)
Definition null_dialect : dialect := mkDialect [] false [] None false [] [].
Definition dialect_of (cs:list klass) (i:nat) : dialect :=
  match nth i (resolve_all cs) None with Some d => d | None => null_dialect end.

Definition dialect_of_sep (cs:list klass) (i:nat) (sepo:option str) : dialect :=
  match nth i (map (resolve_sep cs sepo) cs) None with Some d => d | None => null_dialect end.

(* DefaultImpl._exec of an arbitrary statement in as_sql mode: the statement's chunk and the separator tail *)
Definition d_sep_chunks (d:dialect) : list rchunk :=
  if d_exec_sep d then match d_sep d with Some s => if nonempty s then [RRaw s] else [] | None => [] end else [].
Definition exec_chunk (d:dialect) (c:rchunk) : list rchunk := c :: d_sep_chunks d.
