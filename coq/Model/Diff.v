(* alembic/autogenerate/compare.py over the first-order schemas of Model/Schema.v, as it runs on SQLite
   without user filters:  _autogen_for_tables, _compare_tables, _compare_columns, _compare_nullable,
   _compare_type (-> MigrationContext._compare_type -> DefaultImpl.compare_type, _column_types_match,
   _column_args_match), _compare_indexes_and_uniques (obj_added / obj_removed / obj_changed,
   _ix_constraint_sig / _uq_constraint_sig comparison).  Same names, same branch structure.
   Python iterates several name *sets* (hash order) and sorted name lists; the model walks the lists of the
   schema instead, and the correspondence compares operation lists as multisets.  No proofs here. *)
From AV Require Export Model.Schema.

Record cfg := mkCfg { compare_type : bool; compare_server_default : bool }.

(* ---------------------------------------------------------------- ddl/impl.py *)
Definition is_numeric_syn (f:N) : bool := N.eqb f F_NUMERIC || N.eqb f F_DECIMAL.   (* type_synonyms = ({"NUMERIC","DECIMAL"},) *)

(* _column_types_match: token0 equal, or both in one synonym batch (Params.tokens are empty here, so
   "all terms" is token0 again) *)
Definition column_types_match (insp meta:ty) : bool :=
  N.eqb (ty_fam insp) (ty_fam meta) || (is_numeric_syn (ty_fam insp) && is_numeric_syn (ty_fam meta)).
(* _column_args_match: only a same-length, different args list is a mismatch (tokens are empty and equal,
   type_arg_extract is () on SQLite) *)
Definition column_args_match (insp meta:ty) : bool :=
  negb (Nat.eqb (length (ty_args meta)) (length (ty_args insp)) && negb (list_eqb N.eqb (ty_args meta) (ty_args insp))).
(* DefaultImpl.compare_type: True if there ARE differences *)
Definition impl_compare_type (insp meta:ty) : bool :=
  if negb (column_types_match insp meta) then true
  else if negb (column_args_match insp meta) then true else false.
(* MigrationContext._compare_type *)
Definition ctx_compare_type (c:cfg) (insp meta:ty) : bool :=
  if negb (compare_type c) then false else impl_compare_type insp meta.

(* ---------------------------------------------------------------- column comparators *)
(* _compare_nullable: modify_nullable := metadata value when they differ *)
Definition compare_nullable (conn meta:col) : option bool :=
  if Bool.eqb (c_null conn) (c_null meta) then None else Some (c_null meta).
(* _compare_type: modify_type := metadata type when the context says they differ *)
Definition compare_type_col (c:cfg) (conn meta:col) : option ty :=
  if ctx_compare_type c (c_ty conn) (c_ty meta) then Some (c_ty meta) else None.

(* the AlterColumnOp built in _compare_columns; appended only if has_changes() *)
Definition alter_column (c:cfg) (tn:N) (conn meta:col) : list op :=
  let mn := compare_nullable conn meta in
  let mt := compare_type_col c conn meta in
  match mn, mt with
  | None, None => []
  | _, _ => [OpAlterColumn tn (c_name meta) (c_null conn) (c_ty conn) mn mt]
  end.

(* _compare_columns, the part before `yield`: added columns, then altered columns (metadata order) *)
Definition compare_columns_pre (c:cfg) (tn:N) (conn meta:table) : list op :=
  flat_map (fun mc => if memN (c_name mc) (keys c_name (t_cols conn)) then [] else [OpAddColumn tn mc]) (t_cols meta)
  ++ flat_map (fun mc => match kfind c_name (c_name mc) (t_cols conn) with
                         | Some cc => alter_column c tn cc mc
                         | None => []
                         end) (t_cols meta).
(* ... and the part after `yield`: removed columns *)
Definition compare_columns_post (tn:N) (conn meta:table) : list op :=
  flat_map (fun cc => if memN (c_name cc) (keys c_name (t_cols meta)) then [] else [OpDropColumn tn (c_name cc)]) (t_cols conn).

(* ---------------------------------------------------------------- _compare_indexes_and_uniques *)
(* compare_to_reflected: _ix_constraint_sig -> DefaultImpl.compare_indexes (unique flag, ordered column
   names); _uq_constraint_sig -> compare_unique_constraint (sorted column names).  true = equal *)
Definition sig_equal (meta conn:cons) : bool :=
  match meta, conn with
  | Ix _ mc mu, Ix _ cc cu => Bool.eqb cu mu && list_eqb N.eqb mc cc
  | Uq _ mc, Uq _ cc => permb cc mc
  | _, _ => false
  end.

Definition obj_added (tn:N) (supports_uq create_or_drop:bool) (k:cons) : list op :=
  match k with
  | Ix _ _ _ => [OpAddCons tn k]
  | Uq _ _ => if negb supports_uq then [] else if create_or_drop then [] else [OpAddCons tn k]
  end.
Definition obj_removed (tn:N) (supports_uq create_or_drop:bool) (k:cons) : list op :=
  match k with
  | Ix n _ u => if u && negb supports_uq then [] else [OpDropCons tn true n]
  | Uq n _ => if create_or_drop then [] else [OpDropCons tn false n]
  end.
Definition obj_changed (tn:N) (old new:cons) : list op := [OpDropCons tn (is_ix old) (k_name old); OpAddCons tn new].

Definition compare_indexes_and_uniques (tn:N) (conn_table metadata_table:option table) : list op :=
  let is_create_table := match conn_table with None => true | Some _ => false end in
  let is_drop_table := match metadata_table with None => true | Some _ => false end in
  let cod := is_create_table || is_drop_table in
  let metadata_cons := match metadata_table with Some m => t_cons m | None => [] end in
  (* inspector.get_unique_constraints works on SQLite whenever there is a reflected table *)
  let supports_unique_constraints := negb is_create_table in
  let conn_cons := match conn_table with
                   | Some c => if is_drop_table then filter is_ix (t_cons c) else t_cons c    (* "for DROP TABLE uniques are inline" *)
                   | None => []
                   end in
  (* removed names *)
  flat_map (fun ck => if memN (k_name ck) (keys k_name metadata_cons) then []
                      else obj_removed tn supports_unique_constraints cod ck) conn_cons
  (* existing names *)
  ++ flat_map (fun mk => match kfind k_name (k_name mk) conn_cons with
                         | Some ck => if negb (Bool.eqb (is_ix ck) (is_ix mk))
                                      then obj_removed tn supports_unique_constraints cod ck
                                           ++ obj_added tn supports_unique_constraints cod mk
                                      else if sig_equal mk ck then [] else obj_changed tn ck mk
                         | None => []
                         end) metadata_cons
  (* added names *)
  ++ flat_map (fun mk => if memN (k_name mk) (keys k_name conn_cons) then []
                         else obj_added tn supports_unique_constraints cod mk) metadata_cons.

(* ---------------------------------------------------------------- _compare_tables *)
(* CreateTableOp.from_table carries the columns and the inline UNIQUE constraints; indexes follow *)
Definition create_table_of (m:table) : table := mkTable (t_name m) (t_cols m) (filter is_uq (t_cons m)).

Definition added_table (m:table) : list op :=
  OpCreateTable (create_table_of m) :: compare_indexes_and_uniques (t_name m) None (Some m).
Definition removed_table (c:table) : list op :=
  compare_indexes_and_uniques (t_name c) (Some c) None ++ [OpDropTable (t_name c)].
Definition existing_table (g:cfg) (c m:table) : list op :=
  compare_columns_pre g (t_name m) c m
  ++ compare_indexes_and_uniques (t_name m) (Some c) (Some m)
  ++ compare_columns_post (t_name m) c m.

Definition compare_tables (g:cfg) (conn meta:schema) : list op :=
  flat_map (fun m => if memN (t_name m) (keys t_name conn) then [] else added_table m) meta
  ++ flat_map (fun c => if memN (t_name c) (keys t_name meta) then [] else removed_table c) conn
  ++ flat_map (fun m => match kfind t_name (t_name m) conn with
                        | Some c => existing_table g c m
                        | None => []
                        end) meta.

(* _autogen_for_tables: one (default) schema, no version table in the database *)
Definition diff (g:cfg) (conn meta:schema) : list op := compare_tables g conn meta.
