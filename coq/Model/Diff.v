(* alembic/autogenerate/compare.py over the first-order schemas of Model/Schema.v, as it runs on SQLite
   without user filters:  _autogen_for_tables, _compare_tables, _compare_columns, _compare_nullable,
   _compare_type (-> MigrationContext._compare_type -> DefaultImpl.compare_type, _column_types_match,
   _column_args_match), _compare_indexes_and_uniques (obj_added / obj_removed / obj_changed,
   _ix_constraint_sig / _uq_constraint_sig comparison), _compare_foreign_keys.  Same names, same branch structure.
   Python iterates several name *sets* (hash order) and sorted name lists; the model walks the lists of the
   schema instead, and the correspondence compares operation lists as multisets.  No proofs here. *)
From AV Require Export Model.Schema.

Record cfg := mkCfg { compare_type : bool; compare_server_default : bool }.

(* ---------------------------------------------------------------- ddl/impl.py *)
Definition is_numeric_syn (f:N) : bool := N.eqb f F_NUMERIC || N.eqb f F_DECIMAL.   (* type_synonyms = ({"NUMERIC","DECIMAL"},) *)

(* _column_types_match: token0 equal, or both in one synonym batch (Params.tokens are empty here, so
   "all terms" is token0 again) *)
Definition column_types_match (insp meta:ty) : bool :=
  N.eqb (ty_fam insp) (ty_fam meta) || (is_numeric_syn (ty_fam insp) && is_numeric_syn (ty_fam meta)).
(* _column_args_match: only a same-length, different args list is a mismatch (tokens are empty and equal,
   type_arg_extract is () on SQLite) *)
Definition column_args_match (insp meta:ty) : bool :=
  negb (Nat.eqb (length (ty_args meta)) (length (ty_args insp)) && negb (list_eqb N.eqb (ty_args meta) (ty_args insp))).
(* DefaultImpl.compare_type: True if there ARE differences *)
Definition impl_compare_type (insp meta:ty) : bool :=
  if negb (column_types_match insp meta) then true
  else if negb (column_args_match insp meta) then true else false.
(* MigrationContext._compare_type *)
Definition ctx_compare_type (c:cfg) (insp meta:ty) : bool :=
  if negb (compare_type c) then false else impl_compare_type insp meta.

(* ---------------------------------------------------------------- ddl/sqlite.py: compare_server_default *)
(* re.sub of ^\((.+)\)$ by \1 *)
Definition strip_parens (s:list N) : list N := if wrapped ch_lpar ch_rpar s then unwrap s else s.
(* re.sub of ^\"?'(.+)'\"?$ by \1 : an optional double quote, a quote, a greedy non-empty middle, a quote, an optional
   double quote.  Greedy matching makes the closing quote the last character, or the last but one before a double quote. *)
Definition strip_quotes (s:list N) : list N :=
  let rest := match s with
              | x :: y :: r => if N.eqb x ch_dquote && N.eqb y ch_quote then Some r
                               else if N.eqb x ch_quote then Some (y :: r) else None
              | _ => None
              end in
  match rest with
  | None => s
  | Some r => if N.eqb (last r 0%N) ch_quote
              then match removelast r with [] => s | mid => mid end
              else if N.eqb (last r 0%N) ch_dquote && N.eqb (last (removelast r) 0%N) ch_quote
                   then match removelast (removelast r) with [] => s | mid => mid end
                   else s
  end.
Definition norm_default (s:list N) : list N := strip_quotes (strip_parens s).
(* SQLiteImpl.compare_server_default(rendered_inspector_default, rendered_metadata_default): True if different *)
Definition sqlite_compare_server_default (insp meta:option (list N)) : bool :=
  negb (opt_eqb (list_eqb N.eqb) (option_map norm_default insp) (option_map norm_default meta)).
(* MigrationContext._compare_server_default *)
Definition ctx_compare_server_default (c:cfg) (insp meta:option (list N)) : bool :=
  if negb (compare_server_default c) then false else sqlite_compare_server_default insp meta.

(* ---------------------------------------------------------------- column comparators *)
(* _compare_nullable: modify_nullable := metadata value when they differ - unless one side is a generated column and the model
   left nullable unset ("Ignoring nullable change on identity column"; Identity itself is outside the universe) *)
Definition compare_nullable (conn meta:col) : option bool :=
  if Bool.eqb (c_null conn) (c_null meta) then None
  else if (is_computed (c_default meta) || is_computed (c_default conn)) && negb (c_null_set meta) then None
  else Some (c_null meta).
(* _compare_type: modify_type := metadata type when the context says they differ *)
Definition compare_type_col (c:cfg) (conn meta:col) : option ty :=
  if ctx_compare_type c (c_ty conn) (c_ty meta) then Some (c_ty meta) else None.

(* _compare_server_default: nothing when both sides have no default; otherwise existing_server_default := the reflected
   default and modify_server_default := the metadata default when the context says they differ.
   _render_server_default_for_compare gives the str argument / the text of the clause: d_txt *)
Definition compare_server_default_col (c:cfg) (conn meta:col) : option (option dflt) :=
  match c_default conn, c_default meta with
  | None, None => None
  | cd, md => if is_computed md then None             (* _compare_computed_default: only warns *)
              else if is_computed cd then None        (* _warn_computed_not_supported; return False *)
              else if ctx_compare_server_default c (option_map d_txt cd) (option_map d_txt md) then Some md else None
  end.
Definition existing_server_default (conn meta:col) : option dflt :=
  match c_default conn, c_default meta with
  | None, None => None
  | cd, md => if is_computed md || is_computed cd then None else cd
  end.

(* the AlterColumnOp built in _compare_columns; appended only if has_changes() *)
Definition alter_column (c:cfg) (tn:N) (conn meta:col) : list op :=
  let mn := compare_nullable conn meta in
  let mt := compare_type_col c conn meta in
  let md := compare_server_default_col c conn meta in
  match mn, mt, md with
  | None, None, None => []
  | _, _, _ => [OpAlterColumn tn (c_name meta) (c_null conn) (c_ty conn) (existing_server_default conn meta) mn mt md]
  end.

(* _compare_columns, the part before `yield`: added columns, then altered columns (metadata order) *)
Definition compare_columns_pre (c:cfg) (tn:N) (conn meta:table) : list op :=
  flat_map (fun mc => if memN (c_name mc) (keys c_name (t_cols conn)) then [] else [OpAddColumn tn mc]) (t_cols meta)
  ++ flat_map (fun mc => match kfind c_name (c_name mc) (t_cols conn) with
                         | Some cc => alter_column c tn cc mc
                         | None => []
                         end) (t_cols meta).
(* ... and the part after `yield`: removed columns *)
Definition compare_columns_post (tn:N) (conn meta:table) : list op :=
  flat_map (fun cc => if memN (c_name cc) (keys c_name (t_cols meta)) then [] else [OpDropColumn tn (c_name cc)]) (t_cols conn).

(* ---------------------------------------------------------------- _compare_indexes_and_uniques *)
(* compare_to_reflected: _ix_constraint_sig -> DefaultImpl.compare_indexes (unique flag, ordered column
   names); _uq_constraint_sig -> compare_unique_constraint (sorted column names).  true = equal *)
Definition sig_equal (meta conn:cons) : bool :=
  match meta, conn with
  | Ix _ mc mu, Ix _ cc cu => Bool.eqb cu mu && list_eqb N.eqb mc cc
  | Uq _ mc, Uq _ cc => permb cc mc
  | _, _ => false
  end.

Definition obj_added (tn:N) (supports_uq create_or_drop:bool) (k:cons) : list op :=
  match k with
  | Ix _ _ _ => [OpAddCons tn k]
  | Uq _ _ => if negb supports_uq then [] else if create_or_drop then [] else [OpAddCons tn k]
  end.
Definition obj_removed (tn:N) (supports_uq create_or_drop:bool) (k:cons) : list op :=
  match k with
  | Ix n _ u => if u && negb supports_uq then [] else [OpDropCons tn true n]
  | Uq n _ => if create_or_drop then [] else [OpDropCons tn false n]
  end.
Definition obj_changed (tn:N) (old new:cons) : list op := [OpDropCons tn (is_ix old) (k_name old); OpAddCons tn new].

(* _uq_constraint_sig.unnamed: the sorted tuple of column names *)
Definition conn_uq_sigs (c:table) : list (list N) := map k_cols (filter is_uq (t_cons c)) ++ map u_cols (t_uuqs c).
Definition compare_indexes_and_uniques (tn:N) (conn_table metadata_table:option table) : list op :=
  let is_create_table := match conn_table with None => true | Some _ => false end in
  let is_drop_table := match metadata_table with None => true | Some _ => false end in
  let cod := is_create_table || is_drop_table in
  let metadata_cons := match metadata_table with Some m => t_cons m | None => [] end in
  let unnamed_metadata_uniques := match metadata_table with Some m => t_uuqs m | None => [] end in
  (* inspector.get_unique_constraints works on SQLite whenever there is a reflected table *)
  let supports_unique_constraints := negb is_create_table in
  let conn_cons := match conn_table with
                   | Some c => if is_drop_table then filter is_ix (t_cons c) else t_cons c    (* "for DROP TABLE uniques are inline" *)
                   | None => []
                   end in
  (* removed names *)
  flat_map (fun ck => if memN (k_name ck) (keys k_name metadata_cons) then []
                      (* a reflected unique constraint that matches an unnamed metadata one by signature stays *)
                      else if is_uq ck && existsb (fun u => permb (k_cols ck) (u_cols u)) unnamed_metadata_uniques then []
                      else obj_removed tn supports_unique_constraints cod ck) conn_cons
  (* existing names *)
  ++ flat_map (fun mk => match kfind k_name (k_name mk) conn_cons with
                         | Some ck => if negb (Bool.eqb (is_ix ck) (is_ix mk))
                                      then obj_removed tn supports_unique_constraints cod ck
                                           ++ obj_added tn supports_unique_constraints cod mk
                                      else if sig_equal mk ck then [] else obj_changed tn ck mk
                         | None => []
                         end) metadata_cons
  (* added names *)
  ++ flat_map (fun mk => if memN (k_name mk) (keys k_name conn_cons) then []
                         else obj_added tn supports_unique_constraints cod mk) metadata_cons
  (* unnamed metadata unique constraints whose signature no reflected unique constraint (named or not) has: obj_added, which
     returns at once for CREATE / DROP TABLE.  Reflected unnamed unique constraints are never removed. *)
  ++ match conn_table, metadata_table with
     | Some c, Some m => flat_map (fun u => if existsb (permb (u_cols u)) (conn_uq_sigs c) then [] else [OpAddUUq tn u]) (t_uuqs m)
     | _, _ => []
     end.

(* ---------------------------------------------------------------- _compare_foreign_keys *)
(* _fk_constraint_sig._sig: (source table, source columns, target table, target columns) + (onupdate, ondelete, a
   three-state deferrable value); the source table is the same on both sides.  SQLite reports an "options" key, so the
   with-options signature `unnamed` is the one compared. *)
(* (None if x.lower() == "no action" else x.lower()) if x else None *)
Definition sig_action (a:option (list N)) : option (list N) :=
  match a with
  | Some [] | None => None
  | Some s => if list_eqb N.eqb (lower s) s_no_action then None else Some (lower s)
  end.
Inductive defer3 := InitiallyDeferrable | Deferrable | NotDeferrable.
Definition s_deferred : list N := [100;101;102;101;114;114;101;100]%N.
(* "initially_deferrable" if initially and initially.lower() == "deferred" else "deferrable" if deferrable else "not deferrable" *)
Definition sig_defer (o:fkopts) : defer3 :=
  if match o_initially o with Some s => list_eqb N.eqb (lower s) s_deferred | None => false end then InitiallyDeferrable
  else match o_deferrable o with Some true => Deferrable | _ => NotDeferrable end.
Definition defer3_eqb (a b:defer3) : bool :=
  match a, b with InitiallyDeferrable, InitiallyDeferrable | Deferrable, Deferrable | NotDeferrable, NotDeferrable => true | _, _ => false end.
Definition fk_sig_eqb (a b:fk) : bool :=
  list_eqb N.eqb (f_cols a) (f_cols b) && N.eqb (f_rtable a) (f_rtable b) && list_eqb N.eqb (f_rcols a) (f_rcols b)
  && opt_eqb (list_eqb N.eqb) (sig_action (o_onupdate (f_opts a))) (sig_action (o_onupdate (f_opts b)))
  && opt_eqb (list_eqb N.eqb) (sig_action (o_ondelete (f_opts a))) (sig_action (o_ondelete (f_opts b)))
  && defer3_eqb (sig_defer (f_opts a)) (sig_defer (f_opts b)).
Definition fk_names_ok (A B:schema) : bool :=
  forallb (fun m => match kfind t_name (t_name m) A with Some c => fk_names_okb fk_sig_eqb (t_fks c) (t_fks m) | None => true end) B.
Definition compare_foreign_keys (tn:N) (conn_table metadata_table:option table) : list op :=
  match conn_table, metadata_table with
  | Some c, Some m =>
      (* removed signatures: DropConstraintOp by name *)
      flat_map (fun cf => if existsb (fk_sig_eqb cf) (t_fks m) then [] else [OpDropFk tn (f_name cf) (f_named cf)]) (t_fks c)
      (* added signatures *)
      ++ flat_map (fun mf => if existsb (fk_sig_eqb mf) (t_fks c) then [] else [OpAddFk tn mf]) (t_fks m)
  | _, _ => []                  (* CREATE TABLE / DROP TABLE: foreign keys are inline *)
  end.

(* ---------------------------------------------------------------- _compare_tables *)
(* CreateTableOp.from_table carries the columns, the inline UNIQUE constraints and the foreign keys; indexes follow *)
Definition create_table_of (m:table) : table := mkTable (t_name m) (t_cols m) (filter is_uq (t_cons m)) (t_fks m) (t_uuqs m).

(* (_compare_foreign_keys is dispatched for added and removed tables too and returns at once: conn_table or metadata_table is None) *)
Definition added_table (m:table) : list op :=
  OpCreateTable (create_table_of m) :: compare_indexes_and_uniques (t_name m) None (Some m).
Definition removed_table (c:table) : list op :=
  compare_indexes_and_uniques (t_name c) (Some c) None ++ [OpDropTable (t_name c)].
Definition existing_table (g:cfg) (c m:table) : list op :=
  compare_columns_pre g (t_name m) c m
  ++ compare_indexes_and_uniques (t_name m) (Some c) (Some m)
  ++ compare_foreign_keys (t_name m) (Some c) (Some m)
  ++ compare_columns_post (t_name m) c m.

Definition compare_tables (g:cfg) (conn meta:schema) : list op :=
  flat_map (fun m => if memN (t_name m) (keys t_name conn) then [] else added_table m) meta
  ++ flat_map (fun c => if memN (t_name c) (keys t_name meta) then [] else removed_table c) conn
  ++ flat_map (fun m => match kfind t_name (t_name m) conn with
                        | Some c => existing_table g c m
                        | None => []
                        end) meta.

(* _autogen_for_tables: one (default) schema, no version table in the database *)
Definition diff (g:cfg) (conn meta:schema) : list op := compare_tables g conn meta.
