(* C18 — replaying an offline script, and the plan both the offline and the online run are made from (the granularity
   of C12: every step carries its migration body and the bookkeeping statements update_to_step issues for it).
   Definitions only. *)
From AV Require Import Base.ListSet Model.Txn Model.C18Dialect Model.Offline.

(* ---- replay on a database with real transactional DDL: BEGIN opens a transaction, COMMIT commits it, a statement runs
   in the open transaction or, outside every block, is durable at once; separators and comments do nothing.
   `den` says what a statement of the script does to a database state. *)
Section Replay.
  Variable den : event -> dbstate -> dbstate.
  Definition replay_ev (d:db) (e:event) : db :=
    match e with
    | Begin => db_begin TxDDL d
    | Commit => db_commit d
    | Sep => d
    | _ => match pending d with
           | Some p => mkDB (committed d) (Some (den e p))
           | None => mkDB (den e (committed d)) None
           end
    end.
  Definition replay (evs:list event) (d:db) : db := fold_left replay_ev evs d.
  Definition exec_all (evs:list event) (s:dbstate) : dbstate := fold_left (fun s e => den e s) evs s.
End Replay.

(* ---- a plan *)
Inductive pitem := PStmt (x:stmt) | PAuto (xs:list stmt).
Record pstep := mkPstep { p_body : list pitem; p_ver : list vop }.

(* the payload number under which a statement appears in the script: its effect, encoded *)
Definition enc (x:stmt) : N := match stmt_eff x with Add v => N.double v | Txn.Del v => N.succ_double v end.
Definition dec (p:N) : eff := if N.odd p then Txn.Del (N.div2 p) else Add (N.div2 p).

(* the offline side: Model.Offline's run *)
Definition item_of (it:pitem) : item :=
  match it with PStmt x => IStmt (enc x) | PAuto xs => IAuto (map enc xs) end.
Fixpoint osteps_of (plan:list pstep) (rows:list N) : list ostep :=
  match plan with
  | [] => []
  | s :: r => let rows' := fold_left (fun l v => apply_vop v l) (p_ver s) rows in
              mkOstep (map item_of (p_body s)) (length (p_ver s)) (match rows' with [] => true | _ => false end) []
              :: osteps_of r rows'
  end.
Definition run_of (plan:list pstep) (rows0:list N) : run :=
  mkRun (match rows0 with [] => true | _ => false end) (osteps_of plan rows0) false.

(* the online side: Model.Txn's steps *)
Definition bitem_of (it:pitem) : bitem :=
  match it with PStmt x => BStmt x | PAuto xs => BAuto (map AStmt xs) end.
Definition steps_of (plan:list pstep) : list step :=
  map (fun s => mkStep (map bitem_of (p_body s)) (p_ver s) false) plan.

(* what the statements of the script do *)
Definition den (plan:list pstep) (e:event) (s:dbstate) : dbstate :=
  match e with
  | Stmt _ p _ => apply_act (AEff (dec p)) s
  | VersionStmt k j =>
      match nth_error plan (N.to_nat k) with
      | Some st => match nth_error (p_ver st) (N.to_nat j) with Some v => apply_act (AVop v) s | None => s end
      | None => s
      end
  | CreateVT _ => apply_act AVt s
  | DropVT => mkDb (effs s) false (vrows s)
  | _ => s
  end.
