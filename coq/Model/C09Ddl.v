(* C09 — a small meaning of the operations on abstract database states, so that "the downgrade
   undoes the upgrade" can be stated.  A database is a finite map from (schema, table) to a table
   state; a table state has columns {type, nullable, default, comment} by name, named constraints
   and indexes by name, a comment, and the unnamed constraints / prefixes / dialect keywords it
   was created with.  Finite maps are association lists kept sorted by key, so that equal maps are
   equal terms (column order is not part of the state, as for compare_metadata).
   No proofs here. *)
From AV Require Export Model.Ops Spec.C09Dec.

(* ------------------------------------------------------------------ sorted association lists on strings *)

Fixpoint cmp_str (a b : str) : comparison :=
  match a, b with
  | [], [] => Eq
  | [], _ :: _ => Lt
  | _ :: _, [] => Gt
  | x :: a', y :: b' => match N.compare x y with Eq => cmp_str a' b' | c => c end
  end.

Definition smap (V : Type) := list (str * V).

Fixpoint lookup {V} (k : str) (m : smap V) : option V :=
  match m with
  | [] => None
  | (k', v) :: r => match cmp_str k k' with Eq => Some v | _ => lookup k r end
  end.
Fixpoint put {V} (k : str) (v : V) (m : smap V) : smap V :=
  match m with
  | [] => [(k, v)]
  | (k', v') :: r => match cmp_str k k' with
                     | Eq => (k, v) :: r
                     | Lt => (k, v) :: (k', v') :: r
                     | Gt => (k', v') :: put k v r
                     end
  end.
Fixpoint del {V} (k : str) (m : smap V) : smap V :=
  match m with
  | [] => []
  | (k', v') :: r => match cmp_str k k' with
                     | Eq => r
                     | Lt => (k', v') :: r
                     | Gt => (k', v') :: del k r
                     end
  end.
Fixpoint sorted {V} (m : smap V) : Prop :=
  match m with
  | [] => True
  | (k, _) :: r => (forall k' v', In (k', v') r -> cmp_str k k' = Lt) /\ sorted r
  end.

(* ------------------------------------------------------------------ states *)

Record colattr := mkCA { ca_type : tok; ca_nullable : bool; ca_default : option tok; ca_comment : option str }.
Definition attrs_of (c : column) : colattr := mkCA (c_type c) (c_nullable c) (c_default c) (c_comment c).

(* an empty INITIALLY / ON UPDATE / ... is what a database assumes when nothing is said *)
Definition norm_fkopts (o : fkopts) : fkopts :=
  mkFkO (truthy_s (fo_onupdate o)) (truthy_s (fo_ondelete o)) (truthy_s (fo_initially o)) (truthy_s (fo_match o))
        (fo_deferrable o).
Definition norm_constr (c : constr) : constr :=
  match c with
  | CUq n t s cs d i k => CUq n t s cs d (truthy_s i) k
  | CFk n t s cs rt rs rcs o k => CFk n t s cs rt rs rcs (norm_fkopts o) k
  | _ => c
  end.

Record idesc := mkID { id_exprs : list iexpr; id_unique : bool; id_kw : tok }.
Definition idesc_of (i : index) : idesc := mkID (i_exprs i) (i_unique i) (i_kw i).

Record tstate := mkTS {
  ts_cols : smap colattr; ts_cons : smap constr; ts_idx : smap idesc; ts_comment : option str;
  ts_unnamed : list constr; ts_prefixes : list str; ts_kw : tok }.
Definition db := smap tstate.

(* (schema, table) as one key: a tag, the length of the schema name, the schema name, the table name *)
Definition qkey (s : option str) (t : str) : str :=
  match s with None => 0%N :: t | Some sc => 1%N :: N.of_nat (length sc) :: sc ++ t end.

Definition cols_of (l : list column) : smap colattr := fold_left (fun m c => put (c_name c) (attrs_of c) m) l [].
Definition named_of (l : list constr) : smap constr :=
  fold_left (fun m c => match constr_name c with Some n => put n (norm_constr c) m | None => m end) l [].
Definition unnamed_of (l : list constr) : list constr :=
  map norm_constr (filter (fun c => match constr_name c with None => true | Some _ => false end) l).
Definition idx_of (l : list index) : smap idesc :=
  fold_left (fun m i => match i_name i with Some n => put n (idesc_of i) m | None => m end) l [].
(* the state CREATE TABLE (with the CREATE INDEX statements of the table's own indexes) leaves behind *)
Definition ts_of (t : tdesc) : tstate :=
  mkTS (cols_of (t_cols t)) (named_of (t_cons t)) (idx_of (t_idx t)) (t_comment t) (unnamed_of (t_cons t)) (t_prefixes t) (t_kw t).

Definition set_cols (ts : tstate) (c : smap colattr) : tstate :=
  mkTS c (ts_cons ts) (ts_idx ts) (ts_comment ts) (ts_unnamed ts) (ts_prefixes ts) (ts_kw ts).
Definition set_cons (ts : tstate) (c : smap constr) : tstate :=
  mkTS (ts_cols ts) c (ts_idx ts) (ts_comment ts) (ts_unnamed ts) (ts_prefixes ts) (ts_kw ts).
Definition set_idx (ts : tstate) (i : smap idesc) : tstate :=
  mkTS (ts_cols ts) (ts_cons ts) i (ts_comment ts) (ts_unnamed ts) (ts_prefixes ts) (ts_kw ts).
Definition set_comment (ts : tstate) (c : option str) : tstate :=
  mkTS (ts_cols ts) (ts_cons ts) (ts_idx ts) c (ts_unnamed ts) (ts_prefixes ts) (ts_kw ts).

(* ------------------------------------------------------------------ apply *)

(* run f on the state of table (s,t); None when the table does not exist or f does not apply *)
Definition on_table (s : option str) (t : str) (f : tstate -> option tstate) (A : db) : option db :=
  match lookup (qkey s t) A with
  | Some ts => match f ts with Some ts' => Some (put (qkey s t) ts' A) | None => None end
  | None => None
  end.

Definition alter_attrs (a : altercol) (c : colattr) : colattr :=
  mkCA (match ac_modify_type a with Some m => m | None => ca_type c end)
       (match ac_modify_nullable a with Some m => m | None => ca_nullable c end)
       (match ac_modify_server_default a with SetTo m => m | Unset => ca_default c end)
       (match ac_modify_comment a with SetTo m => m | Unset => ca_comment c end).
Definition alter_new_name (a : altercol) : str :=
  match ac_modify_name a with Some n => n | None => ac_column a end.

Definition apply_op (o : op) (A : db) : option db :=
  match o with
  | CreateTableOp t _ ci =>
      let td := create_to_table t ci in
      match lookup (qkey (t_schema td) (t_name td)) A with
      | None => Some (put (qkey (t_schema td) (t_name td)) (ts_of td) A)
      | Some _ => None
      end
  | DropTableOp n s _ _ _ _ _ =>
      match lookup (qkey s n) A with Some _ => Some (del (qkey s n) A) | None => None end
  | AddColumnOp t c s =>
      on_table s t (fun ts => match lookup (c_name c) (ts_cols ts) with
                              | None => Some (set_cols ts (put (c_name c) (attrs_of c) (ts_cols ts)))
                              | Some _ => None end) A
  | DropColumnOp t cn s _ rev =>
      let c := drop_to_column cn rev in
      on_table s t (fun ts => match lookup (c_name c) (ts_cols ts) with
                              | Some _ => Some (set_cols ts (del (c_name c) (ts_cols ts)))
                              | None => None end) A
  | AlterColumnOp a =>
      on_table (ac_schema a) (ac_table a)
        (fun ts => match lookup (ac_column a) (ts_cols ts) with
                   | Some c => let rest := del (ac_column a) (ts_cols ts) in
                               match lookup (alter_new_name a) rest with
                               | None => Some (set_cols ts (put (alter_new_name a) (alter_attrs a c) rest))
                               | Some _ => None end
                   | None => None end) A
  | CreateIndexOp c =>
      let i := to_index c in
      match i_name i with
      | Some n => on_table (i_schema i) (i_table i)
                    (fun ts => match lookup n (ts_idx ts) with
                               | None => Some (set_idx ts (put n (idesc_of i) (ts_idx ts)))
                               | Some _ => None end) A
      | None => None
      end
  | DropIndexOp n t s _ ku kw rev =>
      let i := drop_to_index n t s ku kw rev in
      match i_name i with
      | Some n => on_table (i_schema i) (i_table i)
                    (fun ts => match lookup n (ts_idx ts) with
                               | Some _ => Some (set_idx ts (del n (ts_idx ts)))
                               | None => None end) A
      | None => None
      end
  | AddConstraintOp a =>
      let c := to_constraint a in
      match constr_name c with
      | Some n => on_table (constr_schema c) (constr_table c)
                    (fun ts => match lookup n (ts_cons ts) with
                               | None => Some (set_cons ts (put n (norm_constr c) (ts_cons ts)))
                               | Some _ => None end) A
      | None => None
      end
  | DropConstraintOp n t _ s _ =>
      match n with
      | Some n => on_table s t (fun ts => match lookup n (ts_cons ts) with
                                          | Some _ => Some (set_cons ts (del n (ts_cons ts)))
                                          | None => None end) A
      | None => None
      end
  | CreateTableCommentOp t c _ s => on_table s t (fun ts => Some (set_comment ts c)) A
  | DropTableCommentOp t _ s => on_table s t (fun ts => Some (set_comment ts None)) A
  | RenameTableOp _ _ _ | ExecuteSQLOp _ | BulkInsertOp _ _ => None       (* not given a meaning here *)
  end.

Fixpoint apply_list (l : list op) (A : db) : option db :=
  match l with
  | [] => Some A
  | o :: r => match apply_op o A with Some B => apply_list r B | None => None end
  end.
Definition apply_top (x : top) (A : db) : option db :=
  match x with Leaf o => apply_op o A | ModifyTableOps _ _ l => apply_list l A end.
Fixpoint apply_ops (l : list top) (A : db) : option db :=
  match l with
  | [] => Some A
  | x :: r => match apply_top x A with Some B => apply_ops r B | None => None end
  end.

(* ------------------------------------------------------------------ "the stored originals describe the database" *)

Definition colattr_eq_dec : forall a b : colattr, {a = b} + {a <> b}. Proof. dec_eq. Defined.
Definition idesc_eq_dec : forall a b : idesc, {a = b} + {a <> b}. Proof. dec_eq; apply (list_eq_dec iexpr_eq_dec). Defined.
Definition smap_eq_dec {V} (d : forall a b : V, {a = b} + {a <> b}) : forall a b : smap V, {a = b} + {a <> b}.
Proof. apply list_eq_dec. decide equality. apply str_eq_dec. Defined.
Definition tstate_eq_dec : forall a b : tstate, {a = b} + {a <> b}.
Proof. dec_eq; first [ apply (smap_eq_dec colattr_eq_dec) | apply (smap_eq_dec constr_eq_dec) | apply (smap_eq_dec idesc_eq_dec)
                     | apply (list_eq_dec constr_eq_dec) ]. Defined.

Definition with_table (s : option str) (t : str) (f : tstate -> bool) (A : db) : bool :=
  match lookup (qkey s t) A with Some ts => f ts | None => false end.

(* the operation applies to A, can be reversed, and what it remembers of the database
   (the stored original, the existing_ values) is what A holds *)
Definition undoable_op (o : op) (A : db) : bool :=
  match o with
  | CreateTableOp t _ _ =>         (* the reversal does not remember a table's own indexes *)
      match t_idx t with [] => match apply_op o A with Some _ => true | None => false end | _ => false end
  | AddColumnOp _ _ _ | CreateIndexOp _ | AddConstraintOp _ =>
      match apply_op o A with Some _ => true | None => false end
  | DropTableOp n s _ c p kw rev =>
      with_table s n (fun ts => decb tstate_eq_dec ts (ts_of (drop_to_table n s c p kw rev))) A
  | DropColumnOp t cn s _ rev =>
      match rev with
      | Some (_, c, _) => with_table s t (fun ts => decb (option_eq_dec colattr_eq_dec) (lookup (c_name c) (ts_cols ts)) (Some (attrs_of c))) A
      | None => false
      end
  | AlterColumnOp a =>
      match apply_op o A with Some _ => true | None => false end &&
      with_table (ac_schema a) (ac_table a)
        (fun ts => match lookup (ac_column a) (ts_cols ts) with
                   | Some c =>
                       (negb (is_some (ac_modify_type a)) || decb otok_eq_dec (ac_existing_type a) (Some (ca_type c))) &&
                       (negb (is_some (ac_modify_nullable a)) || decb obool_eq_dec (ac_existing_nullable a) (Some (ca_nullable c))) &&
                       (negb (tri_is_set (ac_modify_server_default a))
                        || decb (tri_eq_dec N.eq_dec) (ac_existing_server_default a) (SetTo (ca_default c))) &&
                       (negb (tri_is_set (ac_modify_comment a)) || decb ostr_eq_dec (ac_existing_comment a) (ca_comment c))
                   | None => false end) A
  | DropIndexOp n t s _ ku kw rev =>
      let i := drop_to_index n t s ku kw rev in
      match i_name i with
      | Some n => with_table (i_schema i) (i_table i)
                    (fun ts => decb (option_eq_dec idesc_eq_dec) (lookup n (ts_idx ts)) (Some (idesc_of i))) A
      | None => false
      end
  | DropConstraintOp n t _ s rev =>
      match n, rev with
      | Some n', Some a =>
          with_table s t (fun ts => decb (option_eq_dec constr_eq_dec) (lookup n' (ts_cons ts))
                                         (Some (norm_constr (retarget n t s (to_constraint a))))) A
      | _, _ => false
      end
  | CreateTableCommentOp t _ e s => with_table s t (fun ts => decb ostr_eq_dec e (ts_comment ts)) A
  | DropTableCommentOp t e s => with_table s t (fun ts => decb ostr_eq_dec e (ts_comment ts)) A
  | RenameTableOp _ _ _ | ExecuteSQLOp _ | BulkInsertOp _ _ => false
  end.

Fixpoint undoable_list (l : list op) (A : db) : bool :=
  match l with
  | [] => true
  | o :: r => undoable_op o A && match apply_op o A with Some B => undoable_list r B | None => false end
  end.
Definition undoable_top (x : top) (A : db) : bool :=
  match x with Leaf o => undoable_op o A | ModifyTableOps _ _ l => undoable_list l A end.
Fixpoint undoable_ops (l : list top) (A : db) : bool :=
  match l with
  | [] => true
  | x :: r => undoable_top x A && match apply_top x A with Some B => undoable_ops r B | None => false end
  end.

(* well-formed states: every map is sorted *)
Definition wf_ts (ts : tstate) : Prop := sorted (ts_cols ts) /\ sorted (ts_cons ts) /\ sorted (ts_idx ts).
Definition wf_db (A : db) : Prop := sorted A /\ forall k ts, In (k, ts) A -> wf_ts ts.
