(* alembic/runtime/migration.py: HeadMaintainer (_insert_version, _delete_version, _update_version,
   update_to_step), RevisionStep and StampStep decision functions, transcribed function by function.
   The version table is a list of N (a multiset of rows); HeadMaintainer.heads is a list used as a set.
   Every bookkeeping statement records the number of rows it matched.  No proofs here. *)
From AV Require Export Model.RevGraph.

Inductive herr :=
| EKey        (* KeyError: heads.remove(x) of an absent element *)
| EAssert     (* AssertionError: one of the asserts *)
| ECommand    (* util.CommandError: rowcount != 1 *)
| EIndex      (* IndexError: [0] / [-1] of an empty tuple (StampStep only) *)
| EFuel       (* the model ran out of dfs fuel: excluded by proof *)
| EOther.     (* implementation side only: any other exception class *)
Inductive res (A:Type) := Ok (a:A) | Err (e:herr).
Arguments Ok {A} a. Arguments Err {A} e.
Definition bind {A B} (x : res A) (f : A -> res B) : res B := match x with Ok a => f a | Err e => Err e end.

Inductive stmt :=
| Ins (v:N)                (* INSERT INTO version_table VALUES (v) *)
| Del (v:N) (n:nat)        (* DELETE ... WHERE version_num = v   ; n rows matched *)
| Upd (f t:N) (n:nat).     (* UPDATE ... SET version_num = t WHERE version_num = f ; n rows matched *)

Record hm := mkHM { heads : list N; rows : list N }.

Definition upd_rows (f t:N) (l:list N) : list N := map (fun x => if N.eqb x f then t else x) l.

(* HeadMaintainer._insert_version *)
Definition insert_version (v:N) (s:hm) : res (hm * list stmt) :=
  if memN v (heads s) then Err EAssert
  else Ok (mkHM (v :: heads s) (rows s ++ [v]), [Ins v]).

(* HeadMaintainer._delete_version (online, supports_sane_rowcount) *)
Definition delete_version (v:N) (s:hm) : res (hm * list stmt) :=
  if memN v (heads s) then
    let n := countN v (rows s) in
    if Nat.eqb n 1 then Ok (mkHM (removeN v (heads s)) (removeN v (rows s)), [Del v n])
    else Err ECommand
  else Err EKey.

(* HeadMaintainer._update_version *)
Definition update_version (f t:N) (s:hm) : res (hm * list stmt) :=
  if memN t (heads s) then Err EAssert
  else if memN f (heads s) then
    let n := countN f (rows s) in
    if Nat.eqb n 1 then Ok (mkHM (t :: removeN f (heads s)) (upd_rows f t (rows s)), [Upd f t n])
    else Err ECommand
  else Err EKey.

(* `for x in l: self._delete_version(x)` / `for x in l: self._insert_version(x)` *)
Fixpoint each (op : N -> hm -> res (hm * list stmt)) (l:list N) (s:hm) : res (hm * list stmt) :=
  match l with
  | [] => Ok (s, [])
  | x :: r => bind (op x s) (fun p => bind (each op r (fst p)) (fun q => Ok (fst q, snd p ++ snd q)))
  end.
Definition then_ (a : res (hm * list stmt)) (f : hm -> res (hm * list stmt)) : res (hm * list stmt) :=
  bind a (fun p => bind (f (fst p)) (fun q => Ok (fst q, snd p ++ snd q))).

Definition is_nil {A} (l:list A) : bool := match l with [] => true | _ => false end.

(* RevisionMap._get_ancestor_nodes(targets, check=False) with include_dependencies=True:
   fn = _normalized_down_revisions *)
Definition anc_nodes (G:graph) (targets:list N) : option (list N) := reach_set (norm_down G) G targets.

(* the first set comprehension of RevisionStep._unmerge_to_revisions:
   { r | to_revision in to_revisions, r in ancestors(to_revision), r != to_revision } *)
Fixpoint strict_ancs (G:graph) (P:list N) : option (list N) :=
  match P with
  | [] => Some []
  | t :: P' => match anc_nodes G [t], strict_ancs G P' with
               | Some a, Some b => Some (removeN t a ++ b)
               | _, _ => None
               end
  end.

(* RevisionStep._unmerge_to_revisions (downgrade: to_revisions = _normalized_down_revisions);
   the result is a tuple(set(..)): its order is not determined by the code, see `ord` below *)
Definition unmerge_to_revisions (G:graph) (r:N) (H:list N) : res (list N) :=
  let P := norm_down G r in
  let other := removeN r H in
  match strict_ancs G P with
  | None => Err EFuel
  | Some a1 =>
    match (if is_nil other then Some [] else anc_nodes G other) with
    | None => Err EFuel
    | Some a2 => Ok (diffN P (a1 ++ a2))
    end
  end.

Inductive step :=
| RevStep (r:N) (is_upgrade:bool)
| StampStep (from_ to_ : list N) (is_upgrade branch_move : bool).

(* what is observed after one step: the rows and the statements, or the exception class *)
Inductive obs := ObsOk (rows_after : list N) (stmts : list stmt) | ObsErr (e:herr).

Section Step.
  Variable G : graph.
  (* the iteration order of tuple(set(...)) in _unmerge_to_revisions: any permutation *)
  Variable ord : list N -> list N.

  (* RevisionStep.update_version_num *)
  Definition rev_update_version_num (r:N) (up:bool) (H:list N) : res (N * N) :=
    let P := norm_down G r in
    bind (if Nat.eqb (length P) 1 then Ok (hd 0%N P)
          else match interN P H with [d] => Ok d | _ => Err EAssert end)
         (fun d => if up then Ok (d, r) else Ok (r, d)).

  (* update_to_step for a RevisionStep *)
  Definition rev_step (r:N) (up:bool) (s:hm) : res (hm * list stmt) :=
    let P := norm_down G r in
    let H := heads s in
    if up then
      (* should_delete_branch = False; should_create_branch *)
      if is_nil P || is_nil (interN P H) then insert_version r s
      (* should_merge_branches *)
      else if Nat.ltb 1 (length P) && Nat.ltb 1 (length (interN P H)) then
        let from := interN P H in                 (* merge_branch_idents: [rev for rev in from_revisions if rev in heads] *)
        then_ (each delete_version (removelast from) s) (update_version (last from 0%N) r)
      (* should_unmerge_branches = False; update_version_num *)
      else bind (rev_update_version_num r up H) (fun ft => update_version (fst ft) (snd ft) s)
    else
      let fallback := bind (rev_update_version_num r up H) (fun ft => update_version (fst ft) (snd ft) s) in
      if memN r H then
        if is_nil P then delete_version r s                        (* should_delete_branch: is a base *)
        else
          match unmerge_to_revisions G r H with
          | Err e => Err e
          | Ok to0 =>
            if is_nil to0 then delete_version r s                  (* should_delete_branch: nothing to un-merge to *)
            else if Nat.ltb 1 (length P) then                      (* should_unmerge_branches *)
              let to := ord to0 in                                  (* unmerge_branch_idents *)
              then_ (each insert_version (removelast to) s) (update_version r (last to 0%N))
            else fallback
          end
      else fallback.

  (* update_to_step for a StampStep(from_, to_, is_upgrade, branch_move) *)
  Definition stamp_step (from to : list N) (up bm : bool) (s:hm) : res (hm * list stmt) :=
    let H := heads s in
    if negb up && bm then                                               (* should_delete_branch *)
      match from with [v] => delete_version v s | _ => Err EAssert end  (* delete_version_num *)
    else if up && (bm || negb (subsetN from H)) && negb (subsetN to H) then  (* should_create_branch *)
      match to with [v] => insert_version v s | _ => Err EAssert end    (* insert_version_num *)
    else if Nat.ltb 1 (length from) then                                (* should_merge_branches; merge_branch_idents *)
      match to with
      | [] => Err EIndex
      | t0 :: _ => then_ (each delete_version (removelast from) s) (update_version (last from 0%N) t0)
      end
    else if Nat.ltb 1 (length to) then                                  (* should_unmerge_branches; unmerge_branch_idents *)
      match from with
      | [] => Err EIndex
      | f0 :: _ => then_ (each insert_version (removelast to) s) (update_version f0 (last to 0%N))
      end
    else match from, to with                                            (* update_version_num *)
         | [f], [t] => update_version f t s
         | _, _ => Err EAssert
         end.

  (* HeadMaintainer.update_to_step *)
  Definition update_to_step (st:step) (s:hm) : res (hm * list stmt) :=
    match st with
    | RevStep r up => rev_step r up s
    | StampStep f t up bm => stamp_step f t up bm s
    end.

  (* the `for step in fn(heads, ctx)` loop of run_migrations / MigrationContext.stamp *)
  Fixpoint run_steps (steps : list step) (s:hm) : list obs * option hm :=
    match steps with
    | [] => ([], Some s)
    | st :: rest =>
      match update_to_step st s with
      | Ok (s', stmts) => let (o, f) := run_steps rest s' in (ObsOk (rows s') stmts :: o, f)
      | Err e => ([ObsErr e], None)
      end
    end.

  (* one command: HeadMaintainer(context, heads) with heads = the rows read from the table *)
  Definition start (rws : list N) : hm := mkHM (dedupe rws) rws.
  Definition run_cmd (steps : list step) (rws : list N) : list obs * option (list N) :=
    let (o, f) := run_steps steps (start rws) in (o, option_map rows f).

  (* a sequence of commands on one database; stops at the first failing command *)
  Fixpoint run_cmds (cmds : list (list step)) (rws : list N) : list (list obs) :=
    match cmds with
    | [] => []
    | c :: rest => match run_cmd c rws with
                   | (o, Some rws') => o :: run_cmds rest rws'
                   | (o, None) => [o]
                   end
    end.
End Step.


(* ---------- offline (--sql, context.as_sql) mode ----------
   HeadMaintainer._delete_version / _update_version: `if not self.context.as_sql and ... and ret.rowcount != 1: raise`
   — with as_sql the statement is emitted (literal binds) and the rowcount check is skipped; everything else is the
   same code.  The generic forms below take the flag; update_to_step_p is the text of update_to_step over the two
   primitives that read the flag (the online functions above are the instance as_sql = false). *)
Definition delete_version_g (as_sql:bool) (v:N) (s:hm) : res (hm * list stmt) :=
  if memN v (heads s) then
    let n := countN v (rows s) in
    if as_sql || Nat.eqb n 1 then Ok (mkHM (removeN v (heads s)) (removeN v (rows s)), [Del v n])
    else Err ECommand
  else Err EKey.
Definition update_version_g (as_sql:bool) (f t:N) (s:hm) : res (hm * list stmt) :=
  if memN t (heads s) then Err EAssert
  else if memN f (heads s) then
    let n := countN f (rows s) in
    if as_sql || Nat.eqb n 1 then Ok (mkHM (t :: removeN f (heads s)) (upd_rows f t (rows s)), [Upd f t n])
    else Err ECommand
  else Err EKey.

Section StepP.
  Variable del : N -> hm -> res (hm * list stmt).
  Variable upd : N -> N -> hm -> res (hm * list stmt).
  Variable G : graph.
  Variable ord : list N -> list N.

  Definition rev_step_p (r:N) (up:bool) (s:hm) : res (hm * list stmt) :=
    let P := norm_down G r in
    let H := heads s in
    if up then
      if is_nil P || is_nil (interN P H) then insert_version r s
      else if Nat.ltb 1 (length P) && Nat.ltb 1 (length (interN P H)) then
        let from := interN P H in
        then_ (each del (removelast from) s) (upd (last from 0%N) r)
      else bind (rev_update_version_num G r up H) (fun ft => upd (fst ft) (snd ft) s)
    else
      let fallback := bind (rev_update_version_num G r up H) (fun ft => upd (fst ft) (snd ft) s) in
      if memN r H then
        if is_nil P then del r s
        else
          match unmerge_to_revisions G r H with
          | Err e => Err e
          | Ok to0 =>
            if is_nil to0 then del r s
            else if Nat.ltb 1 (length P) then
              let to := ord to0 in
              then_ (each insert_version (removelast to) s) (upd r (last to 0%N))
            else fallback
          end
      else fallback.

  Definition stamp_step_p (from to : list N) (up bm : bool) (s:hm) : res (hm * list stmt) :=
    let H := heads s in
    if negb up && bm then
      match from with [v] => del v s | _ => Err EAssert end
    else if up && (bm || negb (subsetN from H)) && negb (subsetN to H) then
      match to with [v] => insert_version v s | _ => Err EAssert end
    else if Nat.ltb 1 (length from) then
      match to with
      | [] => Err EIndex
      | t0 :: _ => then_ (each del (removelast from) s) (upd (last from 0%N) t0)
      end
    else if Nat.ltb 1 (length to) then
      match from with
      | [] => Err EIndex
      | f0 :: _ => then_ (each insert_version (removelast to) s) (upd f0 (last to 0%N))
      end
    else match from, to with
         | [f], [t] => upd f t s
         | _, _ => Err EAssert
         end.

  Definition update_to_step_p (st:step) (s:hm) : res (hm * list stmt) :=
    match st with
    | RevStep r up => rev_step_p r up s
    | StampStep f t up bm => stamp_step_p f t up bm s
    end.

  Fixpoint run_steps_p (steps : list step) (s:hm) : list obs * option hm :=
    match steps with
    | [] => ([], Some s)
    | st :: rest =>
      match update_to_step_p st s with
      | Ok (s', stmts) => let (o, f) := run_steps_p rest s' in (ObsOk (rows s') stmts :: o, f)
      | Err e => ([ObsErr e], None)
      end
    end.
End StepP.

(* update_to_step / the run_migrations loop with the as_sql flag; offline the HeadMaintainer starts from
   `starting_rev` and `rows` is the table the emitted script will meet *)
Definition update_to_step_g (as_sql:bool) := update_to_step_p (delete_version_g as_sql) (update_version_g as_sql).
Definition run_steps_g (as_sql:bool) := run_steps_p (delete_version_g as_sql) (update_version_g as_sql).
Definition run_cmd_g (as_sql:bool) (G:graph) (ord:list N -> list N) (steps:list step) (rws:list N) : list obs * option (list N) :=
  let (o, f) := run_steps_g as_sql G ord steps (start rws) in (o, option_map rows f).
