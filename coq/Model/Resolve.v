(* String-level model of revision identifier resolution in alembic/script/revision.py and of
   ScriptDirectory._catch_revision_errors (alembic/script/base.py).  Ids and branch labels are
   strings = lists of code points.  One Gallina function per Python function, same names.
   No proofs in this file. *)
From Coq Require Export List NArith ZArith Arith Lia Bool.
Export ListNotations.

Notation str := (list N) (only parsing).

Fixpoint streqb (a b : str) : bool :=
  match a, b with
  | [], [] => true
  | x :: a', y :: b' => N.eqb x y && streqb a' b'
  | _, _ => false
  end.
Definition mems (x:str) (l:list str) : bool := existsb (streqb x) l.
Fixpoint startswith (k p : str) {struct p} : bool :=          (* k.startswith(p) *)
  match p, k with
  | [], _ => true
  | c :: p', d :: k' => N.eqb c d && startswith k' p'
  | _ :: _, [] => false
  end.
Fixpoint dedupes_acc (seen l : list str) : list str :=
  match l with
  | [] => []
  | x :: r => if mems x seen then dedupes_acc seen r else x :: dedupes_acc (x :: seen) r
  end.
Definition dedupes := dedupes_acc [].
Definition nonempty {A} (l:list A) : bool := match l with [] => false | _ => true end.

(* ------------------------------------------------------------------ characters *)
Definition c_at := 64%N.   Definition c_plus := 43%N.   Definition c_minus := 45%N.
Definition c_us := 95%N.   Definition c_nl := 10%N.
Definition is_digit (c:N) : bool := (48 <=? c)%N && (c <=? 57)%N.
Definition is_word (c:N) : bool :=                    (* ASCII \w *)
  is_digit c || ((65 <=? c)%N && (c <=? 90)%N) || ((97 <=? c)%N && (c <=? 122)%N) || N.eqb c c_us.
Definition is_sign (c:N) : bool := N.eqb c c_plus || N.eqb c c_minus.
Definition s_head : str := [104;101;97;100]%N.
Definition s_heads : str := [104;101;97;100;115]%N.
Definition s_base : str := [98;97;115;101]%N.

(* ------------------------------------------------------------------ errors *)
(* raw exception classes raised inside RevisionMap *)
Inductive err := EMultipleHeads | EResolution | ERevision | ERange | EAssertion | EBadOracle.
Inductive res (A:Type) := Ok (a:A) | Err (e:err).
Arguments Ok {A}. Arguments Err {A}.
Definition bind {A B} (r:res A) (f:A -> res B) : res B := match r with Ok a => f a | Err e => Err e end.
Notation "x <- r ;; k" := (bind r (fun x => k)) (at level 61, r at next level, right associativity).
Fixpoint mapM {A B} (f:A -> res B) (l:list A) : res (list B) :=
  match l with
  | [] => Ok []
  | a :: l' => b <- f a ;; bs <- mapM f l' ;; Ok (b :: bs)
  end.
Fixpoint filterM {A} (f:A -> res bool) (l:list A) : res (list A) :=
  match l with
  | [] => Ok []
  | a :: l' => b <- f a ;; r <- filterM f l' ;; Ok (if b then a :: r else r)
  end.

(* what a caller of ScriptDirectory sees: CommandError split by the class of its cause, or the
   exception class that _catch_revision_errors lets through *)
Inductive xerr := CmdMultipleHeads | CmdResolution | CmdRevision | CmdRange | CmdOther
                | XRevisionUncaught | XAssertion | XKey | XValue | XType | XAttribute | XIndex | XOther | XBadOracle.
Definition catch_revision_errors (e:err) : xerr :=        (* ScriptDirectory._catch_revision_errors *)
  match e with
  | ERange => CmdRange
  | EMultipleHeads => CmdMultipleHeads
  | EResolution => CmdResolution
  | ERevision => CmdRevision
  | EAssertion => XAssertion
  | EBadOracle => XBadOracle
  end.

(* ------------------------------------------------------------------ histories *)
(* s_down = _versioned_down_revisions, s_deps = _resolved_dependencies, s_labels = _orig_branch_labels *)
Record srev := mkS { s_id : str; s_down : list str; s_deps : list str; s_labels : list str }.

Fixpoint find_rev (G:list srev) (x:str) : option srev :=
  match G with [] => None | r :: G' => if streqb (s_id r) x then Some r else find_rev G' x end.
Definition ids (G:list srev) : list str := map s_id G.
Definition down_of (G:list srev) (x:str) : list str := match find_rev G x with Some r => s_down r | None => [] end.
Definition all_down_r (r:srev) : list str := dedupes (s_down r ++ s_deps r).          (* _all_down_revisions *)
Definition nextrev (G:list srev) (x:str) : list str :=                                (* Revision.nextrev *)
  map s_id (filter (fun c => mems x (s_down c)) G).
Definition all_nextrev (G:list srev) (x:str) : list str :=                            (* Revision._all_nextrev *)
  map s_id (filter (fun c => mems x (all_down_r c)) G).

(* the SET yielded by _iterate_related_revisions from one target (the yield order is only read by
   _add_branches, for which the harness supplies the observed last element) *)
Fixpoint reach (fuel:nat) (succ : str -> list str) (x:str) : list str :=
  match fuel with
  | O => [x]
  | S f => x :: flat_map (reach f succ) (succ x)
  end.
Definition reach_all (fuel:nat) (succ : str -> list str) (xs:list str) : list str := flat_map (reach fuel succ) xs.

(* the loaded map: RevisionMap._revision_map plus the memoized tuples *)
Record rmap := mkMap {
  m_revs : list srev;
  m_keys : list (str * str);           (* key (revision id or branch label) -> revision id, in dict order *)
  m_heads : list str; m_real_heads : list str; m_bases : list str;
  m_blabels : list (str * list str)    (* Revision.branch_labels after _add_branches *)
}.
Definition fuelG (M:rmap) : nat := length (m_revs M).
Definition descendants (M:rmap) (x:str) : list str := reach (fuelG M) (nextrev (m_revs M)) x.   (* _get_descendant_nodes(include_dependencies=False) *)
Definition ancestors (M:rmap) (x:str) : list str := reach (fuelG M) (down_of (m_revs M)) x.     (* _get_ancestor_nodes(include_dependencies=False) *)

Fixpoint lookup {A} (k:str) (l:list (str * A)) : option A :=
  match l with [] => None | (k', v) :: l' => if streqb k k' then Some v else lookup k l' end.

(* _map_branch_labels, over the labelled revisions in the observed set order *)
Fixpoint add_labels (x:str) (ls:list str) (keys:list (str*str)) : res (list (str*str)) :=
  match ls with
  | [] => Ok keys
  | l :: ls' => match lookup l keys with
                | Some _ => Err ERevision                      (* "Branch name ... already used by revision" *)
                | None => add_labels x ls' (keys ++ [(l, x)])
                end
  end.
Fixpoint map_branch_labels (G:list srev) (order:list str) (keys:list (str*str)) : res (list (str*str)) :=
  match order with
  | [] => Ok keys
  | x :: rest =>
      keys' <- add_labels x (match find_rev G x with Some r => s_labels r | None => [] end) keys ;;
      map_branch_labels G rest keys'
  end.

Definition labels_get (bl:list (str * list str)) (x:str) : list str := match lookup x bl with Some l => l | None => [] end.
Definition labels_add (bl:list (str * list str)) (x:str) (ls:list str) : list (str * list str) :=
  map (fun p => if streqb (fst p) x then (fst p, dedupes (snd p ++ ls)) else p) bl.

(* the `while parent and not parent._is_real_branch_point and not parent.is_merge_point` loop *)
Fixpoint add_branches_up (G:list srev) (fuel:nat) (parent:str) (ls:list str) (bl:list (str * list str)) : list (str * list str) :=
  match fuel with
  | O => bl
  | S f => match find_rev G parent with
           | None => bl
           | Some p => if (1 <? length (all_nextrev G parent)) || (1 <? length (s_down p)) then bl
                       else let bl' := labels_add bl parent ls in
                            match s_down p with
                            | d :: _ => add_branches_up G f d ls bl'
                            | [] => bl'
                            end
           end
  end.

(* _add_branches: `oracle` lists, in the observed iteration order of the has_branch_labels set, each
   labelled revision with the LAST node its descendant iteration yielded *)
Fixpoint add_branches (G:list srev) (oracle:list (str*str)) (bl:list (str * list str)) : list (str * list str) :=
  match oracle with
  | [] => bl
  | (x, last) :: rest =>
      let ls := labels_get bl x in
      let bl1 := fold_left (fun b n => labels_add b n ls) (reach (length G) (nextrev G) x) bl in
      let bl2 := add_branches_up G (S (length G)) last ls bl1 in
      add_branches G rest bl2
  end.

(* admissibility of the oracle *)
Definition oracle_ok (G:list srev) (oracle:list (str*str)) : bool :=
  let labelled := map s_id (filter (fun r => nonempty (s_labels r)) G) in
  let order := map fst oracle in
  Nat.eqb (length order) (length labelled) &&
  forallb (fun x => mems x order) labelled && forallb (fun x => mems x labelled) order &&
  forallb (fun p => mems (snd p) (reach (length G) (nextrev G) (fst p))) oracle.

(* RevisionMap._revision_map (cycle detection is C15's and is not repeated: histories are acyclic here) *)
Definition load (G:list srev) (oracle:list (str*str)) : res rmap :=
  if negb (oracle_ok G oracle) then Err EBadOracle else
  keys <- map_branch_labels G (map fst oracle) (map (fun r => (s_id r, s_id r)) G) ;;
  let heads := filter (fun x => negb (nonempty (nextrev G x))) (ids G) in
  let real_heads := filter (fun x => negb (nonempty (all_nextrev G x))) (ids G) in
  let bases := map s_id (filter (fun r => negb (nonempty (s_down r))) G) in
  let bl := add_branches G oracle (map (fun r => (s_id r, s_labels r)) G) in
  Ok (mkMap G keys heads real_heads bases bl).

(* ------------------------------------------------------------------ lookups *)
Definition rev_of (M:rmap) (x:str) : res srev :=
  match find_rev (m_revs M) x with Some r => Ok r | None => Err EAssertion end.

(* _revision_for_ident(resolved_id) without check_branch; None stands for the keys None / () *)
Definition revision_for_ident0 (M:rmap) (rid:option str) : res (option srev) :=
  match rid with
  | None => Ok None
  | Some s =>
      match lookup s (m_keys M) with
      | Some x => r <- rev_of M x ;; Ok (Some r)
      | None =>
          match s with
          | [] => Err EAssertion                                           (* assert resolved_id *)
          | _ => match filter (fun k => (3 <? length k) && startswith k s) (map fst (m_keys M)) with
                 | [] => Err EResolution
                 | [k] => match lookup k (m_keys M) with Some x => r <- rev_of M x ;; Ok (Some r) | None => Err EAssertion end
                 | _ => Err EResolution
                 end
          end
      end
  end.

(* _shares_lineage(target, test_against_revs, include_dependencies=False) *)
Definition shares_lineage (M:rmap) (target:str) (shares:list str) : res bool :=
  match shares with
  | [] => Ok true
  | _ =>
      rt <- revision_for_ident0 M (Some target) ;;
      match rt with
      | None => Err EAssertion
      | Some t =>
          rs <- mapM (fun s => revision_for_ident0 M (Some s)) shares ;;
          let line := descendants M (s_id t) ++ ancestors M (s_id t) in
          Ok (existsb (fun o => match o with Some r => mems (s_id r) line | None => false end) rs)
      end
  end.

Fixpoint split_at (s:str) : option (str * str) :=          (* s.split("@", 1) when "@" in s *)
  match s with
  | [] => None
  | c :: r => if N.eqb c c_at then Some ([], r)
              else match split_at r with Some (a, b) => Some (c :: a, b) | None => None end
  end.

(* get_current_head with the heads already filtered *)
Definition current_head_of (hs:list str) : res (list str) :=
  match hs with
  | [] => Ok []
  | [h] => Ok [h]
  | _ => Err EMultipleHeads
  end.

(* _resolve_revision_number on a string without "@" (branch_label = None) *)
Definition resolve_revision_number0 (M:rmap) (s:str) : res (list str) :=
  if streqb s s_heads then Ok (m_real_heads M)
  else if streqb s s_head then current_head_of (m_heads M)
  else if streqb s s_base then Ok []
  else Ok [s].

(* filter_for_lineage(targets, check_against) when check_against contains no "@" *)
Definition filter_for_lineage0 (M:rmap) (targets:list str) (chk:str) : res (list str) :=
  shares <- resolve_revision_number0 M chk ;;
  filterM (fun t => shares_lineage M t shares) targets.

(* _resolve_revision_number: (resolved ids, branch_label) *)
Definition resolve_revision_number (M:rmap) (s:str) : res (list str * option str) :=
  match split_at s with
  | None => r <- resolve_revision_number0 M s ;; Ok (r, None)
  | Some (bl, id_) =>
      if streqb id_ s_heads then
        (if nonempty bl then r <- filter_for_lineage0 M (m_heads M) bl ;; Ok (r, Some bl)
         else Ok (m_real_heads M, Some bl))
      else if streqb id_ s_head then
        hs <- (if nonempty bl then filter_for_lineage0 M (m_heads M) bl else Ok (m_heads M)) ;;
        h <- current_head_of hs ;; Ok (h, Some bl)
      else if streqb id_ s_base then Ok ([], Some bl)
      else Ok ([id_], Some bl)
  end.

(* filter_for_lineage(targets, check_against), general *)
Definition filter_for_lineage (M:rmap) (targets:list str) (chk:str) : res (list str) :=
  p <- resolve_revision_number M chk ;;
  let shares := (match snd p with Some b => if nonempty b then [b] else [] | None => [] end) ++ fst p in
  filterM (fun t => shares_lineage M t shares) targets.

(* _revision_for_ident(resolved_id, check_branch) *)
Definition revision_for_ident (M:rmap) (rid:option str) (check_branch:option str) : res (option srev) :=
  let cb := match check_branch with Some b => if nonempty b then Some b else None | None => None end in
  match cb with
  | None => revision_for_ident0 M rid
  | Some b =>
      brev <- revision_for_ident0 M (Some b) ;;                           (* _resolve_branch *)
      match brev with
      | None => Err EAssertion
      | Some br =>
          revision <-
            match rid with
            | None => Ok None
            | Some s =>
                match lookup s (m_keys M) with
                | Some x => r <- rev_of M x ;; Ok (Some r)
                | None =>
                    match s with
                    | [] => Err EAssertion
                    | _ => revs <- filter_for_lineage M (filter (fun k => (3 <? length k) && startswith k s) (map fst (m_keys M))) b ;;
                           match revs with
                           | [] => Err EResolution
                           | [k] => match lookup k (m_keys M) with Some x => r <- rev_of M x ;; Ok (Some r) | None => Err EAssertion end
                           | _ => Err EResolution
                           end
                    end
                end
            end ;;
          match revision with
          | None => Ok None
          | Some r => ok <- shares_lineage M (s_id r) [s_id br] ;;
                      if ok then Ok (Some r) else Err EResolution
          end
      end
  end.

(* int() on an ASCII string: optional sign, digits, single underscores between digits *)
Fixpoint digits_val (acc:Z) (s:str) (prev_digit:bool) : option Z :=
  match s with
  | [] => if prev_digit then Some acc else None
  | c :: r => if is_digit c then digits_val (10 * acc + Z.of_N (c - 48))%Z r true
              else if N.eqb c c_us && prev_digit then
                     match r with d :: _ => if is_digit d then digits_val acc r false else None | [] => None end
              else None
  end.
Definition py_int (s:str) : option Z :=
  match s with
  | c :: r => if N.eqb c c_minus then option_map Z.opp (digits_val 0 r false)
              else if N.eqb c c_plus then digits_val 0 r false
              else digits_val 0 s false
  | [] => None
  end.

(* results: a Revision, the string "base", or None *)
Inductive wpos := WRev (r:srev) | WNone | WBase.
Definition wpos_of_opt (o:option srev) : wpos := match o with Some r => WRev r | None => WNone end.

(* get_revisions(id_) for a string, without the "negative integer" branch *)
Definition get_revisions_basic (M:rmap) (s:str) : res (list (option srev)) :=
  p <- resolve_revision_number M s ;;
  mapM (fun x => revision_for_ident M (Some x) (snd p)) (fst p).
(* get_revisions(tuple of revision ids): revision ids cannot contain "-" (Revision.verify_rev_id) *)
Definition get_ids (M:rmap) (xs:list str) : res (list (option srev)) :=
  rs <- mapM (get_revisions_basic M) xs ;; Ok (concat rs).

(* get_revision *)
Definition get_revision (M:rmap) (s:str) : res (option srev) :=
  p <- resolve_revision_number M s ;;
  match fst p with
  | [] => revision_for_ident M None (snd p)
  | [x] => revision_for_ident M (Some x) (snd p)
  | _ => Err EMultipleHeads
  end.

Definition opt_id (o:option srev) : res str := match o with Some r => Ok (s_id r) | None => Err EAssertion end.   (* is_revision *)

(* _walk; `start` already resolved *)
Fixpoint walk_n (M:rmap) (n:nat) (up:bool) (initial:wpos) (bl:option str) (no_overwalk:bool) : res wpos :=
  match n with
  | O => Ok initial
  | S n' =>
      children <-
        (if up then
           match initial with
           | WBase => Err EAssertion
           | _ =>
               ups <- get_ids M (match initial with WRev r => nextrev (m_revs M) (s_id r) | _ => m_bases M end) ;;
               upids <- mapM opt_id ups ;;
               sel <- (match bl with
                       | Some b => if nonempty b then filter_for_lineage M upids b else Ok upids
                       | None => Ok upids
                       end) ;;
               rs <- mapM (rev_of M) sel ;; Ok (map WRev rs)
           end
         else
           match initial with
           | WBase => Ok []
           | _ =>
               ch <- get_ids M (match initial with WRev r => s_down r | _ => m_heads M end) ;;
               match ch with
               | [] => Ok [WBase]
               | _ => Ok (map wpos_of_opt ch)
               end
           end) ;;
      match children with
      | [] => Ok (if no_overwalk then WNone else initial)
      | [c] => walk_n M n' up c bl no_overwalk
      | _ => Err ERevision                                                 (* "Ambiguous walk" *)
      end
  end.
Definition walk (M:rmap) (start:wpos) (steps:Z) (bl:option str) (no_overwalk:bool) : res wpos :=
  walk_n M (Z.abs_nat steps) (0 <? steps)%Z start bl no_overwalk.

Inductive elem := EId (s:str) | EBaseS | ENoneV.
Definition elem_of_wpos (w:wpos) : elem := match w with WRev r => EId (s_id r) | WNone => ENoneV | WBase => EBaseS end.
Definition elem_of_opt (o:option srev) : elem := match o with Some r => EId (s_id r) | None => ENoneV end.

(* get_revisions(id_) for a string *)
Definition get_revisions (M:rmap) (s:str) : res (list elem) :=
  p <- resolve_revision_number M s ;;
  let normal := rs <- mapM (fun x => revision_for_ident M (Some x) (snd p)) (fst p) ;; Ok (map elem_of_opt rs) in
  match fst p with
  | [one] =>
      match py_int one with
      | Some z =>
          if (z <? 0)%Z then
            hs <- mapM (fun h => revision_for_ident M (Some h) None) (m_real_heads M) ;;      (* get_revisions("heads") *)
            hids <- mapM opt_id hs ;;
            let sel := match snd p with
                       | Some b => filter (fun h => mems b (labels_get (m_blabels M) h)) hids
                       | None => hids
                       end in
            ws <- mapM (fun h => r <- rev_of M h ;; walk M (WRev r) z None true) sel ;;
            Ok (map elem_of_wpos ws)
          else normal
      | None => normal
      end
  | _ => normal
  end.

(* ScriptDirectory.as_revision_number *)
Definition as_revision_number (M:rmap) (s:str) : res (list elem) :=
  p <- resolve_revision_number M s ;;
  match fst p with
  | [] => Ok []
  | x :: _ => if streqb s s_heads then Ok (map EId (fst p)) else Ok [EId x]
  end.

(* ------------------------------------------------------------------ _relative_destination *)
(* re.compile(r"(?:(.+?)@)?(\w+)?((?:\+|-)\d+)").match, ASCII \w and \d *)
Fixpoint span (f:N -> bool) (s:str) : str * str :=
  match s with
  | c :: r => if f c then let (a, b) := span f r in (c :: a, b) else ([], s)
  | [] => ([], [])
  end.
Fixpoint digits_num (acc:Z) (s:str) : Z :=
  match s with [] => acc | c :: r => digits_num (10 * acc + Z.of_N (c - 48))%Z r end.
(* (\w+)?((?:\+|-)\d+) at the start of r: (symbol, relative as an integer) *)
Definition match_tail (r:str) : option (option str * Z) :=
  let (w, rest) := span is_word r in
  match rest with
  | sg :: rest' =>
      if is_sign sg then
        let (ds, _) := span is_digit rest' in
        match ds with
        | [] => None
        | _ => Some (match w with [] => None | _ => Some w end,
                     if N.eqb sg c_minus then Z.opp (digits_num 0 ds) else digits_num 0 ds)
        end
      else None
  | [] => None
  end.
(* the lazy label group: the shortest non-empty prefix (without newline) followed by "@" after which the tail matches *)
Fixpoint match_label (pre:str) (s:str) : option (str * option str * Z) :=
  match s with
  | [] => None
  | c :: r =>
      if N.eqb c c_at && nonempty pre then
        match match_tail r with
        | Some (sym, z) => Some (rev pre, sym, z)
        | None => match_label (c :: pre) r
        end
      else if N.eqb c c_nl then None
      else match_label (c :: pre) r
  end.
Definition relative_destination (s:str) : option (option str * option str * Z) :=
  match match_label [] s with
  | Some (l, sym, z) => Some (Some l, sym, z)
  | None => match match_tail s with Some (sym, z) => Some (None, sym, z) | None => None end
  end.

(* target.rpartition("@") *)
Definition rpartition_at (s:str) : str * str :=
  let fix go (s:str) : option (str * str) :=        (* split at the LAST "@" *)
    match s with
    | [] => None
    | c :: r => match go r with
                | Some (a, b) => Some (c :: a, b)
                | None => if N.eqb c c_at then Some ([], r) else None
                end
    end in
  match go s with Some p => p | None => ([], s) end.

Definition at_join (b s:str) : str := b ++ c_at :: s.

(* _normalize_depends_on / _normalized_down_revisions as sets *)
Definition norm_deps (M:rmap) (r:srev) : list str :=
  let others := flat_map (fun a => if streqb a (s_id r) then [] else
                                   match find_rev (m_revs M) a with Some ar => s_deps ar | None => [] end)
                         (ancestors M (s_id r)) in
  filter (fun d => negb (mems d others)) (s_deps r).
Definition norm_down (M:rmap) (x:str) : list str :=
  match find_rev (m_revs M) x with Some r => dedupes (s_down r ++ norm_deps M r) | None => [] end.
Definition ancestors_dep (M:rmap) (xs:list str) : list str := reach_all (fuelG M) (norm_down M) xs.   (* _get_ancestor_nodes(include_dependencies=True) *)

(* _get_all_current *)
Definition get_all_current (M:rmap) (cur:list str) : res (list str) :=
  top <- get_ids M cur ;; tids <- mapM opt_id top ;;
  let all := dedupes (tids ++ ancestors_dep M tids) in
  Ok (filter (fun r => negb (existsb (fun d => negb (streqb d r) && mems d (descendants M r)) all)) all).

(* _parse_upgrade_target(current_revisions, target, assert_relative_length) for a string target *)
Definition parse_upgrade_target (M:rmap) (cur:list str) (s:str) (arl:bool) : res (list elem) :=
  match relative_destination s with
  | None => get_revisions M s
  | Some (bl, symbol, rel) =>
      if (0 <? rel)%Z then
        match symbol with
        | None =>
            start <-
              (match bl with
               | Some b =>
                   crevs <- get_ids M cur ;; cids <- mapM opt_id crevs ;;
                   sr <- filter_for_lineage M cids b ;;
                   match sr with
                   | [] =>
                       active <- filter_for_lineage M (dedupes (ancestors_dep M cids)) b ;;
                       let downs := flat_map (norm_down M) active in
                       match filter (fun a => negb (mems a downs)) active with
                       | [] => Ok WNone
                       | [t] => r <- get_revision M t ;; Ok (wpos_of_opt r)
                       | _ => Err ERevision
                       end
                   | [x] => r <- rev_of M x ;; Ok (WRev r)
                   | _ => Err ERevision                                     (* "Ambiguous upgrade from multiple current revisions" *)
                   end
               | None =>
                   match cur with
                   | [] => Ok WNone
                   | [c] => r <- get_revision M c ;; Ok (wpos_of_opt r)
                   | _ => Err ERevision
                   end
               end) ;;
            w <- walk M start rel bl arl ;;
            match w with WNone => Err ERevision | _ => Ok [elem_of_wpos w] end
        | Some sym =>
            st <- get_revision M sym ;;
            w <- walk M (wpos_of_opt st) rel bl arl ;;
            match w with WNone => Err ERevision | _ => Ok [elem_of_wpos w] end      (* "Walked too far" *)
        end
      else
        match symbol with
        | None => Err ERevision
        | Some sym =>
            st <- get_revision M (match bl with None => sym | Some b => at_join b sym end) ;;
            w <- walk M (wpos_of_opt st) rel None arl ;;
            match w with WNone => Err ERevision | WBase => Ok [] | _ => Ok [elem_of_wpos w] end
        end
  end.

(* _parse_downgrade_target: (branch_label, target) *)
Definition parse_downgrade_target (M:rmap) (cur:list str) (s:str) (arl:bool) : res (option str * elem) :=
  match relative_destination s with
  | Some (bl, symbol, rel) =>
      if (0 <=? rel)%Z then
        match symbol with
        | None => Err ERevision
        | Some sym =>
            st <- get_revision M sym ;;
            w <- walk M (wpos_of_opt st) rel bl arl ;;
            match w with WNone => Err ERevision | _ => Ok (bl, elem_of_wpos w) end
        end
      else
        p <- (match symbol with
              | Some sym => Ok (sym, bl)
              | None =>
                  match bl with
                  | Some b =>
                      sl <- filter_for_lineage M cur b ;;
                      sl' <- (match sl with
                              | [] => allc <- get_all_current M cur ;; filter_for_lineage M allc b
                              | _ => Ok sl
                              end) ;;
                      match sl' with [x] => Ok (x, bl) | _ => Err ERevision end     (* if len(symbol_list) != 1: raise RevisionError("Relative revision ... didn't produce N migrations") *)
                  | None =>
                      match cur with
                      | [] => Err ERevision
                      | c :: _ => Ok (c, Some c)
                      end
                  end
              end) ;;
        st <- get_revision M (match snd p with None => fst p | Some b => at_join b (fst p) end) ;;
        w <- walk M (wpos_of_opt st) rel None arl ;;
        match w with WNone => Err ERevision | _ => Ok (snd p, elem_of_wpos w) end
  | None =>
      let (b, sym) := rpartition_at s in
      r <- get_revision M sym ;;
      Ok (match b with [] => None | _ => Some b end, elem_of_opt r)
  end.

(* ------------------------------------------------------------------ the observable *)
Inductive outcome := OK (lbl:option str) (l:list elem) | Fail (e:xerr).
Record obs := mkObs { o_revs : outcome; o_rev : outcome; o_num : outcome; o_up : outcome; o_down : outcome }.
Record c16_in := mkIn { i_revs : list srev; i_oracle : list (str*str); i_cur : list str; i_queries : list str }.
(* what is observed of one case: Revision.branch_labels of every revision after _add_branches (load order; empty when the
   history does not load) and one observation per identifier string *)
Record c16_out := mkOut { c_labels : list (str * list str); c_obs : list obs }.

Definition observe {A} (r:res A) (f:A -> outcome) : outcome :=
  match r with Ok a => f a | Err e => Fail (catch_revision_errors e) end.

Definition run_query (M:res rmap) (cur:list str) (q:str) : obs :=
  mkObs (observe (m <- M ;; get_revisions m q) (OK None))                                          (* ScriptDirectory.get_revisions *)
        (observe (m <- M ;; get_revision m q) (fun o => OK None [elem_of_opt o]))                   (* ScriptDirectory.get_revision *)
        (observe (m <- M ;; as_revision_number m q) (OK None))                                      (* ScriptDirectory.as_revision_number *)
        (observe (m <- M ;; parse_upgrade_target m cur q true) (OK None))
        (observe (m <- M ;; parse_downgrade_target m cur q true) (fun p => OK (fst p) [snd p])).

Definition load_in (i:c16_in) : res rmap :=
  match load (i_revs i) (i_oracle i) with
  | Err EBadOracle => match i_oracle i with
                      | [] => (* load failed before _add_branches could be observed *)
                              match map_branch_labels (i_revs i) (map s_id (filter (fun r => nonempty (s_labels r)) (i_revs i)))
                                                      (map (fun r => (s_id r, s_id r)) (i_revs i)) with
                              | Err e => Err e
                              | Ok _ => Err EBadOracle
                              end
                      | _ => Err EBadOracle
                      end
  | r => r
  end.

Definition run (i:c16_in) : c16_out :=
  mkOut (match load_in i with Ok M => m_blabels M | Err _ => [] end)
        (map (run_query (load_in i) (i_cur i)) (i_queries i)).
