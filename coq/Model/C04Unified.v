(* C04 — the online and the offline (--sql) run of one plan under ONE decision tree (Model/Txn.v begin_transaction, all
   five inputs: transactional_ddl after the override, transaction_per_migration, _in_external_transaction, as_sql,
   _transaction is not None).  Online the contexts it returns act on the database (Model/Txn.v txn_run); with as_sql
   they only write markers into the script (Model/Offline.v) and the database is never touched: MigrationContext.__init__
   replaces the connection by a mock, get_current_heads returns starting_rev, _ensure_version_table is skipped
   (`if not self.as_sql and not heads`), every statement goes to impl.static_output.  No proofs in this file. *)
From AV Require Import Base.ListSet Model.RevGraph Model.Txn Model.C04Heads.
From AV Require Model.Heads.

(* the bookkeeping of an offline run: update_to_step with as_sql (no rowcount check), C03's update_to_step_g *)
Fixpoint mk_steps_sql (G:graph) (ms:list mstep) (h:Heads.hm) : list step :=
  match ms with
  | [] => []
  | m :: r =>
      match Heads.update_to_step_g true G (fun l => l) (Heads.RevStep (ms_rev m) (ms_up m)) h with
      | Heads.Ok (h', st) => mkStep (ms_body m) (map conv st) (ms_cb m) :: mk_steps_sql G r h'
      | Heads.Err _ => [mkStep (ms_body m) [] true]
      end
  end.

(* does the offline run raise?  (autocommit_block has no assertion with as_sql: the mock connection is never "in a
   transaction") *)
Fixpoint run_autos_off (xs:list aitem) : bool :=
  match xs with [] => false | ARaise :: _ => true | AStmt _ :: r => run_autos_off r end.
Fixpoint run_items_off (items:list bitem) : bool :=
  match items with
  | [] => false
  | BRaise :: _ => true
  | BStmt _ :: r => run_items_off r
  | BAuto xs :: r => run_autos_off xs || run_items_off r
  | BTry _ :: r => run_items_off r
  end.
Definition run_step_off (sp:step) : bool := run_items_off (s_body sp) || s_cb_raises sp.

Record uinput := mkUin { u_gi : ginput; u_as_sql : bool }.

Definition run_u (u:uinput) : output :=
  let gi := u_gi u in
  if u_as_sql u
  then mkOut (g_db0 gi)
             (existsb run_step_off (mk_steps_sql (g_graph gi) (g_msteps gi) (Heads.start (vrows (g_db0 gi)))))
  else txn_run_g gi.
