(* C04 — the online and the offline (--sql) run of one plan under ONE decision tree (Model/Txn.v begin_transaction, all
   five inputs: transactional_ddl after the override, transaction_per_migration, _in_external_transaction, as_sql,
   _transaction is not None).  Online the contexts it returns act on the database (Model/Txn.v txn_run); with as_sql
   they only write markers into the script (Model/Offline.v) and the database is never touched: MigrationContext.__init__
   replaces the connection by a mock, get_current_heads returns starting_rev, _ensure_version_table is skipped
   (`if not self.as_sql and not heads`), every statement goes to impl.static_output.  No proofs in this file. *)
From AV Require Import Base.ListSet Model.RevGraph Model.Txn Model.C04Heads.
From AV Require Model.Heads.

(* the bookkeeping of an offline run: update_to_step with as_sql (no rowcount check), C03's update_to_step_g *)
Fixpoint mk_steps_sql (G:graph) (ms:list mstep) (h:Heads.hm) : list step :=
  match ms with
  | [] => []
  | m :: r =>
      match Heads.update_to_step_g true G (fun l => l) (Heads.RevStep (ms_rev m) (ms_up m)) h with
      | Heads.Ok (h', st) => mkStep (ms_body m) (map conv st) (ms_cb m) :: mk_steps_sql G r h'
      | Heads.Err _ => [mkStep (ms_body m) [] true]
      end
  end.

(* does the offline run raise?  (autocommit_block has no assertion with as_sql: the mock connection is never "in a
   transaction") *)
Fixpoint run_autos_off (xs:list aitem) : bool :=
  match xs with [] => false | ARaise :: _ => true | AStmt _ :: r => run_autos_off r end.
Fixpoint run_items_off (items:list bitem) : bool :=
  match items with
  | [] => false
  | BRaise :: _ => true
  | BStmt _ :: r => run_items_off r
  | BAuto xs :: r => run_autos_off xs || run_items_off r
  | BTry _ :: r => run_items_off r
  end.
Definition run_step_off (sp:step) : bool := run_items_off (s_body sp) || s_cb_raises sp.

Record uinput := mkUin { u_gi : ginput; u_as_sql : bool }.

Definition run_u (u:uinput) : output :=
  let gi := u_gi u in
  if u_as_sql u
  then mkOut (g_db0 gi)
             (existsb run_step_off (mk_steps_sql (g_graph gi) (g_msteps gi) (Heads.start (vrows (g_db0 gi)))))
  else txn_run_g gi.

(* ---- a query between configure() and begin_transaction() (env.py logs context.get_context().get_current_heads(), or
   runs a statement on the connection): under SQLAlchemy 2.0 it autobegins a transaction on the connection, but
   `_in_external_transaction` was fixed when the MigrationContext was constructed, so the decision tree is unchanged *)
Definition txn_run_q (q:bool) (i:input) : output :=
  let k := i_kind i in
  let s0 := mkSt (mkDB (i_db0 i) None) false false in
  let s1 := if i_external i then sa_autobegin k s0 else s0 in
  let c := mkMcfg (i_tddl i) (i_per_mig i) (s_sa s1) false in      (* MigrationContext.__init__ *)
  let s1q := if q then sa_autobegin k s1 else s1 in                (* the query *)
  let '(b, s2) := bt_enter k c false s1q in
  let '(s3, raised) := run_migrations k c (i_steps i) s2 in
  let s4 := bt_exit b raised s3 in
  let s5 := if i_external i then (if raised then sa_rollback s4 else sa_commit s4) else s4 in
  let s6 := sa_rollback s5 in
  mkOut (committed (s_db s6)) raised.

(* ---- several databases configured one after the other through ONE EnvironmentContext, online (the multidb env.py).
   EnvironmentContext.configure:  opts = self.context_opts     -- one dict for all configure() calls
                                  if transactional_ddl is not None: opts["transactional_ddl"] = transactional_ddl
                                  opts["transaction_per_migration"] = transaction_per_migration      -- unconditionally
   so database k runs under call k's transaction_per_migration and under the last explicit transactional_ddl given up to
   call k (the dialect default if none was) *)
Record ucall := mkUcall { uc_tddl : option bool; uc_in : ginput }.    (* g_tddl of uc_in is ignored: it is computed *)
Definition acc_opt (prev arg:option bool) : option bool := match arg with Some b => Some b | None => prev end.
Definition eff_tddl_multi (dflt:bool) (args:list (option bool)) : bool :=
  match fold_left acc_opt args None with Some b => b | None => dflt end.
Definition with_tddl (gi:ginput) (t:bool) : ginput :=
  mkGin (g_graph gi) (g_kind gi) t (g_per_mig gi) (g_external gi) (g_msteps gi) (g_db0 gi) (g_exc gi).
Fixpoint multi_run (dflt:bool) (prev:option bool) (calls:list ucall) : list output :=
  match calls with
  | [] => []
  | c :: r => let a := acc_opt prev (uc_tddl c) in
              txn_run_g (with_tddl (uc_in c) (match a with Some b => b | None => dflt end)) :: multi_run dflt a r
  end.
