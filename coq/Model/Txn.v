(* C04 (and the decision tree shared with C18) — executable model of
     alembic/runtime/migration.py : MigrationContext.begin_transaction, run_migrations,
                                    _ProxyTransaction.__exit__, _ensure_version_table, get_current_heads (online)
     alembic/util/sqla_compat.py  : _safe_begin_connection_transaction, _ensure_scope_for_ddl
     alembic/templates/generic/env.py : with connectable.connect() as connection: ... with context.begin_transaction(): context.run_migrations()
   plus a small-step semantics of the database/driver for three transaction behaviours.
   No proofs in this file. *)
From AV Require Import Base.ListSet.

(* ------------------------------------------------------------------ begin_transaction: the decision tree *)

Record mcfg := mkMcfg {
  m_tddl     : bool;   (* self.impl.transactional_ddl (after the transactional_ddl= override)          *)
  m_per_mig  : bool;   (* self._transaction_per_migration                                             *)
  m_external : bool;   (* self._in_external_transaction                                               *)
  m_as_sql   : bool    (* self.as_sql                                                                 *)
}.

Inductive bt := BtNull          (* nullcontext()                                                      *)
              | BtBeginCommit   (* the as_sql begin_commit() context manager: emit_begin ... emit_commit *)
              | BtProxy.        (* _ProxyTransaction over self._transaction                           *)

(* has_txn  =  self._transaction is not None *)
Definition begin_transaction (c:mcfg) (has_txn:bool) (per_migration:bool) : bt :=
  if m_external c then BtNull
  else
    let transaction_now := if m_tddl c then Bool.eqb per_migration (m_per_mig c) else per_migration in
    if negb transaction_now then BtNull
    else if negb (m_tddl c) then
      (if m_as_sql c then BtNull else if has_txn then BtNull else BtProxy)
    else if m_as_sql c then BtBeginCommit
    else BtProxy.

(* ------------------------------------------------------------------ the database *)

Inductive kind := TxDDL               (* DDL is transactional; BEGIN is emitted when SQLAlchemy begins      *)
                | ImplicitCommitDDL   (* DDL commits the open transaction (MySQL, Oracle)                   *)
                | Pysqlite.           (* sqlite3 legacy mode: DML opens a transaction, DDL joins an open one,
                                         DDL with no open transaction is immediate                          *)

Inductive eff := Add (x:N) | Del (x:N).           (* create / drop the schema object x, insert / delete the data item x *)
Inductive stmt := DDL (e:eff) | DML (e:eff).
Inductive vop := VIns (r:N) | VDel (r:N) | VUpd (a b:N).   (* the bookkeeping statements of HeadMaintainer *)

Record dbstate := mkDb { effs : list N; vt : bool; vrows : list N }.
Record db := mkDB { committed : dbstate; pending : option dbstate }.

Inductive act := AEff (e:eff) | AVt | AVop (v:vop).

Definition apply_eff (e:eff) (l:list N) : list N :=
  match e with
  | Add x => if memN x l then l else x :: l
  | Del x => removeN x l
  end.
Definition apply_vop (v:vop) (l:list N) : list N :=
  match v with
  | VIns r => l ++ [r]
  | VDel r => removeN r l
  | VUpd a b => map (fun x => if N.eqb x a then b else x) l
  end.
Definition apply_act (a:act) (d:dbstate) : dbstate :=
  match a with
  | AEff e => mkDb (apply_eff e (effs d)) (vt d) (vrows d)
  | AVt => mkDb (effs d) true (vrows d)
  | AVop v => mkDb (effs d) (vt d) (apply_vop v (vrows d))
  end.

Definition view (d:db) : dbstate := match pending d with Some p => p | None => committed d end.

Definition db_begin (k:kind) (d:db) : db :=
  match k, pending d with
  | TxDDL, None => mkDB (committed d) (Some (committed d))
  | _, _ => d
  end.
Definition db_commit (d:db) : db := mkDB (view d) None.
Definition db_rollback (d:db) : db := mkDB (committed d) None.
Definition db_join (a:act) (d:db) : db :=           (* runs in the open transaction if there is one, else immediately *)
  match pending d with
  | Some p => mkDB (committed d) (Some (apply_act a p))
  | None => mkDB (apply_act a (committed d)) None
  end.
Definition db_open (a:act) (d:db) : db :=           (* opens a transaction if none is open *)
  mkDB (committed d) (Some (apply_act a (view d))).
Definition db_exec (k:kind) (isddl:bool) (a:act) (d:db) : db :=
  match k with
  | TxDDL => db_join a d
  | ImplicitCommitDDL => if isddl then mkDB (apply_act a (view d)) None else db_open a d
  | Pysqlite => if isddl then db_join a d else db_open a d
  end.

(* ------------------------------------------------------------------ SQLAlchemy connection + MigrationContext state *)

Record st := mkSt {
  s_db : db;
  s_sa : bool;     (* connection.in_transaction(): a root transaction exists (begun or autobegun) *)
  s_al : bool      (* MigrationContext._transaction is not None                                   *)
}.

Definition sa_autobegin (k:kind) (s:st) : st :=
  if s_sa s then s else mkSt (db_begin k (s_db s)) true (s_al s).
Definition sa_exec (k:kind) (isddl:bool) (a:act) (s:st) : st :=
  let s' := sa_autobegin k s in mkSt (db_exec k isddl a (s_db s')) true (s_al s').
Definition sa_commit (s:st) : st := mkSt (db_commit (s_db s)) false (s_al s).
Definition sa_rollback (s:st) : st := mkSt (db_rollback (s_db s)) false (s_al s).

(* _ensure_version_table: with _ensure_scope_for_ddl(conn): self._version.create(conn, checkfirst=True) *)
Definition ensure_version_table (k:kind) (s:st) : st :=
  let own := negb (s_sa s) in
  let s1 := sa_autobegin k s in
  let s2 := if vt (view (s_db s1)) then s1 else sa_exec k true AVt s1 in
  if own then sa_commit s2 else s2.

(* begin_transaction on a real connection: _safe_begin_connection_transaction returns the connection's
   current (possibly autobegun) transaction or begins one *)
Definition bt_enter (k:kind) (c:mcfg) (per_migration:bool) (s:st) : bt * st :=
  match begin_transaction c (s_al s) per_migration with
  | BtProxy => (BtProxy, let s1 := sa_autobegin k s in mkSt (s_db s1) true true)
  | b => (b, s)
  end.
(* _ProxyTransaction.__exit__ -> Transaction.__exit__: commit, or rollback when an exception is in flight *)
Definition bt_exit (b:bt) (raised:bool) (s:st) : st :=
  match b with
  | BtProxy => if s_al s
               then let s1 := if raised then sa_rollback s else sa_commit s in mkSt (s_db s1) false false
               else s
  | _ => s
  end.

(* ------------------------------------------------------------------ migration bodies, autocommit_block, failures *)

(* A migration function is a sequence of op.execute(...) statements, `with op.get_context().autocommit_block():`
   sections and, where it fails, a `raise`.  The failure is part of the body: everything after it is dead code. *)
Inductive aitem := AStmt (x:stmt) | ARaise.                            (* inside an autocommit section *)
Inductive bitem := BStmt (x:stmt) | BAuto (xs:list aitem) | BRaise
  | BTry (xs:list aitem).   (* try: with op.get_context().autocommit_block(): xs
                               except BaseException: pass      -- a failure of the section is tolerated *)
Record step := mkStep {
  s_body : list bitem;
  s_ver : list vop;                (* bookkeeping statements of head_maintainer.update_to_step(step)           *)
  s_cb_raises : bool               (* an on_version_apply callback raises: after the bookkeeping, inside the block *)
}.

(* What is raised.  KeyboardInterrupt and SystemExit derive from BaseException, not Exception.  Nothing below looks at
   it: _ProxyTransaction.__exit__ hands (type, value, traceback) to SQLAlchemy's Transaction.__exit__, which commits only
   when type is None and rolls back for every exception class; engine.begin()/connect() do the same. *)
Inductive exc_kind := ExcException | ExcKeyboardInterrupt | ExcSystemExit.

Definition stmt_isddl (x:stmt) : bool := match x with DDL _ => true | DML _ => false end.
Definition stmt_eff (x:stmt) : eff := match x with DDL e => e | DML e => e end.

(* a statement on the connection switched to isolation_level="AUTOCOMMIT": durable at once (whatever was pending
   is committed with it) *)
Definition db_auto (a:act) (d:db) : db := mkDB (apply_act a (view d)) None.
Definition sa_exec_auto (a:act) (s:st) : st := mkSt (db_auto a (s_db s)) (s_sa s) (s_al s).

Fixpoint run_autos (xs:list aitem) (s:st) : st * bool :=
  match xs with
  | [] => (s, false)
  | ARaise :: _ => (s, true)
  | AStmt x :: r => run_autos r (sa_exec_auto (AEff (stmt_eff x)) s)
  end.

(* MigrationContext.autocommit_block, online branches:
     _in_connection_transaction = self._in_connection_transaction()
     if _in_connection_transaction: assert self._transaction is not None; self._transaction.commit(); self._transaction = None
     self.connection = base_connection.execution_options(isolation_level="AUTOCOMMIT"); fake_trans = self.connection.begin()
     try: yield
     finally: fake_trans.commit(); restore the isolation level and the connection
              if _in_connection_transaction: self._transaction = self.connection.begin()                      *)
Definition autocommit_block (k:kind) (xs:list aitem) (s:st) : st * bool :=
  let in_conn := s_sa s in
  if in_conn && negb (s_al s) then (s, true)                         (* AssertionError: a caller-held transaction *)
  else
    let s1 := if in_conn then mkSt (s_db (sa_commit s)) false false else s in
    let s2 := mkSt (s_db s1) true (s_al s1) in                       (* fake_trans *)
    let '(s3, r) := run_autos xs s2 in
    let s4 := mkSt (s_db s3) false (s_al s3) in                      (* finally: fake_trans.commit() *)
    let s5 := if in_conn then (let b := sa_autobegin k s4 in mkSt (s_db b) true true) else s4 in
    (s5, r).

Fixpoint run_items (k:kind) (items:list bitem) (s:st) : st * bool :=
  match items with
  | [] => (s, false)
  | BRaise :: _ => (s, true)
  | BStmt x :: r => run_items k r (sa_exec k (stmt_isddl x) (AEff (stmt_eff x)) s)
  | BAuto xs :: r => let '(s1, raised) := autocommit_block k xs s in
                     if raised then (s1, true) else run_items k r s1
  | BTry xs :: r => let '(s1, _) := autocommit_block k xs s in run_items k r s1
  end.

Definition run_vops (k:kind) (vs:list vop) (s:st) : st :=
  fold_left (fun s v => sa_exec k false (AVop v) s) vs s.

(* one iteration of `for step in self._migrations_fn(heads, self): with self.begin_transaction(_per_migration=True): ...`:
   step.migration_fn( **kw ); head_maintainer.update_to_step(step); callbacks *)
Definition run_step (k:kind) (c:mcfg) (sp:step) (s:st) : st * bool :=
  let '(b, s1) := bt_enter k c true s in
  let '(s2, r2) := run_items k (s_body sp) s1 in
  let '(s3, r3) := if r2 then (s2, true) else (run_vops k (s_ver sp) s2, s_cb_raises sp) in
  (bt_exit b r3 s3, r3).

Fixpoint run_steps (k:kind) (c:mcfg) (steps:list step) (s:st) : st * bool :=
  match steps with
  | [] => (s, false)
  | sp :: r =>
      let '(s', raised) := run_step k c sp s in
      if raised then (s', true)                                      (* the exception propagates: remaining steps skipped *)
      else run_steps k c r s'
  end.

Definition run_migrations (k:kind) (c:mcfg) (steps:list step) (s:st) : st * bool :=
  let s1 := sa_autobegin k s in                                     (* get_current_heads(): _has_version_table + SELECT *)
  let v := view (s_db s1) in
  let heads := if vt v then vrows v else [] in
  let s2 := match heads with [] => ensure_version_table k s1 | _ => s1 end in
  run_steps k c steps s2.

(* ------------------------------------------------------------------ env.py + command *)

Record input := mkIn {
  i_kind : kind; i_tddl : bool; i_per_mig : bool;
  i_external : bool;                 (* env.py uses `with engine.begin() as connection` instead of engine.connect() *)
  i_steps : list step; i_db0 : dbstate;
  i_exc : exc_kind                   (* the class of the exception the failing migration raises *)
}.
Record output := mkOut { o_db : dbstate; o_raised : bool }.

Definition txn_run (i:input) : output :=
  let k := i_kind i in
  let s0 := mkSt (mkDB (i_db0 i) None) false false in
  let s1 := if i_external i then sa_autobegin k s0 else s0 in
  let c := mkMcfg (i_tddl i) (i_per_mig i) (s_sa s1) false in      (* MigrationContext.__init__ *)
  let '(b, s2) := bt_enter k c false s1 in                         (* with context.begin_transaction(): *)
  let '(s3, raised) := run_migrations k c (i_steps i) s2 in
  let s4 := bt_exit b raised s3 in
  let s5 := if i_external i then (if raised then sa_rollback s4 else sa_commit s4) else s4 in
  let s6 := sa_rollback s5 in                                      (* the connection is closed *)
  mkOut (committed (s_db s6)) raised.
