(* C04 on branched histories — the bookkeeping statements of every step are those of the C03 model of
   HeadMaintainer.update_to_step (coq/Model/Heads.v, used read-only), threaded through the run exactly as the
   Python object `head_maintainer` is: its `heads` are updated in memory whatever the transactions do.
   No proofs in this file. *)
From AV Require Import Base.ListSet Model.RevGraph Model.Txn.
From AV Require Model.Heads.

(* one migration of the plan: RevisionStep(revision, is_upgrade) with the body of its upgrade()/downgrade() *)
Record mstep := mkMstep { ms_rev : N; ms_up : bool; ms_body : list bitem; ms_cb : bool }.

Definition conv (s:Heads.stmt) : vop :=
  match s with
  | Heads.Ins v => VIns v
  | Heads.Del v _ => VDel v
  | Heads.Upd f t _ => VUpd f t
  end.

Fixpoint mk_steps (G:graph) (ms:list mstep) (h:Heads.hm) : list step :=
  match ms with
  | [] => []
  | m :: r =>
      match Heads.update_to_step G (fun l => l) (Heads.RevStep (ms_rev m) (ms_up m)) h with
      | Heads.Ok (h', st) => mkStep (ms_body m) (map conv st) (ms_cb m) :: mk_steps G r h'
      | Heads.Err _ => [mkStep (ms_body m) [] true]       (* update_to_step raises: after the body, inside the block *)
      end
  end.

Record ginput := mkGin {
  g_graph : graph; g_kind : kind; g_tddl : bool; g_per_mig : bool; g_external : bool;
  g_msteps : list mstep; g_db0 : dbstate; g_exc : exc_kind
}.

(* HeadMaintainer(context, heads) with heads = get_current_heads(): the rows read from the table *)
Definition to_input (gi:ginput) : input :=
  mkIn (g_kind gi) (g_tddl gi) (g_per_mig gi) (g_external gi)
       (mk_steps (g_graph gi) (g_msteps gi) (Heads.start (vrows (g_db0 gi)))) (g_db0 gi) (g_exc gi).

Definition txn_run_g (gi:ginput) : output := txn_run (to_input gi).
