(* C18 — executable model of an offline (--sql) run:
     alembic/templates/generic/env.py : with context.begin_transaction(): context.run_migrations()
     alembic/runtime/migration.py     : MigrationContext.begin_transaction (as_sql branches; shared tree in Model/Txn.v),
                                        autocommit_block (as_sql branches), run_migrations (as_sql)
     alembic/ddl/impl.py, mssql.py, oracle.py : static_output, _exec (+ separator tail), emit_begin, emit_commit
                                        (through the resolved `dialect` record of Model/C18Dialect.v)
   The output is the list of chunks written to the output buffer.  No proofs in this file. *)
From AV Require Import Base.ListSet Model.Txn Model.C18Dialect.

(* what env.py passes to context.configure *)
Record ocfg := mkOcfg { c_tddl : option bool;     (* transactional_ddl=None/True/False *)
                        c_per_mig : bool;         (* transaction_per_migration          *)
                        c_conn_in_txn : bool;     (* context.configure(connection=<live Connection>) and that connection is
                                                     already in a transaction (SQLAlchemy 2.0 autobegin); false when the
                                                     context is configured from dialect_name/url or a fresh connection *)
                        c_tddl_env : option bool }. (* EnvironmentContext(config, script, transactional_ddl=...) keyword,
                                                     i.e. context_opts, the other documented route for the override   *)

(* MigrationContext.__init__:
     if as_sql: ...; self._in_external_transaction = False
     else:      self._in_external_transaction = sqla_compat._get_connection_in_transaction(connection)
   an offline script never depends on the transaction state of the connection it borrowed the dialect from *)
Definition init_external (as_sql conn_in_txn:bool) : bool := if as_sql then false else conn_in_txn.

(* EnvironmentContext.configure: opts = self.context_opts
                                   if transactional_ddl is not None: opts["transactional_ddl"] = transactional_ddl
   -- the argument of configure() wins, otherwise the keyword given to EnvironmentContext stays in force *)
Definition opts_tddl (c:ocfg) : option bool :=
  match c_tddl c with Some b => Some b | None => c_tddl_env c end.
(* DefaultImpl.__init__: if transactional_ddl is not None: self.transactional_ddl = transactional_ddl *)
Definition effective_tddl (d:dialect) (c:ocfg) : bool :=
  match opts_tddl c with Some b => b | None => d_tddl d end.

(* a migration function: a sequence of op.execute(...) and `with op.get_context().autocommit_block(): op.execute(...)*` *)
Inductive item := IStmt (p:N) | IAuto (ps:list N).
Record ostep := mkOstep {
  os_body : list item;
  os_nver : nat;               (* number of version-table statements HeadMaintainer.update_to_step emits for the step *)
  os_empty_after : bool;       (* head_maintainer.heads is empty after the step                                       *)
  os_hooks : list N            (* statements the on_version_apply callbacks emit through ctx.execute(): they run after
                                  update_to_step, still inside `with self.begin_transaction(_per_migration=True)`        *)
}.
Record run := mkRun { r_init_empty : bool;      (* `not head_maintainer.heads` before the first step *)
                      r_steps : list ostep;
                      r_cut : bool }.           (* the run is cut short by an exception raised in the LAST step of r_steps,
                                                   whose body lists only what ran before the raise (a raise inside an
                                                   autocommit section: the section with the statements that ran — its
                                                   `finally:` still emits the begin) *)

(* indices 0 .. n-1 of the version statements of a step *)
Definition vidx (n:nat) : list N := map N.of_nat (seq 0 n).

(* a context manager returned by begin_transaction in as_sql mode *)
Definition with_ctx (d:dialect) (b:bt) (body:list rchunk) : list rchunk :=
  match b with
  | BtBeginCommit => d_begin d ++ body ++ d_commit d
  | _ => body
  end.

(* autocommit_block, as_sql: `if self.impl.transactional_ddl and self.as_sql: emit_commit()` ... yield ... emit_begin() *)
Definition autocommit_block (d:dialect) (tddl:bool) (body:list rchunk) : list rchunk :=
  (if tddl then d_commit d else []) ++ body ++ (if tddl then d_begin d else []).

Definition item_chunks (d:dialect) (tddl:bool) (k:N) (it:item) : list rchunk :=
  match it with
  | IStmt p => exec_chunk d (RStmt k p false)
  | IAuto ps => autocommit_block d tddl (flat_map (fun p => exec_chunk d (RStmt k p true)) ps)
  end.

(* one iteration of the loop of run_migrations *)
Definition step_chunks (d:dialect) (mc:mcfg) (k:N) (empty:bool) (s:ostep) : list rchunk :=
  with_ctx d (begin_transaction mc false true)
    ((if empty then exec_chunk d (RCreate k) else [])            (* self._version.create(self.connection) *)
     ++ [RRunning k]                                             (* static_output("-- Running ...")       *)
     ++ flat_map (item_chunks d (m_tddl mc) k) (os_body s)       (* step.migration_fn( **kw )              *)
     ++ flat_map (fun j => exec_chunk d (RVersion k j)) (vidx (os_nver s))   (* head_maintainer.update_to_step(step) *)
     ++ flat_map (fun p => exec_chunk d (RStmt k p false)) (os_hooks s)).    (* for callback in on_version_apply_callbacks *)

Fixpoint steps_chunks (d:dialect) (mc:mcfg) (k:N) (empty:bool) (steps:list ostep) : list rchunk :=
  match steps with
  | [] => if empty                                               (* if self.as_sql and not head_maintainer.heads: *)
          then with_ctx d (begin_transaction mc false true) (exec_chunk d RDrop)
          else []
  | s :: r => step_chunks d mc k empty s ++ steps_chunks d mc (N.succ k) (os_empty_after s) r
  end.

Definition offline_chunks (d:dialect) (c:ocfg) (r:run) : list rchunk :=
  let mc := mkMcfg (effective_tddl d c) (c_per_mig c) (init_external true (c_conn_in_txn c)) true in
  with_ctx d (begin_transaction mc false false) (steps_chunks d mc 0 (r_init_empty r) (r_steps r)).

(* ---- a run cut short by an exception.  begin_commit() is `emit_begin(); yield; emit_commit()` without try/finally:
   when the exception passes through, the commit of the failing step's block and of the enclosing block is not emitted;
   nothing after the failing step runs (in particular no DROP of the version table) *)
Definition open_ctx (d:dialect) (b:bt) (body:list rchunk) : list rchunk :=
  match b with
  | BtBeginCommit => d_begin d ++ body
  | _ => body
  end.
Definition step_core (d:dialect) (mc:mcfg) (k:N) (empty:bool) (s:ostep) : list rchunk :=
  (if empty then exec_chunk d (RCreate k) else []) ++ [RRunning k]
  ++ flat_map (item_chunks d (m_tddl mc) k) (os_body s) ++ flat_map (fun j => exec_chunk d (RVersion k j)) (vidx (os_nver s))
  ++ flat_map (fun p => exec_chunk d (RStmt k p false)) (os_hooks s).
Fixpoint steps_chunks_cut (d:dialect) (mc:mcfg) (k:N) (empty:bool) (steps:list ostep) : list rchunk :=
  match steps with
  | [] => []
  | [s] => open_ctx d (begin_transaction mc false true) (step_core d mc k empty s)
  | s :: r => step_chunks d mc k empty s ++ steps_chunks_cut d mc (N.succ k) (os_empty_after s) r
  end.
Definition offline_chunks_cut (d:dialect) (c:ocfg) (r:run) : list rchunk :=
  let mc := mkMcfg (effective_tddl d c) (c_per_mig c) (init_external true (c_conn_in_txn c)) true in
  open_ctx d (begin_transaction mc false false) (steps_chunks_cut d mc 0 (r_init_empty r) (r_steps r)).

(* what the output buffer holds when the command returns or raises *)
Definition offline_out (d:dialect) (c:ocfg) (r:run) : list rchunk :=
  if r_cut r then offline_chunks_cut d c r else offline_chunks d c r.

(* ---- several databases configured one after the other through ONE EnvironmentContext (the multidb env.py, --sql).
   EnvironmentContext.configure:   opts = self.context_opts            -- one dict for all configure() calls
                                   if transactional_ddl is not None: opts["transactional_ddl"] = transactional_ddl
                                   opts["transaction_per_migration"] = transaction_per_migration
   so an explicit override stays in force for later calls that give none; nothing else of a call — in particular not
   the dialect it was made for, whose default MigrationContext only reads — reaches a later call. *)
Record dbcall := mkCall { dc_dialect : dialect; dc_tddl : option bool; dc_per_mig : bool; dc_conn_in_txn : bool; dc_run : run }.
Definition acc_tddl (prev arg:option bool) : option bool := match arg with Some b => Some b | None => prev end.
Definition acc_of (env:option bool) (args:list (option bool)) : option bool := fold_left acc_tddl args env.
Fixpoint multi_out (prev:option bool) (calls:list dbcall) : list (list rchunk) :=
  match calls with
  | [] => []
  | c :: r => let a := acc_tddl prev (dc_tddl c) in
              offline_out (dc_dialect c) (mkOcfg a (dc_per_mig c) (dc_conn_in_txn c) None) (dc_run c) :: multi_out a r
  end.

(* ------------------------------------------------------------------ chunks -> events *)

Inductive event :=
  | Begin | Commit | Sep
  | Running (k:N) | Stmt (k p:N) (auto:bool) | VersionStmt (k j:N) | CreateVT (k:N) | DropVT
  | Unknown (t:str).

Definition str_eqb : str -> str -> bool := list_eqb N.eqb.

Definition begin_text (d:dialect) : option str := match d_begin d with RRaw t :: _ => Some t | _ => None end.
Definition commit_text (d:dialect) : option str := match d_commit d with RRaw t :: _ => Some t | _ => None end.
Definition is_text (o:option str) (t:str) : bool := match o with Some s => str_eqb s t | None => false end.
Definition is_sep_text (d:dialect) (t:str) : bool :=
  match d_sep d with Some s => nonempty s && str_eqb s t | None => false end.

(* the tokenizer: markers and separators are recognised by the spelling the dialect table gives them *)
Definition tok (d:dialect) (c:rchunk) : event :=
  match c with
  | RRaw t => if is_text (begin_text d) t then Begin
              else if is_text (commit_text d) t then Commit
              else if is_sep_text d t then Sep
              else Unknown t
  | RRunning k => Running k
  | RStmt k p a => Stmt k p a
  | RVersion k j => VersionStmt k j
  | RCreate k => CreateVT k
  | RDrop => DropVT
  end.
Definition tokenize (d:dialect) (l:list rchunk) : list event := map (tok d) l.

Definition offline_events (d:dialect) (c:ocfg) (r:run) : list event := tokenize d (offline_chunks d c r).

(* the condition on a resolved table entry under which the theorems hold; closed by vm_compute on the generated table *)
Definition all_sep (d:dialect) (l:list rchunk) : bool :=
  forallb (fun c => match tok d c with Sep => true | _ => false end) l.
Definition table_wf (d:dialect) : bool :=
  match d_begin d, d_commit d with
  | RRaw bt :: rb, RRaw ct :: rc =>
      nonempty bt && nonempty ct && negb (str_eqb bt ct)
      && all_sep d rb && all_sep d rc && all_sep d (d_sep_chunks d)
  | _, _ => false
  end.
Definition table_wf_opt (o:option dialect) : bool := match o with Some d => table_wf d | None => false end.
