(* One whole `alembic upgrade <target>` / `alembic downgrade <target>` command in online mode, end to end:
     command.upgrade / command.downgrade  ->  ScriptDirectory._upgrade_revs / _downgrade_revs
       (RevisionMap._parse_upgrade_target / _parse_downgrade_target: Model.Resolve, strings;
        _collect_upgrade_revisions / _collect_downgrade_revisions / _topological_sort: Model.Plan, load positions)
     ->  MigrationContext.run_migrations: for every step the script's upgrade()/downgrade() runs and
        HeadMaintainer.update_to_step rewrites the version table (Model.Heads).
   This file only GLUES the three models the way the code glues the three functions: the history is given once,
   as written (strings); the planner and the bookkeeping work on load positions, obtained by `intern`.
   No proofs here. *)
From AV Require Import Model.Plan Model.Heads.
From AV Require Model.Resolve.
Module R := AV.Model.Resolve.

Definition str := R.str.

(* ---------- strings <-> load positions ---------- *)
Fixpoint pos_from (n:N) (H:list R.srev) (x:str) : option N :=
  match H with
  | [] => None
  | r :: H' => if R.streqb (R.s_id r) x then Some n else pos_from (N.succ n) H' x
  end.
Definition pos (H:list R.srev) (x:str) : option N := pos_from 0%N H x.
Fixpoint pos_list (H:list R.srev) (xs:list str) : option (list N) :=
  match xs with
  | [] => Some []
  | x :: t => match pos H x, pos_list H t with Some n, Some l => Some (n :: l) | _, _ => None end
  end.
Definition name_of (H:list R.srev) (n:N) : str :=
  match nth_error H (N.to_nat n) with Some r => R.s_id r | None => [] end.

(* the tuple _normalized_resolved_dependencies is built from a Python set: its ORDER is observed (it decides
   which parent replaces a consumed head in _topological_sort), its CONTENT is computed by the model of
   _normalize_depends_on and compared *)
Definition ndeps_oracle := list (str * list str).
Definition same_set (a b:list str) : bool :=
  forallb (fun x => R.mems x b) a && forallb (fun x => R.mems x a) b && Nat.eqb (length a) (length b).
Definition ndeps_of (M:R.rmap) (nd:ndeps_oracle) (r:R.srev) : option (list str) :=
  match R.lookup (R.s_id r) nd with
  | Some l => if same_set l (R.norm_deps M r) then Some l else None
  | None => match R.norm_deps M r with [] => Some [] | [d] => Some [d] | _ => None end
  end.

Fixpoint intern_from (M:R.rmap) (nd:ndeps_oracle) (n:N) (rs:list R.srev) : option graph :=
  match rs with
  | [] => Some []
  | r :: rs' =>
      match ndeps_of M nd r with
      | None => None
      | Some ndl =>
          match pos_list (R.m_revs M) (R.s_down r), pos_list (R.m_revs M) (R.s_deps r),
                pos_list (R.m_revs M) ndl, intern_from M nd (N.succ n) rs' with
          | Some d, Some p, Some q, Some g => Some (mkRev n d p q [] :: g)
          | _, _, _, _ => None
          end
      end
  end.
Definition intern (M:R.rmap) (nd:ndeps_oracle) : option graph := intern_from M nd 0%N (R.m_revs M).

(* the graph the loader's own checks see (Revision.__init__ self-loops, RevisionMap._detect_cycles: Model.Cycle, C15):
   down_revision and depends_on only *)
Fixpoint intern0_from (H:list R.srev) (n:N) (rs:list R.srev) : option graph :=
  match rs with
  | [] => Some []
  | r :: rs' =>
      match pos_list H (R.s_down r), pos_list H (R.s_deps r), intern0_from H (N.succ n) rs' with
      | Some d, Some p, Some g => Some (mkRev n d p [] [] :: g)
      | _, _, _ => None
      end
  end.
Definition intern0 (H:list R.srev) : option graph := intern0_from H 0%N H.

(* ---------- results ---------- *)
(* what is observed of one command: the revisions whose upgrade()/downgrade() ran, in order, and the rows of the
   version table afterwards; when an exception reached the caller, also its class *)
Inductive cres := COk (ran rows : list str) | CFail (e : R.xerr) (ran rows : list str).

Definition plan_xerr (e:plan_err) : R.xerr :=          (* through ScriptDirectory._catch_revision_errors *)
  match e with
  | PEOverlap | PERevision => R.CmdRevision
  | PERange => R.CmdRange
  | PEAssert => R.XAssertion
  | PEFuel => R.XBadOracle
  | PEOther => R.XOther
  end.
Definition step_xerr (e:herr) : R.xerr :=
  match e with
  | EKey => R.XKey | EAssert => R.XAssertion | ECommand => R.CmdOther | EIndex => R.XIndex
  | EFuel => R.XBadOracle | EOther => R.XOther
  end.

Definition has_colon (s:str) : bool := existsb (N.eqb 58%N) s.

Fixpoint elem_ids (l:list R.elem) : option (list str) :=       (* [is_revision(rev) for rev in ...] *)
  match l with
  | [] => Some []
  | R.EId x :: t => match elem_ids t with Some r => Some (x :: r) | None => None end
  | _ :: _ => None
  end.
Fixpoint opt_ids (l:list (option R.srev)) : option (list str) :=
  match l with
  | [] => Some []
  | Some r :: t => match opt_ids t with Some l' => Some (R.s_id r :: l') | None => None end
  | None :: _ => None
  end.

Record cmd_in := mkCmd {
  c_revs : list R.srev;                 (* the history as written, in load order; depends_on already resolved to ids *)
  c_oracle : list (str * str);          (* _add_branches order oracle (see Model.Resolve) *)
  c_ndeps : ndeps_oracle;               (* order of _normalized_resolved_dependencies where there are several *)
  c_rows : list str;                    (* the version table before the command *)
  c_up : bool;                          (* upgrade / downgrade *)
  c_target : str                        (* the target exactly as typed *)
}.

(* ---------- stage 1: everything up to the call of the planner (strings -> load positions) ---------- *)
Inductive rres :=
| RBad                                                       (* outside the model: an oracle or an input that does not fit *)
| RFail (e : R.xerr)                                         (* the command is refused before planning *)
| RPlanUp (G:graph) (rowsN T L : list N)                     (* _collect_upgrade_revisions: targets T, lower L *)
| RPlanDown (G:graph) (rowsN : list N) (target branch : option N) (U : list N).

(* _resolve_branch(branch_label) *)
Definition resolve_branch (M:R.rmap) (b:str) : R.res (option R.srev) := R.revision_for_ident0 M (Some b).

Definition current_of (M:R.rmap) (H:list R.srev) (rws:list str) (k : list N -> rres) : rres :=
  match R.get_ids M rws with                                  (* self.get_revisions(<tuple of rows>) *)
  | R.Err e => RFail (R.catch_revision_errors e)
  | R.Ok crevs =>
      match opt_ids crevs with
      | None => RBad
      | Some cnames => match pos_list H cnames with Some L => k L | None => RBad end
      end
  end.

Definition resolve_cmd (i:cmd_in) : rres :=
  if has_colon (c_target i) then RFail R.CmdOther else           (* "Range revision not allowed" *)
  match intern0 (c_revs i) with
  | None => RBad
  | Some G0 =>
  match Cycle.load G0 with
  | LoadErr _ => RFail R.CmdRevision            (* LoopDetected / CycleDetected and their Dependency* forms are RevisionErrors *)
  | Loaded _ =>
  match R.load (c_revs i) (c_oracle i) with
  | R.Err R.EBadOracle => RBad
  | R.Err e => RFail (R.catch_revision_errors e)
  | R.Ok M =>
    match intern M (c_ndeps i), pos_list (c_revs i) (c_rows i) with
    | Some G, Some rowsN =>
      if c_up i then
        match R.parse_upgrade_target M (c_rows i) (c_target i) true with
        | R.Err e => RFail (R.catch_revision_errors e)
        | R.Ok elems =>
          match elem_ids elems with
          | None => RFail R.XAssertion
          | Some tnames =>
            match pos_list (c_revs i) tnames with
            | Some T => current_of M (c_revs i) (c_rows i) (fun L => RPlanUp G rowsN T L)
            | None => RBad
            end
          end
        end
      else
        match R.parse_downgrade_target M (c_rows i) (c_target i) true with
        | R.Err e => RFail (R.catch_revision_errors e)
        | R.Ok (bl, el) =>
          match (match el with
                 | R.EBaseS | R.ENoneV => Some None                 (* "base" -> None; None stays None *)
                 | R.EId x => match pos (c_revs i) x with Some n => Some (Some n) | None => None end
                 end) with
          | None => RBad
          | Some target =>
            (* `if branch_label and len(roots) > 1:` is the only reader of the branch label *)
            let need_branch := match bl, roots0_of G target with Some (_ :: _), _ :: _ :: _ => true | _, _ => false end in
            match (if need_branch then
                     match bl with
                     | Some b => match resolve_branch M b with
                                 | R.Err e => inr (RFail (R.catch_revision_errors e))
                                 | R.Ok None => inr RBad
                                 | R.Ok (Some r) => match pos (c_revs i) (R.s_id r) with Some n => inl (Some n) | None => inr RBad end
                                 end
                     | None => inl None
                     end
                   else inl None) with
            | inr r => r
            | inl branch => current_of M (c_revs i) (c_rows i) (fun U => RPlanDown G rowsN target branch U)
            end
          end
        end
    | _, _ => RBad
    end
  end
  end
  end.

(* ---------- stage 2: plan and run (MigrationContext.run_migrations) ---------- *)
Definition run_plan (H:list R.srev) (G:graph) (plan:list N) (up:bool) (rowsN:list N) : cres :=
  match run_cmd G (fun l => l) (map (fun r => RevStep r up) plan) rowsN with
  | (_, Some rws') => COk (map (name_of H) plan) (map (name_of H) rws')
  | (os, None) =>
      (* a step failed: the scripts up to it have run, the transaction is rolled back *)
      CFail (match last os (ObsErr EOther) with ObsErr e => step_xerr e | ObsOk _ _ => R.XOther end)
            (map (name_of H) (firstn (length os) plan)) (map (name_of H) rowsN)
  end.

Definition exec_cmd (i:cmd_in) (r:rres) : cres :=
  match r with
  | RBad => CFail R.XBadOracle [] (c_rows i)
  | RFail e => CFail e [] (c_rows i)
  | RPlanUp G rowsN T L =>
      match upgrade_plan G T L with
      | PErr e => CFail (plan_xerr e) [] (c_rows i)
      | POk plan => run_plan (c_revs i) G plan true rowsN
      end
  | RPlanDown G rowsN target branch U =>
      match downgrade_plan G target branch U with
      | PErr e => CFail (plan_xerr e) [] (c_rows i)
      | POk plan => run_plan (c_revs i) G plan false rowsN
      end
  end.

Definition run_command (i:cmd_in) : cres := exec_cmd i (resolve_cmd i).

(* ---------- comparison ---------- *)
Definition xerr_eqb (a b:R.xerr) : bool :=
  match a, b with
  | R.CmdMultipleHeads, R.CmdMultipleHeads | R.CmdResolution, R.CmdResolution | R.CmdRevision, R.CmdRevision
  | R.CmdRange, R.CmdRange | R.CmdOther, R.CmdOther | R.XRevisionUncaught, R.XRevisionUncaught
  | R.XAssertion, R.XAssertion | R.XKey, R.XKey | R.XValue, R.XValue | R.XType, R.XType
  | R.XAttribute, R.XAttribute | R.XIndex, R.XIndex | R.XOther, R.XOther | R.XBadOracle, R.XBadOracle => true
  | _, _ => false
  end.
Fixpoint strs_eqb (a b:list str) : bool :=
  match a, b with
  | [], [] => true
  | x :: a', y :: b' => R.streqb x y && strs_eqb a' b'
  | _, _ => false
  end.
Definition strs_permb (a b:list str) : bool :=
  Nat.eqb (length a) (length b) &&
  forallb (fun x => Nat.eqb (length (filter (R.streqb x) a)) (length (filter (R.streqb x) b))) a.
Definition cres_eqb (a b:cres) : bool :=
  match a, b with
  | COk r1 w1, COk r2 w2 => strs_eqb r1 r2 && strs_permb w1 w2
  | CFail e1 r1 w1, CFail e2 r2 w2 => xerr_eqb e1 e2 && strs_eqb r1 r2 && strs_permb w1 w2
  | _, _ => false
  end.
