(* C12 — offline SQL script vs online run.  Executable model, no proofs.

   Anchors (alembic 1.15.3 + fix commits):
     alembic/ddl/impl.py           DefaultImpl._exec (as_sql branch)            -> replace_tab, strip, exec_post
                                   DefaultImpl.bulk_insert (as_sql / online)    -> compile_off / compile_on of BulkInsert
     alembic/runtime/migration.py  MigrationContext.run_migrations              -> run_online, run_offline
                                   MigrationContext.get_current_heads           -> start (offline) / version rows (online)
                                   HeadMaintainer._insert/_delete/_update_version -> hm_apply, vstmt_sql, on_bk
   The revision-graph planner and HeadMaintainer.update_to_step (which statements a step issues) are the
   subject of C01-C03; here a plan is a list of steps, each carrying its migration body and the bookkeeping
   statements update_to_step issued for it.

   Universe: SQLite; columns may carry a server default and NOT NULL; tables may carry PRIMARY KEY / UNIQUE column
   sets (a primary key is NOT NULL columns + a unique set; never a lone INTEGER column, which SQLite would make the
   rowid); indexes may be unique; an INSERT names its columns: an omitted column takes the column default (NULL if
   none), an explicit None is NULL; an INSERT / UPDATE / CREATE UNIQUE INDEX that violates NOT NULL or uniqueness fails; a statement that is not applicable (table exists / missing, wrong arity ...) aborts
   the run (None).  Table, column and index names are interned by the harness (N); table names and index
   names are different name spaces by construction and never name the version table. *)
From AV Require Export Base.ListSet.
From Coq Require Import ZArith DecimalZ.
Import ListNotations.
Open Scope N_scope.

Definition text := list N.              (* code points *)

(* ---------------------------------------------------------------- values stored in a cell *)
Inductive value := VNull | VInt (z:Z) | VText (s:text) | VNum (s:text).
   (* VNum: a REAL, identified by the canonical text python's repr(float) gives for it *)

Definition value_eqb (a b : value) : bool :=
  match a, b with
  | VNull, VNull => true
  | VInt x, VInt y => Z.eqb x y
  | VText x, VText y => list_eqb N.eqb x y
  | VNum x, VNum y => list_eqb N.eqb x y
  | _, _ => false
  end.

(* ---------------------------------------------------------------- DefaultImpl._exec, as_sql branch:
   static_output( str(compiled).replace("\t", "    ").strip() + self.command_terminator )            *)
Fixpoint replace_tab (s:text) : text :=
  match s with
  | [] => []
  | c :: r => if N.eqb c 9 then 32 :: 32 :: 32 :: 32 :: replace_tab r else c :: replace_tab r
  end.
(* str.strip() without argument removes the characters for which str.isspace() holds *)
Definition is_ws (c:N) : bool :=
  (N.leb 9 c && N.leb c 13) || (N.leb 28 c && N.leb c 32) || N.eqb c 133 || N.eqb c 160 || N.eqb c 5760
  || (N.leb 8192 c && N.leb c 8202) || N.eqb c 8232 || N.eqb c 8233 || N.eqb c 8239 || N.eqb c 8287 || N.eqb c 12288.
Fixpoint lstrip (s:text) : text :=
  match s with [] => [] | c :: r => if is_ws c then lstrip r else s end.
Definition rstrip (s:text) : text := rev (lstrip (rev s)).
Definition strip (s:text) : text := rstrip (lstrip s).
Definition exec_post (term s : text) : text := strip (replace_tab s) ++ term.
(* what _exec does to the text of a literal that sits inside a statement (between non-blank text) *)
Definition post (l:text) : text := replace_tab l.
Definition no_tab (s:text) : bool := negb (memN 9 s).

(* ---- the whole statement text.  str(compiled) is: blanks (SQLAlchemy starts DDL with a newline), then tokens, then
   blanks.  A token is a word (keyword, identifier, number, punctuation: no blank inside, no tab), a run of blanks
   (SQLAlchemy indents DDL with tabs), or a literal (quoted text: anything inside). *)
Inductive tok := TWord (s:text) | TSpace (s:text) | TLit (s:text).
Definition tok_text (t:tok) : text := match t with TWord s | TSpace s | TLit s => s end.
Definition flat (l:list tok) : text := flat_map tok_text l.
Record stext := mkSText { st_lead : text; st_core : list tok; st_trail : text }.
Definition stext_text (x:stext) : text := st_lead x ++ flat (st_core x) ++ st_trail x.
(* what _exec's replace("\t", "    ") does token by token *)
Definition post_tok (t:tok) : tok :=
  match t with TWord s => TWord (replace_tab s) | TSpace s => TSpace (replace_tab s) | TLit s => TLit (post s) end.
Definition hd_last_ok (s:text) : bool :=
  match s with [] => false | a :: _ => negb (is_ws a) && negb (is_ws (last s a)) end.
Definition tok_ok (t:tok) : bool :=
  match t with TWord s => no_tab s | TSpace s => forallb is_ws s | TLit s => hd_last_ok s (* starts and ends with its delimiters *) end.
Definition stext_wf (x:stext) : bool :=
  forallb is_ws (st_lead x) && forallb is_ws (st_trail x) && hd_last_ok (flat (st_core x)) && forallb tok_ok (st_core x).

(* ---------------------------------------------------------------- abstract database *)
(* c_dflt: the value SQLite stores for a column the INSERT omits (server_default), None = no default *)
Record col := mkCol { c_name : N; c_type : N; c_dflt : option value; c_notnull : bool }.
(* t_uniq: the column sets of PRIMARY KEY and UNIQUE constraints *)
Record table := mkTable { t_name : N; t_cols : list col; t_uniq : list (list N); t_rows : list (list value) }.
Record index := mkIndex { x_name : N; x_tab : N; x_cols : list N; x_unique : bool }.
Record udb := mkU { u_tabs : list table; u_idx : list index }.
(* version table: None = the table does not exist *)
Definition db : Type := udb * option (list N).

(* ---------------------------------------------------------------- operations of a migration body (none reads the database) *)
(* op.execute("...") with a plain string: the literals are text the user wrote (w), not python values.
   A cell of an INSERT is None when the statement does not name the column. *)
Inductive rawstmt := RInsert (t:N) (cells : list (option text)) | RDeleteAll (t:N) | RUpdateAll (t c : N) (w:text).
(* the default of a column of CreateTable / AddColumn is the python-side value d; the DDL carries its literal *)
Inductive op :=
| CreateTable (t:N) (cols : list col) (uniq : list (list N))
| DropTable (t:N)
| AddColumn (t:N) (c:col)
| CreateIndex (i t : N) (cols : list N) (unique : bool)
| DropIndex (i:N)
| BulkInsert (t:N) (rows : list (list (option value)))   (* per column AND per row: None = key absent from that row's dict.
     online multiinsert=True (executemany, one key set for all rows) and multiinsert=False (one INSERT per row, each
     with its own keys) have the same effect as one INSERT per row, which is what compile_on produces *)
| Execute (r:rawstmt).

(* HeadMaintainer._insert_version / _delete_version / _update_version *)
Inductive vstmt := VIns (r:N) | VDel (r:N) | VUpd (a b : N).
Record step := mkStep { s_body : list op; s_bk : list vstmt }.

(* ---------------------------------------------------------------- SQL statements; A = what stands in a literal position *)
Record scol (A:Type) := mkSCol { sc_name : N; sc_type : N; sc_dflt : option A; sc_notnull : bool }.   (* DEFAULT <literal> *)
Arguments mkSCol {A}. Arguments sc_name {A}. Arguments sc_type {A}. Arguments sc_dflt {A}. Arguments sc_notnull {A}.
Inductive stmt (A:Type) :=
| SCreateTable (t:N) (cols : list (scol A)) (uniq : list (list N))
| SDropTable (t:N)
| SAddColumn (t:N) (c:scol A)
| SCreateIndex (i t : N) (cols : list N) (unique : bool)
| SDropIndex (i:N)
| SInsert (t:N) (cells : list (option A))
| SDeleteAll (t:N)
| SUpdateAll (t c : N) (cell : A)
| SVCreate | SVDrop | SVInsert (r:N) | SVDelete (r:N) | SVUpdate (a b : N)
| SBegin | SCommit.                              (* emit_begin / emit_commit: the script's own transaction framing *)
Arguments SCreateTable {A}. Arguments SDropTable {A}. Arguments SAddColumn {A}. Arguments SCreateIndex {A}.
Arguments SDropIndex {A}. Arguments SInsert {A}. Arguments SDeleteAll {A}. Arguments SUpdateAll {A}.
Arguments SVCreate {A}. Arguments SVDrop {A}. Arguments SVInsert {A}. Arguments SVDelete {A}. Arguments SVUpdate {A}.
Arguments SBegin {A}. Arguments SCommit {A}.

Definition sqlstmt := stmt text.                 (* a statement of the offline script: literals are text *)
Definition map_scol {A B} (f : A -> B) (c:scol A) : scol B :=
  mkSCol (sc_name c) (sc_type c) (option_map f (sc_dflt c)) (sc_notnull c).
Definition map_stmt {A B} (f : A -> B) (s:stmt A) : stmt B :=
  match s with
  | SCreateTable t cols u => SCreateTable t (map (map_scol f) cols) u
  | SDropTable t => SDropTable t
  | SAddColumn t c => SAddColumn t (map_scol f c)
  | SCreateIndex i t cols u => SCreateIndex i t cols u
  | SDropIndex i => SDropIndex i
  | SInsert t cells => SInsert t (map (option_map f) cells)
  | SDeleteAll t => SDeleteAll t
  | SUpdateAll t c x => SUpdateAll t c (f x)
  | SVCreate => SVCreate | SVDrop => SVDrop | SVInsert r => SVInsert r | SVDelete r => SVDelete r | SVUpdate a b => SVUpdate a b
  | SBegin => SBegin | SCommit => SCommit
  end.
Inductive ocell := Bound (v:value) | Lit (l:text).   (* online: a bound parameter, or literal text inside op.execute("...") *)

(* ---------------------------------------------------------------- statement semantics *)
Fixpoint find_tab (ts : list table) (t:N) : option table :=
  match ts with [] => None | x :: r => if N.eqb (t_name x) t then Some x else find_tab r t end.
Fixpoint set_tab (ts : list table) (n : table) : list table :=
  match ts with [] => [] | x :: r => if N.eqb (t_name x) (t_name n) then n :: r else x :: set_tab r n end.
Definition has_idx (xs : list index) (i:N) : bool := existsb (fun x => N.eqb (x_name x) i) xs.
Definition col_names (t:table) : list N := map c_name (t_cols t).
Fixpoint set_nth {A} (l : list A) (k:nat) (a:A) : list A :=
  match l, k with
  | [], _ => []
  | _ :: r, O => a :: r
  | x :: r, S k' => x :: set_nth r k' a
  end.
Fixpoint pos_of (x:N) (l:list N) : option nat :=
  match l with [] => None | y :: r => if N.eqb x y then Some O else option_map S (pos_of x r) end.

(* ---- NOT NULL and uniqueness.  A key with a NULL in it never conflicts (SQL UNIQUE). *)
Fixpoint nth_value (row : list value) (k:nat) : value :=
  match row, k with [], _ => VNull | v :: _, O => v | _ :: r, S k' => nth_value r k' end.
Definition row_key (names : list N) (us : list N) (row : list value) : option (list value) :=
  let vals := map (fun c => match pos_of c names with Some k => nth_value row k | None => VNull end) us in
  if existsb (fun v => value_eqb v VNull) vals then None else Some vals.
Definition okey_eqb (a b : option (list value)) : bool :=
  match a, b with Some x, Some y => list_eqb value_eqb x y | _, _ => false end.
Fixpoint notnull_ok (cols : list col) (row : list value) : bool :=
  match cols, row with
  | c :: cs, v :: vs => negb (c_notnull c && value_eqb v VNull) && notnull_ok cs vs
  | _, _ => true
  end.
Definition uniq_ok (names : list N) (uniqs : list (list N)) (rows : list (list value)) (row : list value) : bool :=
  forallb (fun us => negb (existsb (fun r => okey_eqb (row_key names us r) (row_key names us row)) rows)) uniqs.
Definition row_ok (cols : list col) (uniqs : list (list N)) (rows : list (list value)) (row : list value) : bool :=
  notnull_ok cols row && uniq_ok (map c_name cols) uniqs rows row.
Fixpoint rows_ok_from (cols : list col) (uniqs : list (list N)) (acc rows : list (list value)) : bool :=
  match rows with [] => true | r :: rest => row_ok cols uniqs acc r && rows_ok_from cols uniqs (acc ++ [r]) rest end.
Definition rows_ok cols uniqs rows : bool := rows_ok_from cols uniqs [] rows.
(* every uniqueness requirement on a table: its constraints and its unique indexes *)
Definition uniqs_of (u:udb) (T:table) : list (list N) :=
  t_uniq T ++ map x_cols (filter (fun x => x_unique x && N.eqb (x_tab x) (t_name T)) (u_idx u)).

(* ---- configuration of the migration context (env.py): transactional_ddl (None = the dialect's default, False on
   SQLite) and transaction_per_migration *)
Record cfg := mkCfg { g_tddl : option bool; g_tpm : bool }.
Definition tddl_eff (c:cfg) : bool := match g_tddl c with Some b => b | None => false end.
(* begin_transaction(): with transactional DDL a block is opened where _per_migration = transaction_per_migration:
   around the whole run (env.py's begin_transaction()) or around every step; without it offline emits nothing and
   online opens one transaction per step *)
Definition frame_outer (c:cfg) : bool := tddl_eff c && negb (g_tpm c).
Definition frame_step (c:cfg) : bool := tddl_eff c && g_tpm c.
Definition commit_per_step (c:cfg) : bool := negb (frame_outer c).

(* a database connection: the current contents and, while a transaction is open, the contents at its start *)
Record ostate := mkO { o_cur : db; o_snap : option db }.
Definition rolled_back (st:ostate) : db := match o_snap st with Some d => d | None => o_cur st end.
Definition commit (st:ostate) : ostate := mkO (o_cur st) None.

Section Exec.
  Context {A:Type}.
  Variable rd : A -> value.                      (* how the database reads what stands in a literal position *)

  Definition read_col (c:scol A) : col := mkCol (sc_name c) (sc_type c) (option_map rd (sc_dflt c)) (sc_notnull c).
  Definition dflt_or_null (c:col) : value := match c_dflt c with Some v => v | None => VNull end.
  Fixpoint fill_row (cols : list col) (cells : list (option A)) : list value :=
    match cols, cells with
    | c :: cs, x :: xs => match x with Some a => rd a | None => dflt_or_null c end :: fill_row cs xs
    | _, _ => []
    end.

  Definition exec_u (u:udb) (s:stmt A) : option udb :=
    match s with
    | SCreateTable t cols uniq =>
        match find_tab (u_tabs u) t, cols with
        | None, _ :: _ => if nodupb (map sc_name cols) && forallb (fun us => subsetN us (map sc_name cols)) uniq
                          then Some (mkU (u_tabs u ++ [mkTable t (map read_col cols) uniq []]) (u_idx u)) else None
        | _, _ => None
        end
    | SDropTable t =>
        match find_tab (u_tabs u) t with
        | Some _ => Some (mkU (filter (fun x => negb (N.eqb (t_name x) t)) (u_tabs u))
                              (filter (fun x => negb (N.eqb (x_tab x) t)) (u_idx u)))
        | None => None
        end
    | SAddColumn t c =>
        match find_tab (u_tabs u) t with
        | Some T => let c' := read_col c in
                    if memN (sc_name c) (col_names T) then None
                    else if c_notnull c' && value_eqb (dflt_or_null c') VNull && negb (Nat.eqb (length (t_rows T)) 0)
                         then None   (* SQLite: cannot add a NOT NULL column with default NULL — checked against the existing rows *)
                    else Some (mkU (set_tab (u_tabs u) (mkTable t (t_cols T ++ [c']) (t_uniq T) (map (fun r => r ++ [dflt_or_null c']) (t_rows T)))) (u_idx u))
        | None => None
        end
    | SCreateIndex i t cols unique =>
        match find_tab (u_tabs u) t, cols with
        | Some T, _ :: _ => if negb (has_idx (u_idx u) i) && subsetN cols (col_names T) && nodupb cols
                               && (negb unique || rows_ok (t_cols T) [cols] (t_rows T))   (* existing duplicates refuse a unique index *)
                            then Some (mkU (u_tabs u) (u_idx u ++ [mkIndex i t cols unique])) else None
        | _, _ => None
        end
    | SDropIndex i =>
        if has_idx (u_idx u) i then Some (mkU (u_tabs u) (filter (fun x => negb (N.eqb (x_name x) i)) (u_idx u))) else None
    | SInsert t cells =>
        match find_tab (u_tabs u) t with
        | Some T => if Nat.eqb (length cells) (length (t_cols T))
                    then let row := fill_row (t_cols T) cells in
                         if row_ok (t_cols T) (uniqs_of u T) (t_rows T) row
                         then Some (mkU (set_tab (u_tabs u) (mkTable t (t_cols T) (t_uniq T) (t_rows T ++ [row]))) (u_idx u))
                         else None                                   (* IntegrityError *)
                    else None
        | None => None
        end
    | SDeleteAll t =>
        match find_tab (u_tabs u) t with
        | Some T => Some (mkU (set_tab (u_tabs u) (mkTable t (t_cols T) (t_uniq T) [])) (u_idx u))
        | None => None
        end
    | SUpdateAll t c cell =>
        match find_tab (u_tabs u) t with
        | Some T => match pos_of c (col_names T) with
                    | Some k => let rows := map (fun r => set_nth r k (rd cell)) (t_rows T) in
                                if rows_ok (t_cols T) (uniqs_of u T) rows
                                then Some (mkU (set_tab (u_tabs u) (mkTable t (t_cols T) (t_uniq T) rows)) (u_idx u))
                                else None
                    | None => None
                    end
        | None => None
        end
    | _ => None
    end.

  (* the version table as SQLite sees it (PRIMARY KEY on version_num) *)
  Definition repl (a b x : N) : N := if N.eqb x a then b else x.
  Definition exec_v (v : option (list N)) (s:stmt A) : option (option (list N)) :=
    match s, v with
    | SVCreate, None => Some (Some [])
    | SVDrop, Some _ => Some None
    | SVInsert r, Some l => if memN r l then None else Some (Some (l ++ [r]))
    | SVDelete r, Some l => Some (Some (removeN r l))
    | SVUpdate a b, Some l => if memN a l && memN b l && negb (N.eqb a b) then None else Some (Some (map (repl a b) l))
    | _, _ => None
    end.

  Definition is_vstmt (s:stmt A) : bool :=
    match s with SVCreate | SVDrop | SVInsert _ | SVDelete _ | SVUpdate _ _ => true | _ => false end.

  Definition is_frame (s:stmt A) : bool := match s with SBegin | SCommit => true | _ => false end.
  (* on the contents of the database BEGIN and COMMIT do nothing; what they do to the transaction is exec_tx below *)
  Definition exec_stmt (d:db) (s:stmt A) : option db :=
    if is_frame s then Some d else
    if is_vstmt s then match exec_v (snd d) s with Some v => Some (fst d, v) | None => None end
    else match exec_u (fst d) s with Some u => Some (u, snd d) | None => None end.

  (* statements whose execution makes the sqlite3 driver open a transaction (legacy isolation mode: DML opens, DDL joins) *)
  Definition is_dml (s:stmt A) : bool :=
    match s with SInsert _ _ | SDeleteAll _ | SUpdateAll _ _ _ | SVInsert _ | SVDelete _ | SVUpdate _ _ => true | _ => false end.

  (* execute statement by statement in autocommit; the first failing statement stops the run.
     Result: the database reached (everything before the failing statement is kept) and whether the list completed. *)
  Fixpoint exec_run (d:db) (l : list (stmt A)) : db * bool :=
    match l with
    | [] => (d, true)
    | s :: r => match exec_stmt d s with Some d' => exec_run d' r | None => (d, false) end
    end.
  Definition exec_list (d:db) (l : list (stmt A)) : option db :=
    let (d', ok) := exec_run d l in if ok then Some d' else None.

  (* the same, on a connection in autocommit mode where the script's own BEGIN / COMMIT frame the transactions
     (sqlite3 with isolation_level=None): BEGIN inside a transaction and COMMIT outside one are errors; when the
     connection is closed after an error the open transaction is rolled back *)
  Fixpoint exec_tx (st:ostate) (l : list (stmt A)) : ostate * bool :=
    match l with
    | [] => (st, true)
    | s :: r =>
        match s with
        | SBegin => match o_snap st with Some _ => (st, false) | None => exec_tx (mkO (o_cur st) (Some (o_cur st))) r end
        | SCommit => match o_snap st with Some _ => exec_tx (mkO (o_cur st) None) r | None => (st, false) end
        | _ => match exec_stmt (o_cur st) s with Some d' => exec_tx (mkO d' (o_snap st)) r | None => (st, false) end
        end
    end.
  (* BEGIN / COMMIT properly nested, starting with a transaction open or not; result: open at the end? *)
  Fixpoint framed (open:bool) (l : list (stmt A)) : option bool :=
    match l with
    | [] => Some open
    | SBegin :: r => if open then None else framed true r
    | SCommit :: r => if open then framed false r else None
    | _ :: r => framed open r
    end.
End Exec.

(* how a run ends: the database afterwards, and whether it completed or was stopped by an error *)
Inductive outcome := Done (d:db) | Aborted (d:db).

Section Lit.
  (* SQLAlchemy's literal renderer for the column type and SQLite's reading of a literal: not alembic's code *)
  Variable lit : value -> text.
  Variable parse_lit : text -> value.
  (* SQLAlchemy's text(): DefaultImpl._exec wraps a plain string in text() in BOTH modes, and compiling a
     TextClause rewrites the statement text ("\:" becomes ":"); its action on the text of a literal *)
  Variable untext : text -> text.

  (* executing the offline script with the sqlite3 module, statement by statement, autocommit:
     a failing statement leaves everything before it in the database *)
  Definition replay_run (d:db) (script : list sqlstmt) : db * bool := exec_run parse_lit d script.
  Definition replay (d:db) (script : list sqlstmt) : option db := exec_list parse_lit d script.

  Definition rd_on (c:ocell) : value := match c with Bound v => v | Lit l => parse_lit l end.

  (* ---- what one operation sends to the database.
     online : bulk_insert binds the python values (executemany); op.execute(text) sends the user's text as is.
     offline: bulk_insert renders one INSERT per row with literal binds; every statement passes through _exec,
              whose replace("\t", "    ") also rewrites the text of the literals. *)
  Definition compile_raw {A} (f : text -> A) (r:rawstmt) : stmt A :=
    match r with
    | RInsert t cells => SInsert t (map (option_map f) cells)
    | RDeleteAll t => SDeleteAll t
    | RUpdateAll t c w => SUpdateAll t c (f w)
    end.
  Definition compile_col {A} (f : value -> A) (c:col) : scol A := mkSCol (c_name c) (c_type c) (option_map f (c_dflt c)) (c_notnull c).
  (* fbind: a bulk_insert value; fddl: the default literal of a column; fexec: a literal of an op.execute string *)
  Definition compile_op {A} (fbind fddl : value -> A) (fexec : text -> A) (o:op) : list (stmt A) :=
    match o with
    | CreateTable t cols uniq => [SCreateTable t (map (compile_col fddl) cols) uniq]
    | DropTable t => [SDropTable t]
    | AddColumn t c => [SAddColumn t (compile_col fddl c)]
    | CreateIndex i t cols unique => [SCreateIndex i t cols unique]
    | DropIndex i => [SDropIndex i]
    | BulkInsert t rows => map (fun row => SInsert t (map (option_map fbind) row)) rows
    | Execute r => [compile_raw fexec r]
    end.
  Definition compile_on (o:op) : list (stmt ocell) :=
    compile_op Bound (fun v => Lit (lit v)) (fun w => Lit (untext w)) o.
  Definition off_lit (v:value) : text := post (lit v).
  Definition off_text (w:text) : text := post (untext w).
  Definition compile_off (o:op) : list sqlstmt := compile_op off_lit off_lit off_text o.

  (* ---- HeadMaintainer: self.heads (a python set; kept here as a list) *)
  Definition hm_apply (h : list N) (s:vstmt) : option (list N) :=
    match s with
    | VIns r => if memN r h then None (* assert version not in self.heads *) else Some (h ++ [r])
    | VDel r => if memN r h then Some (removeN r h) else None (* KeyError *)
    | VUpd a b => if memN b h then None (* assert to_ not in self.heads *)
                  else if memN a h then Some (map (repl a b) h) else None (* KeyError *)
    end.
  Fixpoint hm_list (h : list N) (l : list vstmt) : option (list N) :=
    match l with [] => Some h | s :: r => match hm_apply h s with Some h' => hm_list h' r | None => None end end.
  Definition vstmt_sql {A} (s:vstmt) : stmt A :=
    match s with VIns r => SVInsert r | VDel r => SVDelete r | VUpd a b => SVUpdate a b end.

  (* ---- online: run_migrations with a connection.
     Transactions (SQLite, stock env.py): transactional_ddl is False, so begin_transaction(_per_migration=True) opens
     one logical transaction per step and commits it after the step's bookkeeping.  With the sqlite3 driver the real
     transaction starts at the first DML statement after the last commit; DDL before it is already permanent, DDL
     after it is part of the transaction.  An exception rolls back to that point.
     o_snap = the database at the start of the open driver transaction, None when none is open. *)
  Definition on_exec (st:ostate) (s:stmt ocell) : option ostate :=
    match exec_stmt rd_on (o_cur st) s with
    | Some d' => Some (mkO d' (if is_dml s then match o_snap st with None => Some (o_cur st) | x => x end else o_snap st))
    | None => None
    end.
  Fixpoint on_exec_run (st:ostate) (l : list (stmt ocell)) : ostate * bool :=
    match l with
    | [] => (st, true)
    | s :: r => match on_exec st s with Some st' => on_exec_run st' r | None => (st, false) end
    end.

  Definition vers_rows (d:db) : list N := match snd d with Some l => l | None => [] end.
  Definition ensure_version_table (d:db) : db := match snd d with None => (fst d, Some []) | Some _ => d end.
  (* one bookkeeping statement online: heads bookkeeping, the statement itself, and the rowcount check *)
  Definition on_bk1 (st:ostate) (h:list N) (s:vstmt) : option (ostate * list N) :=
    match hm_apply h s with
    | None => None
    | Some h' =>
        let rows := vers_rows (o_cur st) in
        let rowcount_ok := match s with VIns _ => true | VDel r => Nat.eqb (countN r rows) 1 | VUpd a _ => Nat.eqb (countN a rows) 1 end in
        match on_exec st (vstmt_sql s) with
        | Some st' => if rowcount_ok then Some (st', h') else None (* CommandError *)
        | None => None
        end
    end.
  (* result: state, heads, completed?  (on failure the state is the one reached before the failing statement;
     a failed rowcount check happens after its statement, inside the same transaction: the snapshot is what matters) *)
  Fixpoint on_bk (st:ostate) (h:list N) (l:list vstmt) : ostate * list N * bool :=
    match l with
    | [] => (st, h, true)
    | s :: r => match on_bk1 st h s with Some (st', h') => on_bk st' h' r | None => (st, h, false) end
    end.
  Definition body_on (b : list op) : list (stmt ocell) := flat_map compile_on b.
  Definition step_commit (c:cfg) (st:ostate) : ostate := if commit_per_step c then commit st else st.
  Fixpoint on_steps (c:cfg) (st:ostate) (h:list N) (steps : list step) : ostate * list N * bool :=
    match steps with
    | [] => (st, h, true)
    | stp :: r =>
        match on_exec_run st (body_on (s_body stp)) with
        | (st1, false) => (st1, h, false)
        | (st1, true) => match on_bk st1 h (s_bk stp) with
                         | (st2, h2, true) => on_steps c (step_commit c st2) h2 r
                         | (st2, h2, false) => (st2, h2, false)
                         end
        end
    end.
  Definition run_online_tx (c:cfg) (d:db) (steps : list step) : ostate * list N * bool :=
    let heads := vers_rows d in
    (* _ensure_version_table: DDL outside any transaction *)
    let d1 := match heads with [] => ensure_version_table d | _ => d end in
    on_steps c (mkO d1 None) heads steps.
  Definition online_outcome (c:cfg) (d:db) (steps : list step) : outcome :=
    match run_online_tx c d steps with
    | (st, _, true) => Done (o_cur st)
    | (st, _, false) => Aborted (rolled_back st)
    end.
  Definition run_online (c:cfg) (d:db) (steps : list step) : option db :=
    match online_outcome c d steps with Done d' => Some d' | Aborted _ => None end.

  (* ---- offline: run_migrations with as_sql; the output buffer as a statement list *)
  Definition body_off (b : list op) : list sqlstmt := flat_map compile_off b.
  Fixpoint off_steps (h : list N) (steps : list step) : option (list sqlstmt * list N) :=
    match steps with
    | [] => Some ([], h)
    | st :: r =>
        let pre := match h with [] => [SVCreate] | _ => [] end in
        match hm_list h (s_bk st) with
        | None => None
        | Some h' => match off_steps h' r with
                     | Some (s, hf) => Some (pre ++ body_off (s_body st) ++ map vstmt_sql (s_bk st) ++ s, hf)
                     | None => None
                     end
        end
    end.
  Definition run_offline (start : list N) (steps : list step) : option (list sqlstmt) :=
    match off_steps start steps with
    | Some (s, hf) => Some (s ++ match hf with [] => [SVDrop] | _ => [] end)
    | None => None
    end.

  (* ---- the script with its transaction framing (begin_transaction in as_sql mode = emit_begin / emit_commit) *)
  Definition fr_begin (b:bool) : list sqlstmt := if b then [SBegin] else [].
  Definition fr_commit (b:bool) : list sqlstmt := if b then [SCommit] else [].
  Fixpoint off_steps_f (c:cfg) (h : list N) (steps : list step) : option (list sqlstmt * list N) :=
    match steps with
    | [] => Some ([], h)
    | st :: r =>
        let pre := match h with [] => [SVCreate] | _ => [] end in
        match hm_list h (s_bk st) with
        | None => None
        | Some h' => match off_steps_f c h' r with
                     | Some (s, hf) => Some (fr_begin (frame_step c) ++ pre ++ body_off (s_body st) ++ map vstmt_sql (s_bk st)
                                             ++ fr_commit (frame_step c) ++ s, hf)
                     | None => None
                     end
        end
    end.
  (* env.py: with context.begin_transaction(): context.run_migrations();  the final DROP of the version table is
     wrapped in begin_transaction(_per_migration=True) *)
  Definition run_offline_f (c:cfg) (start : list N) (steps : list step) : option (list sqlstmt) :=
    match off_steps_f c start steps with
    | Some (s, hf) => Some (fr_begin (frame_outer c) ++ s
                            ++ match hf with [] => fr_begin (frame_step c) ++ [SVDrop] ++ fr_commit (frame_step c) | _ => [] end
                            ++ fr_commit (frame_outer c))
    | None => None
    end.
  Definition replay_tx (d:db) (script : list sqlstmt) : ostate * bool := exec_tx parse_lit (mkO d None) script.
  (* generating the script can itself fail (an assertion in HeadMaintainer): then nothing is executed *)
  Definition offline_outcome (c:cfg) (d:db) (start : list N) (steps : list step) : outcome :=
    match run_offline_f c start steps with
    | Some s => match replay_tx d s with (st, true) => Done (o_cur st) | (st, false) => Aborted (rolled_back st) end
    | None => Aborted d
    end.
  Definition offline_effect_f (c:cfg) (d:db) (start : list N) (steps : list step) : option db :=
    match offline_outcome c d start steps with Done d' => Some d' | Aborted _ => None end.
  Definition offline_effect (d:db) (start : list N) (steps : list step) : option db :=
    match run_offline start steps with Some s => replay d s | None => None end.

  (* ---- the offline script as TEXT.
     The constructs alembic hands to _exec, before _exec's text processing: literals are lit v / untext w. *)
  Definition compile_plain (o:op) : list sqlstmt := compile_op lit lit untext o.
  Definition body_plain (b : list op) : list sqlstmt := flat_map compile_plain b.
  Fixpoint off_steps_plain (h : list N) (steps : list step) : option (list sqlstmt * list N) :=
    match steps with
    | [] => Some ([], h)
    | st :: r =>
        let pre := match h with [] => [SVCreate] | _ => [] end in
        match hm_list h (s_bk st) with
        | None => None
        | Some h' => match off_steps_plain h' r with
                     | Some (s, hf) => Some (pre ++ body_plain (s_body st) ++ map vstmt_sql (s_bk st) ++ s, hf)
                     | None => None
                     end
        end
    end.
  Definition run_offline_plain (start : list N) (steps : list step) : option (list sqlstmt) :=
    match off_steps_plain start steps with
    | Some (s, hf) => Some (s ++ match hf with [] => [SVDrop] | _ => [] end)
    | None => None
    end.
  (* render = SQLAlchemy's compiler: str(compiled) of a construct, with its token structure;
     sqlite = SQLite reading one chunk of the script (statement + terminator): neither is alembic's code.
     DefaultImpl._exec writes exec_post term (str(compiled)) for every construct. *)
  Variable render : sqlstmt -> stext.
  Variable sqlite : text -> option sqlstmt.
  Variable term : text.
  Definition exec_text (s:sqlstmt) : text := exec_post term (stext_text (render s)).
  Definition offline_text (start : list N) (steps : list step) : option (list text) :=
    match run_offline_plain start steps with Some l => Some (map exec_text l) | None => None end.
  Fixpoint replay_text_run (d:db) (l : list text) : db * bool :=
    match l with
    | [] => (d, true)
    | x :: r => match sqlite x with
                | Some s => match exec_stmt parse_lit d s with Some d' => replay_text_run d' r | None => (d, false) end
                | None => (d, false)                                   (* syntax error *)
                end
    end.
  Definition offline_text_effect (d:db) (start : list N) (steps : list step) : option db :=
    match offline_text start steps with
    | Some l => match replay_text_run d l with (d', true) => Some d' | _ => None end
    | None => None
    end.
End Lit.

(* ---------------------------------------------------------------- observable
   user tables (definition + rows), indexes, version rows.  An absent version table and an empty one
   are IDENTIFIED: offline drops the table when the run ends at base, online leaves it empty. *)
Record obs := mkObs { ob_tabs : list table; ob_idx : list index; ob_vers : list N; ob_raw : list text }.
Definition observable (d:db) : obs :=
  mkObs (u_tabs (fst d)) (u_idx (fst d)) (match snd d with Some l => l | None => [] end) [].

(* ---------------------------------------------------------------- literal values occurring in a plan *)
Fixpoint somes {A} (l : list (option A)) : list A :=
  match l with [] => [] | Some a :: r => a :: somes r | None :: r => somes r end.
Definition col_values (c:col) : list value := match c_dflt c with Some v => [v] | None => [] end.
Definition op_values (o:op) : list value :=            (* rendered by SQLAlchemy's literal renderer *)
  match o with
  | BulkInsert _ rows => flat_map somes rows
  | CreateTable _ cols _ => flat_map col_values cols
  | AddColumn _ c => col_values c
  | _ => []
  end.
Definition op_texts (o:op) : list text :=              (* literal text inside op.execute strings *)
  match o with
  | Execute (RInsert _ cells) => somes cells
  | Execute (RUpdateAll _ _ w) => [w]
  | _ => []
  end.
Definition steps_values (steps : list step) : list value := flat_map (fun st => flat_map op_values (s_body st)) steps.
Definition steps_texts (steps : list step) : list text := flat_map (fun st => flat_map op_texts (s_body st)) steps.

(* the version heads are never empty between two steps (true of every upgrade and downgrade plan) *)
Fixpoint mid_nonempty (h:list N) (steps : list step) : bool :=
  match steps with
  | [] => true
  | st :: r => match r with
               | [] => true
               | _ => match hm_list h (s_bk st) with
                      | Some [] => false
                      | Some h' => mid_nonempty h' r
                      | None => true
                      end
               end
  end.

(* ---------------------------------------------------------------- a concrete literal syntax (SQLite dialect of SQLAlchemy
   as far as the effect is concerned: NULL, decimal integers, '...' with '' doubling, numeric tokens) *)
Fixpoint uint_text (u:Decimal.uint) : text :=
  match u with
  | Decimal.Nil => []
  | Decimal.D0 r => 48 :: uint_text r | Decimal.D1 r => 49 :: uint_text r | Decimal.D2 r => 50 :: uint_text r
  | Decimal.D3 r => 51 :: uint_text r | Decimal.D4 r => 52 :: uint_text r | Decimal.D5 r => 53 :: uint_text r
  | Decimal.D6 r => 54 :: uint_text r | Decimal.D7 r => 55 :: uint_text r | Decimal.D8 r => 56 :: uint_text r
  | Decimal.D9 r => 57 :: uint_text r
  end.
Fixpoint text_uint (s:text) : option Decimal.uint :=
  match s with
  | [] => Some Decimal.Nil
  | c :: r => match text_uint r with
              | None => None
              | Some u => if N.eqb c 48 then Some (Decimal.D0 u) else if N.eqb c 49 then Some (Decimal.D1 u)
                          else if N.eqb c 50 then Some (Decimal.D2 u) else if N.eqb c 51 then Some (Decimal.D3 u)
                          else if N.eqb c 52 then Some (Decimal.D4 u) else if N.eqb c 53 then Some (Decimal.D5 u)
                          else if N.eqb c 54 then Some (Decimal.D6 u) else if N.eqb c 55 then Some (Decimal.D7 u)
                          else if N.eqb c 56 then Some (Decimal.D8 u) else if N.eqb c 57 then Some (Decimal.D9 u)
                          else None
              end
  end.
Fixpoint dq (s:text) : text :=                   (* ' -> '' *)
  match s with [] => [] | c :: r => if N.eqb c 39 then 39 :: 39 :: dq r else c :: dq r end.
Fixpoint undq (s:text) : text :=                 (* reads up to the closing quote *)
  match s with
  | [] => []
  | c :: r => if N.eqb c 39 then match r with c' :: r' => if N.eqb c' 39 then 39 :: undq r' else [] | [] => [] end
              else c :: undq r
  end.
Definition lit_c (v:value) : text :=
  match v with
  | VNull => [78; 85; 76; 76]
  | VInt z => match Z.to_int z with Decimal.Pos u => uint_text u | Decimal.Neg u => 45 :: uint_text u end
  | VText s => 39 :: dq s ++ [39]
  | VNum s => s
  end.
Definition parse_c (t:text) : value :=
  match t with
  | 39 :: r => VText (undq r)
  | 78 :: _ => VNull
  | 45 :: r => match r, text_uint r with _ :: _, Some u => VInt (Z.of_int (Decimal.Neg u)) | _, _ => VNum t end
  | _ => match t, text_uint t with _ :: _, Some u => VInt (Z.of_int (Decimal.Pos u)) | _, _ => VNum t end
  end.

(* text() + compile on the statement text, as far as a literal is concerned: sqlalchemy BIND_PARAMS_ESC, i.e.
   a backslash followed by a colon and a maximal run of word characters that is not itself followed by a colon
   loses the backslash.  Word characters are taken to be ASCII letters, digits, "_" and "$"
   (the generator only puts such characters next to a colon).  ":name" bind parameters are outside the universe. *)
Definition is_word (c:N) : bool :=
  (N.leb 48 c && N.leb c 57) || (N.leb 65 c && N.leb c 90) || (N.leb 97 c && N.leb c 122) || N.eqb c 95 || N.eqb c 36.
Fixpoint span_word (s:text) : text * text :=
  match s with
  | c :: r => if is_word c then let (w, r') := span_word r in (c :: w, r') else ([], s)
  | [] => ([], [])
  end.
Fixpoint untext_fuel (n:nat) (s:text) : text :=
  match n with
  | O => s
  | S n' =>
      match s with
      | 92 :: 58 :: r =>
          let (w, r') := span_word r in
          match r' with
          | 58 :: _ => 92 :: untext_fuel n' (58 :: r)            (* no match at this backslash *)
          | _ => 58 :: w ++ untext_fuel n' r'
          end
      | c :: r => c :: untext_fuel n' r
      | [] => []
      end
  end.
Definition untext_c (s:text) : text := untext_fuel (length s) s.

(* ---------------------------------------------------------------- the start of a --sql range
   MigrationContext.get_current_heads, offline branch: "base" -> no heads; otherwise
   self.script.get_revision(sfr).revision — the spelling is RESOLVED to the revision's id before the HeadMaintainer is
   built.  A spelling is a key of the revision map (a full id or a branch label: both map to a revision, whose id is
   taken), a unique prefix of a key longer than 3 characters, or "head" (the single head).  Which revisions exist, their
   labels and which are heads is an input (loading is C15-C17/C19). *)
Record rinfo := mkR { ri_id : N; ri_name : text; ri_labels : list text; ri_head : bool }.
Inductive spelling := SpBase | SpKey (k:text) | SpPrefix (p:text) | SpHead.
Fixpoint is_prefix (p s : text) : bool :=
  match p, s with
  | [], _ => true
  | a :: p', b :: s' => N.eqb a b && is_prefix p' s'
  | _ :: _, [] => false
  end.
Definition text_eqb (a b : text) : bool := list_eqb N.eqb a b.
Definition keys_of (r:rinfo) : list text := ri_name r :: ri_labels r.
Definition resolve_start (m : list rinfo) (sp : spelling) : option (list N) :=
  match sp with
  | SpBase => Some []
  | SpKey k => match filter (fun r => existsb (text_eqb k) (keys_of r)) m with
               | r :: _ => Some [ri_id r]
               | [] => None                                            (* CommandError: can't locate revision *)
               end
  | SpPrefix p => match dedupe (map ri_id (filter (fun r => existsb (fun k => Nat.ltb 3 (length k) && is_prefix p k) (keys_of r)) m)) with
                  | [x] => Some [x]
                  | _ => None                                          (* no match, or ambiguous *)
                  end
  | SpHead => match filter ri_head m with
              | [r] => Some [ri_id r]
              | _ => None                                              (* no head, or multiple heads *)
              end
  end.
