(* C11 — what a failing `ApplyBatchImpl._create` leaves in the database.

   Python being modelled (alembic/operations/batch.py, alembic/util/sqla_compat.py):

     BatchOperationsImpl.flush:   with _ensure_scope_for_ddl(connection): ... batch_impl._create(impl)
     _ensure_scope_for_ddl:       if not connection.in_transaction(): with connection.begin(): yield   else: yield
     ApplyBatchImpl._calc_temp_name:  ("_alembic_tmp_%s" % tablename)[0:50]
     ApplyBatchImpl._create:
         op_impl.create_table(self.new_table)                      # statement 0
         try:
             op_impl._exec(new_table.insert().from_select(...))    # statement 1
             op_impl.drop_table(self.table)                        # statement 2
         except:
             op_impl.drop_table(self.new_table)                    # handler
             raise
         else:
             op_impl.rename_table(temp_table_name, table.name)     # statement 3
             for idx in self._gather_indexes_from_both_tables():
                 op_impl.create_index(idx)                         # statements 4..

   The database is not Alembic's code: it is modelled by a small statement semantics
   (tables = finite map name -> (definition, rows, indexes); NOT NULL / UNIQUE / CHECK
   enforced by INSERT..SELECT; the usual "exists / does not exist" failures) under three
   transaction behaviours.  No proofs in this file. *)
From AV Require Export Base.ListSet.
From Coq Require Export ZArith.

(* ------------------------------------------------------------------ names, values, rows *)
Definition name := list N.                         (* a string = list of code points *)
Definition name_eqb (a b:name) : bool := list_eqb N.eqb a b.
Definition mem_name (n:name) (l:list name) : bool := existsb (name_eqb n) l.

Inductive val := VNull | VInt (z:Z) | VText (s:list N).
Definition val_eqb (a b:val) : bool :=
  match a, b with
  | VNull, VNull => true
  | VInt x, VInt y => Z.eqb x y
  | VText x, VText y => list_eqb N.eqb x y
  | _, _ => false
  end.
Definition is_null (v:val) : bool := match v with VNull => true | _ => false end.
Definition row := list val.
Definition row_eqb (a b:row) : bool := list_eqb val_eqb a b.

(* ------------------------------------------------------------------ table definitions *)
Record idx := mkIdx { i_name : name; i_cols : list nat; i_unique : bool }.
(* d_tag identifies the definition (the harness interns reflected definitions); the three
   constraint lists are what INSERT enforces: NOT NULL columns, UNIQUE column sets (PRIMARY KEY
   included), CHECK (col >= lo) constraints.  Columns are positions. *)
Record tdef := mkDef { d_tag : N; d_notnull : list nat; d_unique : list (list nat); d_check : list (nat * Z) }.
Record table := mkTable { t_def : tdef; t_rows : list row; t_idx : list idx }.

Definition cell (i:nat) (r:row) : val := nth i r VNull.
Definition proj (cols:list nat) (r:row) : list val := map (fun i => cell i r) cols.
Definition notnull_ok (d:tdef) (r:row) : bool := forallb (fun i => negb (is_null (cell i r))) (d_notnull d).
Definition check_ok (d:tdef) (r:row) : bool :=
  forallb (fun c => match cell (fst c) r with VInt z => Z.leb (snd c) z | _ => true end) (d_check d).
(* SQL UNIQUE: two rows conflict when they agree on all the columns and none of them is NULL *)
Fixpoint unique_ok (cols:list nat) (rows:list row) : bool :=
  match rows with
  | [] => true
  | r :: rest => (existsb is_null (proj cols r) || negb (existsb (fun r' => row_eqb (proj cols r) (proj cols r')) rest))
                 && unique_ok cols rest
  end.
Definition unique_sets (d:tdef) (ixs:list idx) : list (list nat) :=
  d_unique d ++ map i_cols (filter i_unique ixs).
Definition violates (d:tdef) (ixs:list idx) (rows:list row) : bool :=
  negb (forallb (notnull_ok d) rows && forallb (check_ok d) rows
        && forallb (fun cols => unique_ok cols rows) (unique_sets d ixs)).

(* ------------------------------------------------------------------ the database *)
(* finite map as a binding log: the first binding of a name wins, `None` = dropped *)
Definition tables := list (name * option table).
Fixpoint lookup (n:name) (tb:tables) : option table :=
  match tb with
  | [] => None
  | (m, o) :: r => if name_eqb n m then o else lookup n r
  end.
Definition set_tbl (n:name) (o:option table) (tb:tables) : tables := (n, o) :: tb.
Fixpoint dedupe_names (seen l:list name) : list name :=
  match l with
  | [] => []
  | x :: r => if mem_name x seen then dedupe_names seen r else x :: dedupe_names (x :: seen) r
  end.
Definition is_some {A} (o:option A) : bool := match o with Some _ => true | None => false end.
Definition table_names (tb:tables) : list name :=
  filter (fun n => is_some (lookup n tb)) (dedupe_names [] (map fst tb)).
(* index names are global in SQLite *)
Definition idx_name_used (nm:name) (tb:tables) : bool :=
  existsb (fun n => match lookup n tb with
                    | Some T => existsb (fun i => name_eqb (i_name i) nm) (t_idx T)
                    | None => false end) (table_names tb).

(* INSERT INTO dst (c1..cn) SELECT e1..en FROM src: per destination column either a source column
   or a constant (the server default / NULL of a column that did not exist before) *)
Inductive transfer := TCol (i:nat) | TConst (v:val).
Definition copy_row (tr:list transfer) (r:row) : row :=
  map (fun t => match t with TCol i => cell i r | TConst v => v end) tr.

Inductive stmt :=
| SCreateTable (n:name) (d:tdef)
| SCopy (src dst:name) (tr:list transfer)
| SDropTable (n:name)
| SRename (src dst:name)
| SCreateIndex (tbl:name) (i:idx).

(* EInjected: an injected fault that is an Exception; EInterrupt: an injected BaseException that is NOT an Exception
   (KeyboardInterrupt, SystemExit, asyncio.CancelledError) — the bare `except:` of _create catches both *)
Inductive err := EInjected | EInterrupt | EIntegrity | EOperational | EPython | EOther.   (* EPython: an exception raised by Python code between two statements (no statement involved); EOther: implementation side only *)
Inductive res (A:Type) := Ok (a:A) | Err (e:err).
Arguments Ok {A} a. Arguments Err {A} e.

(* one statement on one table map; a failing statement changes nothing (statement atomicity) *)
Definition apply_stmt (s:stmt) (tb:tables) : res tables :=
  match s with
  | SCreateTable n d =>
      match lookup n tb with
      | Some _ => Err EOperational
      | None => Ok (set_tbl n (Some (mkTable d [] [])) tb)
      end
  | SCopy src dst tr =>
      match lookup src tb, lookup dst tb with
      | Some Ts, Some Td =>
          let rows := t_rows Td ++ map (copy_row tr) (t_rows Ts) in
          if violates (t_def Td) (t_idx Td) rows then Err EIntegrity
          else Ok (set_tbl dst (Some (mkTable (t_def Td) rows (t_idx Td))) tb)
      | _, _ => Err EOperational
      end
  | SDropTable n =>
      match lookup n tb with
      | Some _ => Ok (set_tbl n None tb)
      | None => Err EOperational
      end
  | SRename src dst =>
      match lookup src tb, lookup dst tb with
      | Some Ts, None => Ok (set_tbl dst (Some Ts) (set_tbl src None tb))
      | _, _ => Err EOperational
      end
  | SCreateIndex n i =>
      match lookup n tb with
      | None => Err EOperational
      | Some T =>
          if idx_name_used (i_name i) tb then Err EOperational
          else if i_unique i && negb (unique_ok (i_cols i) (t_rows T)) then Err EIntegrity
          else Ok (set_tbl n (Some (mkTable (t_def T) (t_rows T) (t_idx T ++ [i]))) tb)
      end
  end.

(* ------------------------------------------------------------------ transactions *)
(* TxDDL         : every statement of the scope is inside one transaction (PostgreSQL; SQLite with the
                   documented isolation_level=None + BEGIN recipe)
   Pysqlite      : the stock sqlite3 driver: a DML statement opens a transaction if none is open, a DDL
                   statement joins an open transaction and is committed at once when none is open
   AutoCommitDDL : DDL commits whatever is open and itself (MySQL, Oracle) *)
Inductive kind := TxDDL | Pysqlite | AutoCommitDDL | AutoCommit.   (* AutoCommit: an autocommit connection (isolation_level="AUTOCOMMIT"): every statement is its own transaction *)
Inductive outcome := Commit | Rollback.
Record conn := mkConn { committed : tables; current : tables; intx : bool }.

Definition is_dml (s:stmt) : bool := match s with SCopy _ _ _ => true | _ => false end.

Definition exec (k:kind) (s:stmt) (c:conn) : conn * option err :=
  match k with
  | TxDDL =>
      match apply_stmt s (current c) with
      | Ok tb => (mkConn (committed c) tb (intx c), None)
      | Err e => (c, Some e)
      end
  | Pysqlite =>
      if is_dml s then
        match apply_stmt s (current c) with
        | Ok tb => (mkConn (committed c) tb true, None)
        | Err e => (mkConn (committed c) (current c) true, Some e)     (* BEGIN was already issued *)
        end
      else
        match apply_stmt s (current c) with
        | Ok tb => if intx c then (mkConn (committed c) tb true, None) else (mkConn tb tb false, None)
        | Err e => (c, Some e)
        end
  | AutoCommitDDL =>
      if is_dml s then
        match apply_stmt s (current c) with
        | Ok tb => (mkConn (committed c) tb true, None)
        | Err e => (mkConn (committed c) (current c) true, Some e)
        end
      else
        match apply_stmt s (current c) with
        | Ok tb => (mkConn tb tb false, None)
        | Err e => (c, Some e)
        end
  | AutoCommit =>
      match apply_stmt s (current c) with
      | Ok tb => (mkConn tb tb false, None)
      | Err e => (c, Some e)
      end
  end.

Definition end_scope (oc:outcome) (c:conn) : tables :=
  match oc with Commit => current c | Rollback => committed c end.

(* ------------------------------------------------------------------ the program of _create *)
Inductive skind := KCreate (n:name) | KCopy (src dst:name) | KDrop (n:name) | KRename (src dst:name) | KIndex (tbl nm:name).
Definition kind_of (s:stmt) : skind :=
  match s with
  | SCreateTable n _ => KCreate n
  | SCopy a b _ => KCopy a b
  | SDropTable n => KDrop n
  | SRename a b => KRename a b
  | SCreateIndex n i => KIndex n (i_name i)
  end.

Inductive prog :=
| PSkip
| PStmt (s:stmt)
| PSeq (p q:prog)
| PRaise (e:err)                     (* Python code between two statements raises *)
| PTry (body handler els:prog).      (* try: body  except: handler; raise  else: els *)

(* interpreter state: the connection, the number of statements sent so far, the statements sent (newest first) *)
Record st := mkSt { s_conn : conn; s_n : nat; s_log : list skind }.

(* `f k = true`: the k-th statement sent (counting the handler's too) raises `inj k` before it reaches the database *)
Definition step (k:kind) (f:nat -> bool) (inj:nat -> err) (s:stmt) (x:st) : st * option err :=
  if f (s_n x) then (mkSt (s_conn x) (S (s_n x)) (kind_of s :: s_log x), Some (inj (s_n x)))
  else let (c, e) := exec k s (s_conn x) in (mkSt c (S (s_n x)) (kind_of s :: s_log x), e).

Fixpoint run (k:kind) (f:nat -> bool) (inj:nat -> err) (p:prog) (x:st) : st * option err :=
  match p with
  | PSkip => (x, None)
  | PRaise e => (x, Some e)
  | PStmt s => step k f inj s x
  | PSeq p q =>
      let (x1, e) := run k f inj p x in
      match e with None => run k f inj q x1 | Some _ => (x1, e) end
  | PTry b h els =>
      let (x1, e) := run k f inj b x in
      match e with
      | None => run k f inj els x1
      | Some e1 =>
          let (x2, e2) := run k f inj h x1 in
          (x2, Some (match e2 with None => e1 | Some e' => e' end))   (* bare `except:`: every exception class; a failing handler raises its own *)
      end
  end.

Definition tmp_prefix : name := [95;97;108;101;109;98;105;99;95;116;109;112;95]%N.   (* "_alembic_tmp_" *)
Definition calc_temp_name (t:name) : name := firstn 50 (tmp_prefix ++ t).

Fixpoint index_prog (t:name) (ixs:list idx) : prog :=
  match ixs with
  | [] => PSkip
  | i :: r => PSeq (PStmt (SCreateIndex t i)) (index_prog t r)
  end.

(* _gather_indexes_from_both_tables, evaluated AFTER the rename and outside the try (`for idx in self._gather_...():`):
   `self.new_table.c[col]` for every column of every index — a column the new table does not have (dropped by the same
   batch, or never there) raises KeyError before the first CREATE INDEX is sent.  Columns are positions in the new table:
   the new table has as many columns as there are transfers. *)
Definition gather_ok (tr:list transfer) (ixs:list idx) : bool :=
  forallb (fun i => forallb (fun c => Nat.ltb c (length tr)) (i_cols i)) ixs.
Definition index_tail (t:name) (tr:list transfer) (ixs:list idx) : prog :=
  if gather_ok tr ixs then index_prog t ixs else PRaise EPython.
Definition create_prog (t tmp:name) (nd:tdef) (tr:list transfer) (ixs:list idx) : prog :=
  PSeq (PStmt (SCreateTable tmp nd))
       (PTry (PSeq (PStmt (SCopy t tmp tr)) (PStmt (SDropTable t)))
             (PStmt (SDropTable tmp))
             (PSeq (PStmt (SRename tmp t)) (index_tail t tr ixs))).

(* ------------------------------------------------------------------ flush *)
(* who ends the transaction: the caller (the batch ran inside the caller's transaction; after the
   exception the caller commits or rolls back), or _ensure_scope_for_ddl itself (connection was not
   in a transaction: `with connection.begin()` commits on success and rolls back on an exception) *)
Inductive scope := Caller (oc:outcome) | OwnScope.
Definition eff_outcome (sc:scope) (e:option err) : outcome :=
  match sc with
  | Caller oc => oc
  | OwnScope => match e with None => Commit | Some _ => Rollback end
  end.

(* `pre`: a transaction is already open when the batch starts (the migration issued DML before) *)
Definition begin_scope (k:kind) (pre:bool) (db:tables) : conn :=
  mkConn db db (match k with TxDDL => true | _ => pre end).

Record result := mkResult { r_err : option err; r_log : list skind; r_mid : tables; r_final : tables }.

Definition run_batch (k:kind) (pre:bool) (db:tables) (t:name) (nd:tdef) (tr:list transfer) (ixs:list idx)
           (f:nat -> bool) (inj:nat -> err) (sc:scope) : result :=
  let tmp := calc_temp_name t in
  let (x, e) := run k f inj (create_prog t tmp nd tr ixs) (mkSt (begin_scope k pre db) 0 []) in
  let fin := end_scope (eff_outcome sc e) (s_conn x) in
  mkResult e (rev (s_log x))
           (match sc with Caller _ => current (s_conn x) | OwnScope => fin end)   (* seen on the same connection before the caller ends the transaction *)
           fin.

Definition faults_of (l:list (nat * err)) : nat -> bool := fun k => existsb (fun p => Nat.eqb k (fst p)) l.
Definition inj_of (l:list (nat * err)) : nat -> err :=
  fun k => match find (fun p => Nat.eqb k (fst p)) l with Some p => snd p | None => EInjected end.
