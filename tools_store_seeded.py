#!/venv/bin/python
"""Store the output of a mutation sub-agent as seeded/<id>/ entries and remove its scratch worktree.
Usage: tools_store_seeded.py <Cxx> <worktree> <suffix>:<patch>:<demo>:<needs text> [...]   (needs text may contain colons)"""
import json
import os
import shutil
import subprocess
import sys

V = os.path.dirname(os.path.abspath(__file__))
prop, wt = sys.argv[1], sys.argv[2]
for spec in sys.argv[3:]:
    suf, patch, demo, needs = spec.split(":", 3)
    d = os.path.join(V, "seeded", "%s-%s" % (prop, suf))
    os.makedirs(d, exist_ok=True)
    shutil.copy(os.path.join(wt, patch), os.path.join(d, "patch.diff"))
    shutil.copy(os.path.join(wt, demo), os.path.join(d, demo))
    json.dump({"id": "%s-%s" % (prop, suf), "property": prop, "demo": demo, "needs_to_manifest": needs,
               "confirmed": "see confirm.json (written by tools_confirm_seeded.sh: demo exit with/without the change, test-suite line with the change)",
               "check_result": "pending"}, open(os.path.join(d, "meta.json"), "w"), indent=1)
    print("stored", d)
subprocess.run(["git", "-C", "/repo", "worktree", "remove", "--force", wt])
for f in os.listdir("/tmp"):
    if f.startswith(os.path.basename(wt)):
        p = os.path.join("/tmp", f)
        shutil.rmtree(p, ignore_errors=True) if os.path.isdir(p) else os.remove(p)
subprocess.run(["git", "-C", "/repo", "worktree", "prune"])
