"""C04 — a failing migration and the version table: real command.upgrade/downgrade on temp script directories whose
migrations raise at a chosen point, on SQLite in default pysqlite mode and with the documented transactional recipe
(isolation_level=None + BEGIN on the `begin` event), vs Model.Txn.txn_run.  A fresh connection reads alembic_version and
sqlite_master afterwards."""
import contextlib
import io
import itertools
import os
import random
import shutil
import tempfile

from harness import coqfmt as cf

PROP = "C04"
COQ = dict(imports=["Spec.C04"], in_ty="uinput", out_ty="output", corr="corr_C04u", decide="check_C04u",
           inclass="inclass_C04u", model="run_u")
THEOREMS = ["C04_decider_sound", "C04_main", "C04_version_rows", "C04_failed_not_recorded", "C04_all_or_nothing",
            "C04_per_migration", "C04_nontransactional", "C04_success", "C04_exception_kind_irrelevant",
            "C04_inconsistent_refuted", "C04g_decider_sound", "C04g_main", "C04_rows_are_heads",
            "C04_failed_upgrade_not_implied", "C04_failed_downgrade_still_implied", "C04_begin_transaction_table",
            "C04_atomicity_table", "C04u_main", "C04u_decider_sound", "C04_decider_complete", "C04_query_irrelevant",
            "C04_multi_db"]
CASE_TIMEOUT = 60
TRUSTED = [
    "the database small-step semantics of Model/Txn.v (TxDDL, ImplicitCommitDDL, Pysqlite) and the SQLAlchemy 2.0 autobegin / "
    "commit / rollback / close behaviour it assumes; TxDDL and Pysqlite are validated against SQLite on every run, "
    "ImplicitCommitDDL (MySQL/Oracle) has no backend in this sandbox and is proved in the model only",
    "the bookkeeping statements of every step are computed inside Coq by the C03 model of HeadMaintainer.update_to_step "
    "(coq/Model/Heads.v); the history (as loaded by the real ScriptDirectory, with the observed normalised dependencies) and the "
    "plan of the real _upgrade_revs/_downgrade_revs are inputs of the model (C15/C16 and C01/C02 are about those)",
    "the database state before the command (after the set-up upgrade) is observed and given to the model as its initial state",
]
ASSUME = [
    "consistent configuration for the theorems: a single enclosing transaction (transactional_ddl=True without "
    "transaction_per_migration, or a caller-held transaction) is not combined with an implicit-commit database",
    "env.py is the stock wrapper: engine.connect() (or engine.begin() for a caller-held transaction), context.configure, "
    "with context.begin_transaction(): context.run_migrations(); failures are Python exceptions "
    "(an Exception subclass, KeyboardInterrupt or SystemExit) raised between statements, inside an autocommit section or in "
    "an on_version_apply callback, not database errors; autocommit sections are not nested",
]
RULE = ("exhaustive small scope: {pysqlite default, transactional recipe} x transactional_ddl {True, unset/False} x "
        "transaction_per_migration x caller-held transaction {no,yes} x {upgrade from base, upgrade from r1, downgrade to base, "
        "downgrade to r1} x linear histories of 1-3 migrations (4 DDL/DML layouts; 6 histories whose upgrade AND downgrade bodies "
        "contain an autocommit_block section, also empty / first / only) x EVERY failure position (before/after each statement, "
        "before and after an autocommit section, before each statement inside it, at its end, and in the on_version_apply "
        "callback after the bookkeeping) plus the run without failure; also TWO databases (two SQLite files, recipe/default) configured one after "
        "the other through ONE EnvironmentContext with different transaction_per_migration / explicit transactional_ddl on each call "
        "and a failure at every position on the later one, and env.py variants that run a query through the context or on the "
        "connection between configure() and begin_transaction(); the exception raised is an Exception subclass, "
        "KeyboardInterrupt or SystemExit (all three for callback failures and 1-migration histories, rotating otherwise); "
        "the same histories and body failure positions are also run through the REAL alembic/templates/generic/env.py of the "
        "tree under test (command.init -t generic, default settings, default pysqlite); thorough adds seeded random histories of up to 5 migrations with up to 4 items and random autocommit sections. "
        "non-trivial = a migration raised; distinct by encoded input")
EXHAUSTIVE = {"quick": True, "thorough": True}
DESIGN_REF = "DESIGN.md section 5 C04"
TECHNIQUE = ("Coq proof (generic over a projection of the database state, induction on the step list, case analysis on which "
             "level opens the transaction) that the modelled begin_transaction/run_migrations/_ProxyTransaction leave exactly the "
             "committed migrations recorded for every failure position, tied to the code by an exact exhaustive small-scope "
             "correspondence on SQLite in two transaction modes")
LEVEL_TEXT = ("Machine-checked for every number of migrations, every body, every failure position and every setting: version rows "
              "after a failed command are the bookkeeping of exactly the migrations whose transaction committed (none with one "
              "enclosing transaction, the completed ones otherwise); with real transactional DDL the whole state equals the state "
              "before the command resp. after the completed migrations. The model is compared exactly with real upgrade/downgrade "
              "runs on SQLite (default pysqlite mode and the transactional recipe) over all small histories and failure positions.")
LEVEL_NOTE = ("Trusted: Coq kernel+vm_compute, the database/driver semantics (validated on SQLite only), the harness. "
              "Implicit-commit DDL is proved over the model, not validated against a server. Branched histories are covered "
              "through the C03 model and theorem (rows = maximal applied revisions of the committed migrations).")

LAYOUTS = [[1, 0], [0, 1], [1, 1], [0]]       # 1 = DDL, 0 = DML ; ("a", [...]) = autocommit section
A1 = [1, ("a", [0, 1]), 0]
A2 = [("a", [1])]
A3 = [0, ("a", [])]
# ("t", [...]) = try: with autocommit_block(): ... except BaseException: pass ; "x" = a statement that always fails
T1 = [0, ("t", [1, "x"]), 0]
EXCS = ["exc", "kbd", "exit"]                # Exception subclass / KeyboardInterrupt / SystemExit


def _mk_rev(j, lay):
    up, p = [], 0

    def st(d):
        nonlocal p
        x = (100 if d else 0) + 10 * j + p
        p += 1
        return [d, "add", x]
    for it in lay:
        if isinstance(it, (tuple, list)):
            up.append([it[0], [("x" if d == "x" else st(d)) for d in it[1]]])
        else:
            up.append(["s"] + st(it))
    dn = []
    for it in reversed(up):
        if it[0] in ("a", "t"):
            inner = [[e[0], "del", e[2]] for e in reversed(it[1]) if e != "x"]
            dn.append([it[0], inner + (["x"] if "x" in it[1] else [])])
        else:
            dn.append(["s", it[1], "del", it[3]])
    return {"up": up, "dn": dn}


def _mk_history(lays):
    return [_mk_rev(j, lay) for j, lay in enumerate(lays, 1)]


def _slots(body):
    """failure points of a body in source order: ("out", t) before item t / after the last item,
    ("in", t, q) inside autocommit section t before its q-th statement / after its last one"""
    out = []
    for t, it in enumerate(body):
        out.append(("out", t))
        if it[0] in ("a", "t"):
            out += [("in", t, q) for q in range(len(it[1]) + 1)]
    out.append(("out", len(body)))
    return out


def _cases_for(revs, tag, all_excs=False, rot=[0]):
    n = len(revs)
    plans = [("upgrade", 0, n)]
    if n >= 2:
        plans.append(("upgrade", 1, n))
    plans.append(("downgrade", n, 0))
    if n >= 2:
        plans.append(("downgrade", n, 1))
    for cmd, frm, to in plans:
        order = list(range(frm + 1, to + 1)) if cmd == "upgrade" else list(range(frm, to, -1))
        fails = [None]
        for k, j in enumerate(order):
            body = revs[j - 1]["up" if cmd == "upgrade" else "dn"]
            fails += [[k, "slot", p] for p in range(len(_slots(body)))] + [[k, "cb", 0]]
        fails = [None if f is None else [order[f[0]], f[1], f[2]] for f in fails]      # [revision, where, slot]
        pre = "r%d" % frm if frm > 0 else None
        target = ("r%d" % to) if to > 0 else "base"
        for fail in fails:
            for kind, tddl, tpm, ext in itertools.product(["pysqlite", "txddl"], [True, False], [False, True], [False, True]):
                if fail is None:
                    excs = ["exc"]
                elif all_excs or fail[1] == "cb":
                    excs = EXCS
                else:
                    rot[0] += 1
                    excs = [EXCS[rot[0] % 3]]
                for exc in excs:
                    yield {"kind": kind, "tddl": tddl, "tpm": tpm, "external": ext, "cmd": cmd, "pre": pre, "target": target,
                           "revs": revs, "fail": fail, "exc": exc, "tag": tag}


# branched histories: parents (down_revision) and depends_on per revision, body layout per revision
BRANCHED = {
    "branch": ([([], []), ([1], []), ([1], [])], [[1], [0], [1, 0]]),
    "merge": ([([], []), ([1], []), ([1], []), ([2, 3], [])], [[1], [0], [1], [0, ("a", [1])]]),
    "roots": ([([], []), ([], []), ([1], [])], [[1, 0], [1], [0]]),
    "depends": ([([], []), ([], [1]), ([2], [])], [[1], [0, 1], [1]]),
}


def _branched_cases(name, rot):
    parents, lays = BRANCHED[name]
    revs = _mk_history(lays)
    for r, (down, deps) in zip(revs, parents):
        r["down"], r["deps"] = down, deps
    n = len(revs)
    plans = [("upgrade", None, "heads"), ("upgrade", "r2", "heads"), ("downgrade", "heads", "base")]
    if name in ("branch", "merge"):
        plans.append(("downgrade", "heads", "r1"))
    for cmd, pre, target in plans:
        fails = [None]
        for j in range(1, n + 1):
            body = revs[j - 1]["up" if cmd == "upgrade" else "dn"]
            fails += [[j, "slot", p] for p in range(len(_slots(body)))] + [[j, "cb", 0]]
        for fail in fails:
            for kind, tddl, tpm, ext in itertools.product(["pysqlite", "txddl"], [True, False], [False, True], [False, True]):
                rot[0] += 1
                yield {"kind": kind, "tddl": tddl, "tpm": tpm, "external": ext, "cmd": cmd, "pre": pre, "target": target,
                       "revs": revs, "fail": fail, "exc": "exc" if fail is None else EXCS[rot[0] % 3], "tag": "branched-" + name}


def _template_cases(revs, tag, rot):
    """the REAL alembic/templates/generic/env.py of the tree under test (command.init), default settings"""
    for c in _cases_for(revs, tag, False, rot):
        if c["kind"] == "pysqlite" and c["tddl"] is False and c["tpm"] is False and c["external"] is False \
                and (c["fail"] is None or c["fail"][1] != "cb"):
            c = dict(c)
            c["env"] = "template"
            yield c


def _sql_cases(revs, tag, rot):
    """--sql runs against the same database file: whatever fails, the database must not change"""
    for c in _cases_for(revs, tag, False, rot):
        if c["kind"] == "pysqlite" and c["external"] is False:
            c = dict(c)
            c["sql"] = True
            yield c


def _dup_cases(revs, tag):
    """the bookkeeping itself raises: the version table (created without primary key) holds the current revision twice,
    so the UPDATE / DELETE of update_to_step matches two rows and HeadMaintainer raises CommandError"""
    n = len(revs)
    for cmd, frm, to in (("upgrade", 1, n), ("downgrade", n, 0), ("downgrade", n, n - 1)):
        if frm == to or frm < 1:
            continue
        for kind, tddl, tpm, ext in itertools.product(["pysqlite", "txddl"], [True, False], [False, True], [False, True]):
            yield {"kind": kind, "tddl": tddl, "tpm": tpm, "external": ext, "cmd": cmd, "pre": "r%d" % frm,
                   "target": ("r%d" % to) if to > 0 else "base", "revs": revs, "fail": None, "exc": "exc", "tag": tag, "dup": True}


def _multi_cases(revs, tag, rot):
    """two databases (two SQLite files) configured one after the other through ONE EnvironmentContext with different
    transaction_per_migration / transactional_ddl on each call; a failure at every position on the later database"""
    base = [c for c in _cases_for(revs, tag, False, rot)
            if c["kind"] == "pysqlite" and c["tddl"] is False and c["tpm"] is False and c["external"] is False
            and (c["pre"] is None or c["target"] == "base")]
    kinds = [("pysqlite", "txddl"), ("txddl", "pysqlite")]
    ovs = [("unset", "unset"), (True, "unset"), ("unset", True), (False, True)]
    for c in base:
        for (k1, k2), (t1, t2), p1, p2 in itertools.product(kinds, ovs, [False, True], [False, True]):
            for k in ((0, 1) if c["fail"] is None else (1,)):
                c2 = dict(c)
                c2["multi"] = [{"kind": k1, "tddl": t1, "tpm": p1}, {"kind": k2, "tddl": t2, "tpm": p2}]
                c2["k"] = k
                c2["tag"] = tag
                yield c2


def _query_cases(revs, tag, rot):
    """env.py runs a query through the context / on the connection between configure() and begin_transaction()"""
    for c in _cases_for(revs, tag, False, rot):
        if not c["external"]:
            for q in ("context", "connection"):
                c2 = dict(c)
                c2["query"] = q
                yield c2


def _shared_cases(revs, tag, rot):
    """SEARCH STREAM ONLY: one engine.connect() connection shared between `current` and the command"""
    for c in _cases_for(revs, tag, False, rot):
        if not c["external"]:
            c2 = dict(c)
            c2["shared"] = True
            yield c2


def _rand_history(rnd):
    n = rnd.randint(1, 5)
    lays = []
    for j in range(n):
        lay = []
        for _ in range(rnd.randint(0, 4)):
            if rnd.random() < 0.3:
                if rnd.random() < 0.35:
                    lay.append(("t", [rnd.randint(0, 1) for _ in range(rnd.randint(0, 2))] + (["x"] if rnd.random() < 0.7 else [])))
                else:
                    lay.append(("a", [rnd.randint(0, 1) for _ in range(rnd.randint(0, 2))]))
            else:
                lay.append(rnd.randint(0, 1))
        lays.append(lay)
    return _mk_history(lays)


def generate(tier, seed):
    rot = [seed]
    P = LAYOUTS
    hs = [([P[o]], "n1", o == 0) for o in range(4)]
    hs += [([P[o], P[(o + 1) % 4]], "n2", False) for o in (0,)]
    hs += [([A1], "n1-auto", True), ([A2], "n1-auto", False), ([A3], "n1-auto", False)]
    hs += [([P[1], A1], "n2-auto", False)]
    hs += [([P[0], A1, P[3]], "n3-auto", False)]
    hs += [([P[1], T1], "n2-try", False), ([P[0], T1, P[3]], "n3-try", False)]
    for lays, tag, allx in hs:
        yield from _cases_for(_mk_history(lays), tag, allx, rot)
    for lays, tag, allx in hs:
        yield from _template_cases(_mk_history(lays), tag + "-template", rot)
    for name in BRANCHED:
        yield from _branched_cases(name, rot)
    for lays, tag in (([P[0], P[1]], "n2"), ([P[1], A1], "n2-auto")):
        yield from _sql_cases(_mk_history(lays), tag + "-sql", rot)
    yield from _multi_cases(_mk_history([P[0], P[1]]), "n2-multidb", rot)
    yield from _query_cases(_mk_history([P[0], P[1]]), "n2-query", rot)
    for lays, tag in (([P[0], P[1]], "n2"), ([P[2], A1], "n2-auto"), ([P[0], A1, P[3]], "n3-auto")):
        yield from _dup_cases(_mk_history(lays), tag + "-dup")
    if tier == "thorough":
        rnd = random.Random(seed * 7919 + 4)
        for _ in range(60):
            revs = _rand_history(rnd)
            cs = list(_cases_for(revs, "random", False, rot))
            for c in rnd.sample(cs, min(len(cs), 400)):
                yield c
            ts = list(_template_cases(revs, "random-template", rot))
            for c in rnd.sample(ts, min(len(ts), 40)):
                yield c


def search(tier, seed):
    rnd = random.Random(seed * 104729 + 4)
    rot = [seed]
    yield from _shared_cases(_mk_history([LAYOUTS[0], LAYOUTS[1]]), "n2-shared", rot)
    for _ in range(25):
        revs = _rand_history(rnd)
        cs = list(_cases_for(revs, "random", False, rot))
        for c in rnd.sample(cs, min(len(cs), 300)):
            yield c


class Boom(Exception):
    pass


ENV_PY = '''
from alembic import context
import sqlalchemy as sa
from sqlalchemy import event
a = context.config.attributes


def _engine(url, kind):
    eng = sa.create_engine(url, poolclass=sa.pool.NullPool)
    if kind == "txddl":
        # the documented recipe for real transactional DDL on pysqlite
        @event.listens_for(eng, "connect")
        def _connect(dbapi_connection, rec):
            dbapi_connection.isolation_level = None

        @event.listens_for(eng, "begin")
        def _begin(conn):
            conn.exec_driver_sql("BEGIN")
    return eng


def _cb(ctx, step, heads, run_args):
    f = a.get("fail")
    if f and f[2] == "cb" and step.up_revision_id == f[0] and (len(f) < 4 or f[3] == a.get("cur", 0)):
        raise a["exc"]("boom")


def _go(connection, kw):
    context.configure(connection=connection, on_version_apply=_cb, version_table_pk=a.get("pk", True), **kw)
    q = a.get("query")
    if q == "context":            # e.g. env.py logs the current heads before it starts
        context.get_context().get_current_heads()
    elif q == "connection":
        connection.execute(sa.text("select 1"))
    with context.begin_transaction():
        context.run_migrations()


_kw = dict(transaction_per_migration=a.get("tpm", False), transactional_ddl=a.get("tddl"))
if context.is_offline_mode():
    # --sql: the script goes to config.output_buffer; no connection is made
    context.configure(url=a["url"], literal_binds=True, on_version_apply=_cb, **_kw)
    with context.begin_transaction():
        context.run_migrations()
elif a.get("connection") is not None:
    # a connection the caller made with engine.connect() and shares between commands (cookbook: sharing a connection)
    _go(a["connection"], _kw)
elif a.get("dbs"):
    # several databases through ONE EnvironmentContext (the multidb env.py, online)
    for idx, db in enumerate(a["dbs"]):
        a["cur"] = idx
        eng = _engine(db["url"], db["kind"])
        try:
            with eng.connect() as connection:
                _go(connection, db["kw"])
        finally:
            eng.dispose()
else:
    eng = _engine(a["url"], a["kind"])
    try:
        if a["external"]:
            with eng.begin() as connection:
                _go(connection, _kw)
        else:
            with eng.connect() as connection:
                _go(connection, _kw)
    finally:
        eng.dispose()
'''


def _sql(st):
    d, what, x = st
    if d:
        return "CREATE TABLE t_%d (v INTEGER)" % x if what == "add" else "DROP TABLE t_%d" % x
    return "INSERT INTO log (v) VALUES (%d)" % x if what == "add" else "DELETE FROM log WHERE v = %d" % x


def _fn(name, direction, body):
    lines, n = [], 0
    for it in body:
        lines.append("    _f(%r, %d)" % (direction, n))
        n += 1
        if it[0] in ("a", "t"):
            ind = "    " if it[0] == "a" else "        "
            if it[0] == "t":
                lines.append("    try:")
            lines.append(ind + "with op.get_context().autocommit_block():")
            for st in it[1]:
                lines.append(ind + "    _f(%r, %d)" % (direction, n))
                n += 1
                # "x": a statement the database rejects (the table exists): the `index may already exist` idiom
                lines.append(ind + "    op.execute(%r)" % ("CREATE TABLE log (v INTEGER)" if st == "x" else _sql(st)))
            lines.append(ind + "    _f(%r, %d)" % (direction, n))
            n += 1
            if it[0] == "t":
                lines.append("    except BaseException:")
                lines.append("        pass")
        else:
            lines.append("    op.execute(%r)" % _sql(it[1:]))
    lines.append("    _f(%r, %d)" % (direction, n))
    return "def %s():\n%s\n" % (name, "\n".join(lines))


def _state(url):
    import sqlalchemy as sa
    e = sa.create_engine(url, poolclass=sa.pool.NullPool)
    try:
        with e.connect() as c:
            tabs = sorted(r[0] for r in c.execute(sa.text("select name from sqlite_master where type='table'")))
            vt = "alembic_version" in tabs
            rows = sorted(int(r[0][1:]) for r in c.execute(sa.text("select version_num from alembic_version"))) if vt else []
            effs = sorted([int(t[2:]) for t in tabs if t.startswith("t_")] +
                          [int(r[0]) for r in c.execute(sa.text("select v from log"))])
            unknown = [t for t in tabs if not (t.startswith("t_") or t in ("alembic_version", "log"))]
            if unknown:
                raise RuntimeError("unexpected tables %r" % unknown)
    finally:
        e.dispose()
    return {"vt": vt, "rows": rows, "effs": effs}


def _db(s):
    return "(mkDb %s %s %s)" % (cf.nlist(s["effs"]), cf.boolean(s["vt"]), cf.nlist(s["rows"]))


def _stmt(st):
    d, what, x = st
    return "%s (%s %d)" % ("DDL" if d else "DML", "Txn.Add" if what == "add" else "Txn.Del", x)


def _coq_body(body, slot):
    """the body as list bitem, with the raise put where the failing slot is"""
    items = []
    for t, it in enumerate(body):
        if slot == ("out", t):
            items.append("BRaise")
        if it[0] in ("a", "t"):
            inner = []
            for q, st in enumerate(it[1]):
                if slot == ("in", t, q):
                    inner.append("ARaise")
                inner.append("ARaise" if st == "x" else "AStmt (%s)" % _stmt(st))
            if slot == ("in", t, len(it[1])):
                inner.append("ARaise")
            items.append("%s %s" % ("BAuto" if it[0] == "a" else "BTry", cf.lst(inner)))
        else:
            items.append("BStmt (%s)" % _stmt(it[1:]))
    if slot == ("out", len(body)):
        items.append("BRaise")
    return cf.lst(items)


def _parents(xs):
    xs = ["r%d" % x for x in xs]
    return None if not xs else (xs[0] if len(xs) == 1 else tuple(xs))


def _normalise(h):
    """corpus / replay files written before the plan was taken from the real planner: linear history, from/to, fail by position"""
    if "pre" in h:
        return h
    h = dict(h)
    frm, to = h.pop("from"), h.pop("to")
    order = list(range(frm + 1, to + 1)) if h["cmd"] == "upgrade" else list(range(frm, to, -1))
    h["pre"] = "r%d" % frm if frm > 0 else None
    h["target"] = ("r%d" % to) if to > 0 else "base"
    if h.get("fail") is not None:
        k, where, p = h["fail"]
        h["fail"] = [order[k], "cb" if where == "cb" else "slot", p]
    return h


def run_case(h):
    h = _normalise(h)
    multi = h.get("multi")
    if multi:
        # the case is database h["k"] of several configured through one EnvironmentContext; the failure is on the last one
        h = dict(h)
        kk = h["k"]
        h["kind"], h["tpm"] = multi[kk]["kind"], multi[kk]["tpm"]
        args = [None if m["tddl"] == "unset" else m["tddl"] for m in multi[:kk + 1]]
        h["tddl_term"] = "(eff_tddl_multi false %s)" % cf.lst(cf.opt(x, cf.boolean) for x in args)
        acc = None
        for x in args:
            acc = x if x is not None else acc
        h["tddl"] = acc
        h["external"] = False
        if kk != len(multi) - 1:
            h["model_fail"] = None
    if h.get("shared"):
        h = dict(h)
        h["external"] = True          # what Alembic sees: the connection is already in a transaction
    import logging
    import sqlite3
    import warnings
    from alembic import command
    from alembic.config import Config
    logging.disable(logging.CRITICAL)
    warnings.simplefilter("ignore")
    revs = h["revs"]
    exc_cls = {"exc": Boom, "kbd": KeyboardInterrupt, "exit": SystemExit}[h.get("exc", "exc")]
    d = tempfile.mkdtemp(prefix="avc04", dir="/dev/shm" if os.path.isdir("/dev/shm") and os.access("/dev/shm", os.W_OK) else None)
    try:
        template = h.get("env") == "template"
        if template:
            # the stock environment: alembic init -t generic, from the tree under test
            ini = os.path.join(d, "alembic.ini")
            c_init = Config(ini)
            c_init.stdout = io.StringIO()
            sdir = os.path.join(d, "scripts")
            c_init.set_main_option("script_location", sdir)
            with contextlib.redirect_stdout(io.StringIO()):
                command.init(c_init, sdir, template="generic")
            src = os.path.join(os.path.dirname(os.path.realpath(command.__file__)), "templates", "generic", "env.py")
            if open(src).read() != open(os.path.join(sdir, "env.py")).read():
                raise RuntimeError("command.init did not copy the generic env.py of the tree under test")
            vdir = os.path.join(sdir, "versions")
        else:
            os.makedirs(os.path.join(d, "versions"))
            open(os.path.join(d, "script.py.mako"), "w").write("")
            open(os.path.join(d, "env.py"), "w").write(ENV_PY)
            vdir = os.path.join(d, "versions")
        for j, r in enumerate(revs, 1):
            open(os.path.join(vdir, "r%d.py" % j), "w").write(
                "from alembic import op, context\nrevision = 'r%d'\ndown_revision = %r\ndepends_on = %r\n\n"
                "def _f(direction, p):\n"
                "    f = context.config.attributes.get('fail')\n"
                "    if f and f[0] == revision and f[1] == direction and f[2] == p and \\\n"
                "            (len(f) < 4 or f[3] == context.config.attributes.get('cur', 0)):\n"
                "        raise context.config.attributes['exc']('boom')\n\n%s\n%s" % (
                    j, _parents(r.get("down", [j - 1] if j > 1 else [])), _parents(r.get("deps", [])),
                    _fn("upgrade", "up", r["up"]), _fn("downgrade", "dn", r["dn"])))
        paths = [os.path.join(d, "db%d.sqlite" % n) for n in range(len(multi))] if multi else [os.path.join(d, "db.sqlite")]
        for pth in paths:
            con = sqlite3.connect(pth)
            con.execute("CREATE TABLE log (v INTEGER)")
            con.commit()
            con.close()
        path = paths[h["k"]] if multi else paths[0]
        url = "sqlite:///" + path

        def cfg(fail):
            if template:
                c = Config(ini)
                c.stdout = io.StringIO()
                c.set_main_option("script_location", sdir)
                c.set_main_option("sqlalchemy.url", url)
            else:
                c = Config()
                c.set_main_option("script_location", d)
            c.attributes.update(url=url, kind=h["kind"], tpm=h["tpm"], tddl=h["tddl"], external=h["external"],
                                fail=fail, exc=exc_cls, pk=not h.get("dup"), query=h.get("query"))
            if multi:
                c.attributes["dbs"] = [{"url": "sqlite:///" + pth, "kind": m["kind"],
                                        "kw": dict([("transaction_per_migration", m["tpm"])] +
                                                   ([] if m["tddl"] == "unset" else [("transactional_ddl", m["tddl"])]))}
                                       for pth, m in zip(paths, multi)]
            c.output_buffer = io.StringIO()
            c.stdout = io.StringIO()
            return c

        # set-up: bring the database to the starting revision (a run without failure, default settings)
        if h["pre"] is not None:
            if template:          # set-up with the harness's own env.py, in a second script directory over the same versions
                c0 = Config()
                s0 = os.path.join(d, "setup")
                os.makedirs(s0)
                open(os.path.join(s0, "script.py.mako"), "w").write("")
                open(os.path.join(s0, "env.py"), "w").write(ENV_PY)
                c0.set_main_option("script_location", s0)
                c0.set_main_option("version_locations", vdir)
                c0.attributes.update(url=url, kind="pysqlite", fail=None, exc=exc_cls)
            else:
                c0 = cfg(None)
            c0.attributes.update(tpm=True, tddl=None, external=False, query=None, dbs=None)
            for pth in paths:
                c0.attributes.update(url="sqlite:///" + pth, kind="pysqlite")
                command.upgrade(c0, h["pre"])
        if h.get("dup"):
            # a second copy of every current row (the table was created without primary key)
            con = sqlite3.connect(path)
            con.execute("INSERT INTO alembic_version SELECT version_num FROM alembic_version")
            con.commit()
            con.close()
        before = _state(url)

        up = h["cmd"] == "upgrade"
        # the plan of the REAL planner (C01/C02) and the history as the REAL loader sees it (C15/C16): inputs of the model
        from alembic.script import ScriptDirectory
        script = ScriptDirectory.from_config(cfg(None))
        heads0 = tuple("r%d" % x for x in before["rows"])
        plan = list(script._upgrade_revs(h["target"], heads0) if up else script._downgrade_revs(h["target"], heads0))
        order = [(int(st.revision.revision[1:]), bool(st.is_upgrade)) for st in plan]
        num = lambda xs: [int(x[1:]) for x in xs]
        graph = []
        for j in range(1, len(revs) + 1):
            r = script.revision_map.get_revision("r%d" % j)
            graph.append({"id": j, "down": num(r._versioned_down_revisions), "deps": sorted(num(r._resolved_dependencies)),
                          "ndeps": num(r._normalized_resolved_dependencies)})
        fail = None
        if h["fail"] is not None:
            j, where, p = h["fail"]
            fail = ("r%d" % j, "up" if up else "dn", "cb" if where == "cb" else p)
            if multi:
                fail = fail + (len(multi) - 1,)
        raised = None
        shared_conn = shared_eng = None
        if h.get("shared"):
            # the caller shares ONE engine.connect() connection (no begin()) between two commands
            import sqlalchemy as sa
            from sqlalchemy import event
            shared_eng = sa.create_engine(url, poolclass=sa.pool.NullPool)
            if h["kind"] == "txddl":
                @event.listens_for(shared_eng, "connect")
                def _connect(dbapi_connection, rec):
                    dbapi_connection.isolation_level = None

                @event.listens_for(shared_eng, "begin")
                def _begin(conn):
                    conn.exec_driver_sql("BEGIN")
            shared_conn = shared_eng.connect()
        sql = bool(h.get("sql"))
        spec = h["target"]
        if sql:
            spec = "%s:%s" % (h["pre"], h["target"]) if (h["pre"] is not None or not up) else h["target"]
        from alembic import util as _util
        try:
            cc = cfg(fail)
            if shared_conn is not None:
                cc.attributes["connection"] = shared_conn
                command.current(cc)             # read-only, yet it leaves its autobegun transaction open
            if up:
                command.upgrade(cc, spec, sql=sql)
            else:
                command.downgrade(cc, spec, sql=sql)
        except _util.CommandError:
            if not h.get("dup"):
                raise
            raised = "CommandError"           # HeadMaintainer: the bookkeeping statement did not match exactly one row
        except Boom:
            raised = "Boom"
        except KeyboardInterrupt:
            raised = "KeyboardInterrupt"
        except SystemExit:
            raised = "SystemExit"
        except AssertionError:
            raised = "AssertionError"         # autocommit_block() under a caller-held transaction
        if shared_conn is not None:
            shared_conn.close()
            shared_eng.dispose()
            shared_conn = None
        after = _state(url)
    finally:
        shutil.rmtree(d, ignore_errors=True)

    steps = []
    has_auto = False
    mfail = h.get("model_fail", h["fail"])
    for j, isup in order:
        body = revs[j - 1]["up" if isup else "dn"]
        has_auto = has_auto or any(it[0] in ("a", "t") for it in body)
        slot, cb = None, False
        if mfail is not None and mfail[0] == j:
            if mfail[1] == "cb":
                cb = True
            else:
                slot = _slots(body)[mfail[2]]
        steps.append("mkMstep %d %s %s %s" % (j, cf.boolean(isup), _coq_body(body, slot), cf.boolean(cb)))
    eff_tddl = bool(h["tddl"])          # SQLiteImpl.transactional_ddl = False unless overridden
    cin = "(mkUin (mkGin %s %s %s %s %s %s %s %s) %s)" % (
        cf.graph(graph), "TxDDL" if h["kind"] == "txddl" else "Pysqlite", h.get("tddl_term") or cf.boolean(eff_tddl),
        cf.boolean(h["tpm"]),
        cf.boolean(h["external"]), cf.lst(steps), _db(before),
        {"exc": "ExcException", "kbd": "ExcKeyboardInterrupt", "exit": "ExcSystemExit"}[h.get("exc", "exc")],
        cf.boolean(sql))
    ran = bool(h.get("dup")) or mfail is not None and any(j == mfail[0] for j, _ in order)
    cout = "(mkOut %s %s)" % (_db(after), cf.boolean(raised is not None))
    one = h["external"] or (eff_tddl and not h["tpm"])
    shape = "%s%s%s-%s-%s%s-%s" % ("generic-template-" if h.get("env") == "template" else "",
                                   ("branched-" if h["tag"].startswith("branched") else "") + ("sql-" if sql else "") +
                                   ("dup-rows-" if h.get("dup") else "") + ("multidb%d-" % h["k"] if multi else "") +
                                   ("query-%s-" % h["query"] if h.get("query") else "") + ("shared-conn-" if h.get("shared") else ""),
                                   h["kind"], h["cmd"],
                                   "one-txn" if one else "per-migration", "-autocommit" if has_auto else "",
                               "ok" if not ran else ("fail-bookkeeping" if mfail is None else "fail-cb" if mfail[1] == "cb" else "fail-body") +
                               ("" if h.get("exc", "exc") == "exc" else "-BaseException"))
    return dict(cin=cin, cout=cout, out={"before": before, "after": after, "raised": raised},
                nontrivial=ran, shape=shape)


def canary(human, rec):
    """deliberately corrupted observations the decider must reject: a version row too many (e.g. the failed revision kept),
    a version row lost, the raised flag flipped, and - where the schema is claimed - a durable effect too many"""
    out = rec.get("out") or {}
    after = out.get("after")
    if after is None:
        return []
    raised = out.get("raised") is not None
    mk = lambda a, r: "(mkOut %s %s)" % (_db(a), cf.boolean(r))
    rows = list(after["rows"])
    extra = max(rows + [len(human["revs"])]) + 1
    outs = [mk(dict(after, rows=rows + [extra]), raised), mk(after, not raised)]
    if rows:
        outs.append(mk(dict(after, rows=[r for r in rows if r != rows[0]]), raised))
    if human.get("sql") or (human["kind"] == "txddl" and "autocommit" not in rec.get("shape", "")):
        outs.append(mk(dict(after, effs=list(after["effs"]) + [999]), raised))
    return outs


def classify(human, out):
    return None
