"""C16 — revision identifier resolution: real RevisionMap / ScriptDirectory lookups vs Model.Resolve.run.

One case = (history, order oracle of _add_branches, current revisions, a batch of identifier strings);
the observable is, per identifier string, the outcome of five real entry points
  ScriptDirectory.get_revisions / get_revision / as_revision_number  and
  RevisionMap._parse_upgrade_target / _parse_downgrade_target under ScriptDirectory._catch_revision_errors
as a tuple of resolved ids ('base' / None kept apart) or the exception CLASS (CommandError split by the
class of its __cause__: MultipleHeads / ResolutionError / RangeNotAncestorError / other RevisionError),
plus Revision.branch_labels of every revision after the load (what _add_branches propagated).
"""
import random
import re

from harness import coqfmt as cf

PROP = "C16"
COQ = dict(imports=["Model.Resolve", "Spec.C16"], in_ty="c16_in", out_ty="c16_out",
           corr="corr_C16", decide="check_C16", model="run")
THEOREMS = ["C16_decider_sound", "C16_regex_char", "C16_full_id", "C16_prefix_partial", "C16_prefix_complete",
            "C16_prefix_refuted", "C16_symbolic", "C16_relative", "C16_never_outside_branch",
            "C16_model_holds_full_ids", "C16_reference_meaning", "C16_downgrade_label_relative",
            "C16_downgrade_label_refuted", "C16_model_holds", "C16_labels_invariant", "C16_labels_single",
            "C16_labels_ok"]
TRUSTED = [
    "order oracle: the iteration order of the has_branch_labels set and the last-yielded descendant used by "
    "RevisionMap._add_branches are observed from the real run (same objects, same process) and handed to the model, "
    "which checks admissibility (a permutation of the labelled revisions; a descendant-or-self of the labelled revision)",
    "hand model of the regular expression _relative_destination (ASCII \\w and \\d only) and of int() on ASCII digit strings",
    "dependencies are given to the model already as revision ids (depends_on naming a branch label is C17's loader)",
]
ASSUME = [
    "wf history: distinct ids, every down_revision/depends_on names an existing revision, acyclic (a topological rank exists); "
    "cycle detection is C15's and is not re-modelled here",
    "identifier strings are ASCII printable without whitespace; ids and labels of the theorems consist of word characters",
    "current revisions handed to the relative forms are full revision ids",
]
RULE = ("every case's lookups are run TWICE on the real code: on the loaded map (compared with the model) and on a map built "
        "incrementally (half loaded, the rest by RevisionMap.add_revision, parents first), whose answers must be the loaded map's "
        "(multi-results as sets) - a differing answer replaces the loaded one in the observation and fails the comparison || "
        "10 fixed histories (design-time witnesses, all-digit ids 0/0000/0001, label-propagation shapes) + a 13-deep linear history with offsets of "
        "one to three digits (id+10, label@id+11, -12, +25 ...) + seeded random histories (quick 90, thorough 1400) "
        "of 1-5 revisions (thorough: up to 6) whose ids are strings of length 2-6 over {a,b,c} (every fifth history: over {0,1,a} "
        "with the all-digit ids 0, 00, 0000, 0001, 1, 12, 007, 10 mixed in) built to "
        "collide on prefixes (ids that are prefixes of other ids and of labels), 0-2 branch labels (sometimes colliding with an id "
        "or each other -> load error), random load order, 0-2 down revisions, occasional depends_on; for each history EVERY "
        "identifier string of the grammar {id, every proper prefix of every id and label, label, head, heads, base, x@y with x in "
        "names and y in names + head/heads/base/+-1/+-2, name+-1, name+-2, +-1, +-2, a fixed junk list, label@id+-N} in batches of <=16 "
        "(batches are split by the two recorded finding classes so that a known deviation cannot mask a new one), the "
        "current-relative forms additionally under every single current revision, all heads and a random pair. "
        "non-trivial = at least one entry point resolved at least one string of the batch to a revision; distinct by encoded case")
EXHAUSTIVE = {"quick": False, "thorough": False}
CASE_TIMEOUT = 60
DESIGN_REF = "DESIGN.md section 5 C16"
TECHNIQUE = ("Coq proofs about an executable Gallina model of the string-level revision lookup (regex matcher characterised, "
             "closure/lineage lemmas, walk invariants) against a reference resolution written from the documentation; tied to the "
             "code by an exact, per-history grammar-exhaustive correspondence evaluated with vm_compute")
LEVEL_TEXT = ("Machine-checked theorems for all histories with a topological rank and all identifier strings of the documented "
              "grammar: full ids, unique prefixes (under ids of >=4 characters and no label-prefix clash; refuted otherwise), "
              "head/heads/base/label@head/label@id, relative walks (distance, branch, ambiguity -> RevisionError) and branch "
              "membership of label@x results, for the model of RevisionMap's lookup functions; the model is compared exactly with "
              "the real functions on every identifier string of the grammar for each generated history.")
LEVEL_NOTE = ("Trusted: Coq kernel+vm_compute, the hand-written model (tied by a seeded, per-history grammar-exhaustive correspondence), "
              "the observed order oracle of _add_branches, the Python encoders. Not modelled: cycle detection, loading from files, "
              "non-ASCII identifiers.")

ALPHA = "abc"
BATCH = 16
JUNK = ["0", "00", "0000", "0001", "7", "12", "007", "0@head", "12@0", "0+1", "0-1", "12-0", "+00", "-00", "a@0", "a@-0", "a@+0",
        "", "@", "+", "-", "+1x", "a+", "a-b", "a@b@c", "a@b@c+1", "@head", "head@", "heads@head", "head@head", "base@base",
        "12", "-0", "+0", "a.b+1", "a b", "head-1", "head+1", "base+1", "base-1", "heads-1", "1_0", "-1_0", "zzzz", "zzzz@head",
        "zzzz+1", "head@heads", "a@", "@a", "a@+", "a@-1x", "a@head+1", "a@base+1"]


def S(s):
    """a string as a list of the character constants c32..c126 of Spec.C16 (a numeral costs coqc ~100us to read, a
    constant ~30us; reading the case files dominated the run)"""
    return "[" + "; ".join(("c%d" % ord(c)) if 32 <= ord(c) <= 126 else str(ord(c)) for c in s) + "]"


# ----------------------------------------------------------------------------- generator

def rand_id(rnd, pool, alpha=ALPHA):
    """a string of length 2-6 over ALPHA, biased to share prefixes with the strings already in pool"""
    for _ in range(50):
        if pool and rnd.random() < 0.75:
            b = rnd.choice(pool)
            k = rnd.random()
            if k < 0.35 and len(b) > 2:
                s = b[:rnd.randint(2, len(b) - 1)]
            elif k < 0.75 and len(b) < 6:
                s = b + "".join(rnd.choice(alpha) for _ in range(rnd.randint(1, 6 - len(b))))
            else:
                j = rnd.randrange(len(b))
                s = b[:j] + rnd.choice(alpha) + b[j + 1:]
        else:
            s = "".join(rnd.choice(alpha) for _ in range(rnd.randint(2, 6)))
        if 2 <= len(s) <= 6:
            return s
    return "abca"


DIGIT_IDS = ["0", "00", "0000", "0001", "1", "12", "007", "10"]


def rand_history(rnd, nmax, long_ids=False, alpha=ALPHA):
    n = rnd.randint(1, nmax)
    ids = []
    while len(ids) < n:
        s = rand_id(rnd, ids, alpha)
        if alpha != ALPHA and not long_ids and rnd.random() < 0.45:
            s = rnd.choice(DIGIT_IDS)      # ids that int() accepts: zero, leading zeros, positive integers
        if long_ids and len(s) < 4:
            s = (s + "abca")[:rnd.randint(4, 6)]
        if s not in ids:
            ids.append(s)
    topo = list(ids)
    rnd.shuffle(topo)
    down, deps = {}, {}
    for k, x in enumerate(topo):
        earlier = topo[:k]
        d, p = [], []
        if earlier and rnd.random() < 0.85:
            d = rnd.sample(earlier, 1 if rnd.random() > 0.25 else min(len(earlier), 2))
        rest = [y for y in earlier if y not in d]
        if rest and rnd.random() < 0.2:
            p = [rnd.choice(rest)]
        down[x], deps[x] = d, p
    nlab = rnd.choice([0, 1, 1, 2, 2])
    labels = {x: [] for x in ids}
    pool = list(ids)
    used = []
    for _ in range(nlab):
        lab = rand_id(rnd, pool + used, alpha)
        if long_ids and len(lab) < 4:
            lab = (lab + "cbac")[:rnd.randint(4, 6)]
        collide = rnd.random() < 0.04
        if not collide and (lab in ids or lab in used):
            continue
        used.append(lab)
        labels[rnd.choice(ids)].append(lab)
    return [{"id": x, "down": down[x], "deps": deps[x], "labels": labels[x]} for x in ids]


def names_of(revs):
    ids = [r["id"] for r in revs]
    labs = [l for r in revs for l in r["labels"]]
    out = []
    for s in ids + labs:
        for k in range(1, len(s) + 1):
            if s[:k] not in out:
                out.append(s[:k])
    return out


def affected_name(revs, n):
    """the recorded deviation class: the documented candidates (ids starting with n) differ from the candidates the
    code looks at (map keys longer than 3 characters, branch labels included) -- only for names that are not keys"""
    ids = [r["id"] for r in revs]
    keys = ids + [l for r in revs for l in r["labels"]]
    if n in keys or n == "" or n in ("head", "heads", "base"):
        return False
    return [x for x in ids if x.startswith(n)] != [k for k in keys if len(k) > 3 and k.startswith(n)]


def name_parts(q):
    """the name components of an identifier string, as the documentation reads it"""
    parts = q.split("@")
    out = []
    for p in parts:
        for sg in "+-":
            if sg in p:
                p = p[:p.index(sg)]
        out.append(p)
    return out


def affected(revs, q):
    return any(affected_name(revs, n) for n in name_parts(q))


def queries_for(revs, rnd, full=True):
    names = names_of(revs)
    sym = ["head", "heads", "base"]
    rel = ["+1", "-1", "+2", "-2"]
    qs = list(names) + sym
    for x in names:
        for y in names + sym + rel:
            qs.append(x + "@" + y)
    for x in names:
        for r in rel:
            qs.append(x + r)
    ids = [r["id"] for r in revs]
    # offsets of more than one digit (over-long on these short histories: must raise), also behind a label
    for x in ids[:3] + [l for r in revs for l in r["labels"]][:1]:
        for r in ("+10", "-12", "+25", "-01", "+02"):
            qs.append(x + r)
            if ids:
                qs.append(x + "@" + ids[-1] + r)
    labs = [l for r in revs for l in r["labels"]]
    for x in labs + ids[:2]:
        for y in ids + ["head", "base"]:
            for r in rel:
                qs.append(x + "@" + y + r)
    qs += JUNK
    seen, out = set(), []
    for q in qs:
        if q not in seen:
            seen.add(q)
            out.append(q)
    return out


def rel_queries(revs):
    names = names_of(revs)
    rel = ["+1", "-1", "+2", "-2", "+3"]
    return rel + ["+10", "-12", "+25", "+01"] + [x + "@" + r for x in names for r in rel[:4] + ["+10", "-10"]]


DGABS = re.compile(r"^[^@+-]+@[^@+-]+$")


def dgabs(q):
    """the recorded class C16-downgrade-label-unchecked: an absolute target `label@name` (name not head/heads/base);
    as a downgrade target its label part is not checked against the revision"""
    return bool(DGABS.match(q)) and q.split("@")[1] not in ("head", "heads", "base") \
        and q.split("@")[0] not in ("head", "heads", "base")


def batches(revs, cur, qs):
    for fa in (False, True):
        for fd in (False, True):
            part = [q for q in qs if affected(revs, q) == fa and dgabs(q) == fd]
            for k in range(0, len(part), BATCH):
                yield {"revs": revs, "cur": cur, "queries": part[k:k + BATCH], "affected": fa, "dgabs": fd}


def cases_for(revs, rnd):
    yield from batches(revs, [], queries_for(revs, rnd))
    ids = [r["id"] for r in revs]
    children = {x: [r["id"] for r in revs if x in r["down"]] for x in ids}
    heads = [x for x in ids if not children[x]]
    curs = [[x] for x in ids]
    if len(heads) > 1:
        curs.append(heads)
    if len(ids) > 2:
        curs.append(rnd.sample(ids, 2))
    rq = rel_queries(revs)
    for cur in curs:
        yield from batches(revs, cur, rq)


FIXED = [
    # the design-time witness of the short-id / label-key deviation
    [{"id": "abc", "down": [], "deps": [], "labels": []}, {"id": "abcd", "down": ["abc"], "deps": [], "labels": []}],
    # res.py probe history
    [{"id": "abc", "down": [], "deps": [], "labels": []}, {"id": "abcd", "down": ["abc"], "deps": [], "labels": []},
     {"id": "abcdef", "down": ["abcd"], "deps": [], "labels": ["abx"]}, {"id": "zz99x", "down": [], "deps": [], "labels": ["abcq"]}],
    # linear history of the over-walk fix
    [{"id": "r0a0", "down": [], "deps": [], "labels": []}, {"id": "r1a1", "down": ["r0a0"], "deps": [], "labels": []},
     {"id": "r2a2", "down": ["r1a1"], "deps": [], "labels": ["lab0"]}],
    [],
    # ids that are integers for int(): they are ids, never "relative" (only a NEGATIVE integer is)
    [{"id": "0", "down": [], "deps": [], "labels": []}, {"id": "0000", "down": ["0"], "deps": [], "labels": ["12"]},
     {"id": "0001", "down": ["0000"], "deps": [], "labels": []}, {"id": "1a2b", "down": ["0"], "deps": [], "labels": []}],
    [{"id": "000", "down": [], "deps": [], "labels": ["lab0"]}],
    # label propagation shapes: the upward walk starts from the LAST-YIELDED DESCENDANT, so a branch point or a merge
    # point between the labelled revision and that descendant keeps the label away from the ancestors
    [{"id": "paaa", "down": [], "deps": [], "labels": []}, {"id": "raaa", "down": ["paaa"], "deps": [], "labels": ["lbl1"]},
     {"id": "caaa", "down": ["raaa"], "deps": [], "labels": []}, {"id": "daaa", "down": ["caaa"], "deps": [], "labels": []},
     {"id": "dbbb", "down": ["caaa"], "deps": [], "labels": []}],
    [{"id": "paaa", "down": [], "deps": [], "labels": []}, {"id": "raaa", "down": ["paaa"], "deps": [], "labels": ["lbl1"]},
     {"id": "xaaa", "down": [], "deps": [], "labels": []}, {"id": "maaa", "down": ["raaa", "xaaa"], "deps": [], "labels": []}],
    [{"id": "paaa", "down": [], "deps": [], "labels": []}, {"id": "raaa", "down": ["paaa"], "deps": [], "labels": ["lbl1"]},
     {"id": "caaa", "down": ["raaa"], "deps": [], "labels": ["lbl2"]}, {"id": "xaaa", "down": [], "deps": ["caaa"], "labels": []},
     {"id": "daaa", "down": ["caaa"], "deps": [], "labels": []}],
    [{"id": "paaa", "down": [], "deps": [], "labels": []}, {"id": "raaa", "down": ["paaa"], "deps": [], "labels": []},
     {"id": "caaa", "down": ["raaa"], "deps": [], "labels": ["lbl1"]}, {"id": "daaa", "down": ["caaa"], "deps": [], "labels": []}],
]


def deep_history():
    """a linear history of 13 revisions r00a <- r01a <- ... <- r12a (label deep on r01a) next to a short second root:
    the only place where an offset of two digits can resolve (r00a+10, deep@r01a+11, -12 from the head, +13 from base)"""
    revs = [{"id": "r%02da" % k, "down": ["r%02da" % (k - 1)] if k else [], "deps": [], "labels": ["deep"] if k == 1 else []}
            for k in range(13)]
    revs.append({"id": "s00b", "down": [], "deps": ["r02a"], "labels": ["side"]})
    return revs


def deep_cases():
    revs = deep_history()
    offs = [1, 2, 9, 10, 11, 12, 13, 14, 25, 100]
    qs = []
    for x in ("r00a", "r01a", "r02a", "r11a", "r12a", "r0", "r1", "deep", "side", "head", "base"):
        for k in offs:
            qs += ["%s+%d" % (x, k), "%s-%d" % (x, k), "%s+%02d" % (x, k)]
    for lab in ("deep", "side", "r05a"):
        for x in ("r00a", "r02a", "r12a", "head", "base"):
            for k in (1, 10, 11, 12, 13):
                qs += ["%s@%s+%d" % (lab, x, k), "%s@%s-%d" % (lab, x, k)]
    yield from batches(revs, [], qs)
    rq = ["+%d" % k for k in offs] + ["-%d" % k for k in offs] + \
         ["%s@+%d" % (lab, k) for lab in ("deep", "side", "r03a") for k in offs] + \
         ["%s@-%d" % (lab, k) for lab in ("deep", "side") for k in (1, 10, 12, 13)]
    for cur in ([], ["r00a"], ["r02a"], ["r12a"], ["s00b"], ["r05a", "s00b"]):
        yield from batches(revs, cur, rq)


def generate(tier, seed):
    rnd = random.Random(seed * 7919 + 16)
    for revs in FIXED:
        yield from cases_for(revs, rnd)
    yield from deep_cases()
    ngraphs = 90 if tier == "quick" else 1400
    for k in range(ngraphs):
        nmax = 5 if tier == "quick" or k % 4 else 6
        # every fifth history has ids over {0,1,a}: all-digit ids (0, 0000, 0001, 12 ...) mixed with hex-like ones
        revs = rand_history(rnd, nmax, long_ids=(k % 3 == 0), alpha=("01a" if k % 5 == 4 else ALPHA))
        yield from cases_for(revs, rnd)


def search(tier, seed):
    rnd = random.Random(seed * 104729 + 16)
    for k in range(120):
        revs = rand_history(rnd, 6, long_ids=(k % 2 == 0))
        yield from cases_for(revs, rnd)


# ----------------------------------------------------------------------------- running the real code

def _oracle_map_class():
    from alembic.script import revision as R

    class ObservingMap(R.RevisionMap):
        """records, without changing it, the two set-iteration orders _add_branches depends on"""
        _obs = None

        def _add_branches(self, revisions, map_):
            obs = []
            for revision in revisions:
                if revision.branch_labels:
                    node = None
                    for node in self._get_descendant_nodes([revision], map_, include_dependencies=False):
                        pass
                    obs.append((revision.revision, node.revision))
            self._obs = obs
            return super()._add_branches(revisions, map_)
    return ObservingMap


def _elem(x):
    if x is None:
        return None
    if isinstance(x, str):
        if x == "base":
            return "base"
        return "id:" + x
    return "id:" + x.revision


def _err_kind(e):
    from alembic.script import revision as R
    from alembic import util
    if isinstance(e, util.CommandError):
        c = e.__cause__
        if isinstance(c, R.RangeNotAncestorError):
            return "CmdRange"
        if isinstance(c, R.MultipleHeads):
            return "CmdMultipleHeads"
        if isinstance(c, R.ResolutionError):
            return "CmdResolution"
        if isinstance(c, R.RevisionError):
            return "CmdRevision"
        return "CmdOther"
    if isinstance(e, R.RevisionError):
        return "XRevisionUncaught"
    for cls, nm in ((AssertionError, "XAssertion"), (KeyError, "XKey"), (ValueError, "XValue"), (TypeError, "XType"),
                    (AttributeError, "XAttribute"), (IndexError, "XIndex")):
        if isinstance(e, cls):
            return nm
    return "XOther"


def _observe(fn):
    try:
        lbl, lst = fn()
        return {"ok": [_elem(x) for x in lst], "label": lbl}
    except RecursionError:
        raise
    except Exception as e:  # the exception class is the observable
        return {"err": _err_kind(e)}


def run_case(h):
    import warnings
    warnings.simplefilter("ignore")
    from alembic.script import revision as R
    from alembic.script.base import ScriptDirectory
    revs = h["revs"]
    tup = lambda xs: tuple(xs) if xs else None
    objs = [R.Revision(r["id"], tup(r["down"]), dependencies=tup(r["deps"]), branch_labels=tup(r["labels"])) for r in revs]
    m = _oracle_map_class()(lambda: objs)
    sd = ScriptDirectory.__new__(ScriptDirectory)
    sd.revision_map = m
    try:
        m._revision_map
        oracle = m._obs or []
        labels = [(o.revision, sorted(o.branch_labels)) for o in objs]
    except R.RevisionError:
        oracle = []
        labels = []
    cur = tuple(h["cur"])
    out = []
    nontrivial = False

    def num(q):
        r = sd.as_revision_number(q)
        return None, ([] if r is None else list(r) if isinstance(r, tuple) else [r])

    def up(q):
        with sd._catch_revision_errors():
            return None, list(m._parse_upgrade_target(cur, q, True))

    def down(q):
        with sd._catch_revision_errors():
            lbl, rev = m._parse_downgrade_target(cur, q, True)
            return lbl, [rev]

    for q in h["queries"]:
        o = [_observe(lambda: (None, list(sd.get_revisions(q)))),
             _observe(lambda: (None, [sd.get_revision(q)])),
             _observe(lambda: num(q)),
             _observe(lambda: up(q)),
             _observe(lambda: down(q))]
        out.append(o)
        if any("ok" in x and any(e and e.startswith("id:") for e in x["ok"]) for x in (o[0], o[1], o[3], o[4])):
            nontrivial = True
    # the same lookups on a map that was BUILT INCREMENTALLY (half of the history loaded, the rest handed to
    # RevisionMap.add_revision one by one, parents first: what a long-lived ScriptDirectory holds after
    # generate_revision): the answers must be those of the loaded map (multi-results as sets).  The first lookup that
    # differs replaces the loaded map's answer in the observation, so the comparison with the model fails on it.
    incr = _incremental_obs(h, revs, cur) if labels else None
    incr_diff = None
    if incr is not None:
        for qi, (o1, o2) in enumerate(zip(out, incr)):
            for ei, (a, b) in enumerate(zip(o1, o2)):
                if ei == 2 and "ok" in o1[0] and len(o1[0]["ok"]) > 1 and "ok" in a and "ok" in b and set(b["ok"]) <= set(o1[0]["ok"]):
                    continue      # as_revision_number of several heads returns rev[0] of a tuple in set order: any member
                if _canon_obs(a) != _canon_obs(b) and incr_diff is None:
                    incr_diff = {"query": h["queries"][qi], "entry": ei, "loaded": a, "incremental": b}
                    o1[ei] = b
    cin = "(mkIn %s %s %s %s)" % (
        cf.lst("(mkS %s %s %s %s)" % (S(r["id"]), cf.lst(S(x) for x in r["down"]),
                                      cf.lst(S(x) for x in r["deps"]), cf.lst(S(x) for x in r["labels"]))
               for r in revs),
        cf.lst("(%s, %s)" % (S(a), S(b)) for a, b in oracle),
        cf.lst(S(x) for x in cur),
        cf.lst(S(q) for q in h["queries"]))
    cout = "(mkOut %s %s)" % (
        cf.lst("(%s, %s)" % (S(x), cf.lst(S(l) for l in ls)) for x, ls in labels),
        cf.lst("(mkObs %s)" % " ".join(_coq_outcome(x) for x in o) for o in out))
    nlab = sum(len(r["labels"]) for r in revs)
    shape = "n%d-l%d-%s%s" % (len(revs), nlab, "cur" if cur else "abs", ("-affected" if h.get("affected") else "") + ("-dgabs" if h.get("dgabs") else ""))
    res = {"oracle": oracle, "labels": labels, "obs": out}
    if incr_diff:
        res["incremental_map_differs"] = incr_diff
    return dict(cin=cin, cout=cout, out=res, nontrivial=nontrivial, shape=shape + ("-incr" if incr is not None else ""))


def _canon_obs(x):
    return ("err", x["err"]) if "err" in x else ("ok", tuple(sorted(str(e) for e in x["ok"])), x.get("label"))


def _incremental_obs(h, revs, cur):
    """the five lookups of every query on a map built by add_revision; None when the history cannot be built that way"""
    from alembic.script import revision as R
    from alembic.script.base import ScriptDirectory
    tup = lambda xs: tuple(xs) if xs else None
    ids = {r["id"] for r in revs}
    if len(ids) != len(revs):
        return None
    order, placed, rest = [], set(), list(revs)
    while rest:                                            # parents (down revisions and dependencies) first
        nxt = [r for r in rest if all((p in placed) or (p not in ids) for p in list(r["down"]) + list(r["deps"]))]
        if not nxt:
            return None
        for r in nxt:
            order.append(r); placed.add(r["id"])
        rest = [r for r in rest if r["id"] not in placed]
    if any(p not in ids for r in revs for p in list(r["down"]) + list(r["deps"])):
        return None                                        # depends_on written as a label / partial id: loader-only
    mk = lambda r: R.Revision(r["id"], tup(r["down"]), dependencies=tup(r["deps"]), branch_labels=tup(r["labels"]))
    k = len(order) // 2
    first = [mk(r) for r in order[:k]]
    m = R.RevisionMap(lambda: first)
    try:
        m._revision_map
        for r in order[k:]:
            m.add_revision(mk(r))
    except Exception:
        return None
    sd = ScriptDirectory.__new__(ScriptDirectory)
    sd.revision_map = m

    def num(q):
        r = sd.as_revision_number(q)
        return None, ([] if r is None else list(r) if isinstance(r, tuple) else [r])

    def up(q):
        with sd._catch_revision_errors():
            return None, list(m._parse_upgrade_target(cur, q, True))

    def down(q):
        with sd._catch_revision_errors():
            lbl, rev = m._parse_downgrade_target(cur, q, True)
            return lbl, [rev]
    return [[_observe(lambda: (None, list(sd.get_revisions(q)))), _observe(lambda: (None, [sd.get_revision(q)])),
             _observe(lambda: num(q)), _observe(lambda: up(q)), _observe(lambda: down(q))] for q in h["queries"]]


def _coq_elem(e):
    if e is None:
        return "ENoneV"
    if e == "base":
        return "EBaseS"
    return "(EId %s)" % S(e[3:])


def _coq_outcome(x):
    if "err" in x:
        return "(Fail %s)" % x["err"]
    return "(OK %s %s)" % (cf.opt(x["label"], S), cf.lst(_coq_elem(e) for e in x["ok"]))


# ----------------------------------------------------------------------------- known finding

def _same(a, b):
    return (a.get("err"), a.get("ok")) == (b.get("err"), b.get("ok"))


def classify(human, out):
    """A decider failure belongs to a recorded finding only if the whole batch lies in the recorded input class and
    (for the downgrade-label finding) the recorded deviation kind is what the implementation showed: the downgrade
    target parser answers differently from get_revision on the same `label@name`."""
    qs = human["queries"]
    if human.get("affected") and all(affected(human["revs"], q) for q in qs):
        return "C16-short-or-label-prefix"
    if human.get("dgabs") and all(dgabs(q) for q in qs) and out and \
            any(not _same(o[4], o[1]) for o in out["obs"]):
        return "C16-downgrade-label-unchecked"
    return None


# ----------------------------------------------------------------------------- canaries (corrupted outputs the decider must reject)

_W = r"[A-Za-z0-9_]"
_ABS = re.compile(r"^(?:(%s+)@)?(%s+)$" % (_W, _W))
_REL = re.compile(r"^(?:(%s+)@)?(%s*)([+-])([0-9]+)$" % (_W, _W))
_RESERVED = ("head", "heads", "base")


def _cout(labels, obs):
    return "(mkOut %s %s)" % (
        cf.lst("(%s, %s)" % (S(x), cf.lst(S(l) for l in ls)) for x, ls in labels),
        cf.lst("(mkObs %s)" % " ".join(_coq_outcome(x) for x in o) for o in obs))


def _lineage(revs):
    down = {r["id"]: set(r["down"]) for r in revs}

    def anc(x):
        out, st = set(), [x]
        while st:
            u = st.pop()
            if u not in out:
                out.add(u)
                st.extend(down.get(u, ()))
        return out
    ancs = {x: anc(x) for x in down}
    return lambda a, b: b in ancs.get(a, ()) or a in ancs.get(b, ())


def canary(human, rec):
    """Corruptions of the observed output that violate C16 on identifier strings the decider judges strictly
    (batches of a recorded finding class are skipped: their observed output may already fail):
      other-revision   get_revision / the upgrade target of an absolute identifier answers ANOTHER revision of the history
      error-to-rev     a lookup that raised a documented error now returns a revision
      outside-branch   label@head answers a revision that does not share lineage with the label
      undocumented     an entry point raises AssertionError instead of a result / a documented error
      wrong-distance   name+N / name-N as an upgrade target answers the starting revision itself
      label-lost       the labelled revision loses its own label in Revision.branch_labels
      label-stray      a revision outside the lineage of a label carries it"""
    if human.get("affected") or human.get("dgabs"):
        return []
    revs = human["revs"]
    ids = [r["id"] for r in revs]
    out = rec["out"]
    obs, labels = out["obs"], out["labels"]
    if not ids:
        return []
    res = []

    def with_cell(k, op, cell):
        o2 = [list(o) for o in obs]
        o2[k][op] = cell
        return _cout(labels, o2)

    def single_id(cell):
        return cell.get("ok") is not None and len(cell["ok"]) == 1 and (cell["ok"][0] or "").startswith("id:")

    done = set()
    lin = _lineage(revs)
    owner = {l: r["id"] for r in revs for l in r["labels"]}
    for k, q in enumerate(human["queries"]):
        ma, mr = _ABS.match(q), _REL.match(q)
        if ma and ma.group(1) not in _RESERVED:
            for op, kind in ((1, "other-revision"), (3, "other-revision-up")):
                if kind not in done and single_id(obs[k][op]) and len(ids) > 1:
                    cur_id = obs[k][op]["ok"][0][3:]
                    other = next(x for x in ids if x != cur_id)
                    res.append(with_cell(k, op, dict(obs[k][op], ok=["id:" + other])))
                    done.add(kind)
            if "error-to-rev" not in done and obs[k][1].get("err", "").startswith("Cmd"):
                res.append(with_cell(k, 1, {"ok": ["id:" + ids[0]], "label": None}))
                done.add("error-to-rev")
            if "undocumented" not in done:
                res.append(with_cell(k, 0, {"err": "XAssertion"}))
                done.add("undocumented")
            if "outside-branch" not in done and ma.group(1) and ma.group(2) == "head" and single_id(obs[k][0]):
                b = ma.group(1) if ma.group(1) in ids else owner.get(ma.group(1))
                outside = [x for x in ids if b and not lin(b, x)]
                if outside:
                    res.append(with_cell(k, 0, dict(obs[k][0], ok=["id:" + outside[0]])))
                    done.add("outside-branch")
        elif mr and not mr.group(1) and mr.group(2) in ids and int(mr.group(4)) > 0:
            if "wrong-distance" not in done and single_id(obs[k][3]) and obs[k][3]["ok"][0][3:] != mr.group(2):
                res.append(with_cell(k, 3, dict(obs[k][3], ok=["id:" + mr.group(2)])))
                done.add("wrong-distance")
    if labels and owner:
        l, rid = sorted(owner.items())[0]
        lost = [(x, [y for y in ls if not (x == rid and y == l)]) for x, ls in labels]
        if lost != labels:
            res.append(_cout(lost, obs))
        stray = [x for x in ids if not lin(rid, x)]
        if stray:
            res.append(_cout([(x, ls + [l] if x == stray[0] and l not in ls else ls) for x, ls in labels], obs))
    return [t for t in res if t != rec["cout"]]
