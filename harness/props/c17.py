"""C17 — generated revision files reload as requested; the incrementally maintained map equals a reloaded one.
Real ScriptDirectory.generate_revision / command.revision / command.merge sequences in a temp script directory vs
Model.RevHeader (write_header / read_header / scan_doc) and Model.Incremental (load / add_revision)."""
import io
import json
import os
import sys
import random
import shutil
import tempfile

from harness import coqfmt as cf

PROP = "C17"
COQ = dict(imports=["Model.RevHeader", "Model.Incremental", "Spec.C17"], in_ty="c17_in", out_ty="c17_out", corr="corr_C17",
           decide="check_C17", inclass="inclass_C17", model="model_C17")
THEOREMS = ["C17_filename_prefix_ok", "C17_filename_injective", "C17_filename_refuted", "C17_decider_complete", "C17_header_roundtrip", "C17_docstring_partial", "C17_docstring_refuted", "C17_incremental", "C17_incremental_view",
            "C17_incremental_refuted_id_is_label", "C17_accepted_is_scanned", "C17_subdir_not_scanned", "C17_decider_sound", "C17_main"]
TRUSTED = [
    "Mako rendering of script.py.mako, file naming (_rev_path) and importlib loading are observed, not modelled: the model "
    "starts from the identifier lines / docstring body found in the written file and from the attributes of the loaded Script",
    "CPython's parser for the step from the token list of the identifier lines to module attributes (the real module is "
    "imported by alembic on every case and its attributes compared with the request)",
    "str.isprintable enters py_repr as a Section variable (per case: the list of non-printable code points of the strings)",
    "get_ancestor_nodes / get_descendant_nodes are modelled by the sets they compute on histories where parents precede "
    "children; the hash-order dependent choices of _add_branches are compared as label sets",
]
ASSUME = [
    "calls rejected for their version_path are part of the sequence (the model decides acceptance: the normalised path must "
    "equal a configured location); any other rejection disagrees with the model and is reported; the new revision id is not an existing branch label; the docstring body contains no "
    "backslash and no three consecutive double quotes (inclass_C17)",
]
RULE = ("seeded sequences of 1-6 generate_revision / command.revision / command.merge calls: heads {single head, explicit id, "
        "several heads (merge), base, spliced non-head, label@head}, branch labels, depends_on {ids, partial ids, labels}, "
        "messages and ids from {ASCII, quotes, backslash-free unicode, newlines, non-printable}, file_template tokens "
        "{rev, slug, year, month, day, hour, minute, second, epoch}, truncate_slug_length {unset, 5, 40}, 1-3 version_locations "
        "(one with a space in its name); plus a family of 3-4 independent roots merged at once (command.merge, "
        "command.revision and generate_revision with 3-4 heads) followed by a revision on the merge; explicit version_path "
        "{a configured location in five spellings, another location, a sub-directory of one, a sibling sharing its prefix, an "
        "unrelated path} x recursive_version_locations on/off: rejected calls are steps too (no file may be left). non-trivial = at least two revisions were generated; "
        "distinct by the encoded input. Revision ids and file templates containing dots (1.0, 1.1, 3.1.post1) with sourceless = true "
        "(byte code written, __pycache__ read on reload); a reload that warns (duplicate revision) counts as a failed reload")
EXHAUSTIVE = {"quick": False, "thorough": False}
CASE_TIMEOUT = 120
DESIGN_REF = "DESIGN.md section 5 C17"
TECHNIQUE = ("Coq proofs about Gallina models of the revision-file header (repr/lexer round trip for all strings) and of "
             "RevisionMap.add_revision vs the batch load (refinement, for all histories in which every revision refers to "
             "existing keys), tied to the code by exact comparison on real generate/merge sequences in temp script directories")
LEVEL_TEXT = ("Machine-checked: the identifier lines written with repr() read back to exactly the requested id, parents, "
              "labels and dependencies for all strings; the docstring is harmless when it has no backslash and no triple "
              "quote (refuted otherwise); add_revision after load equals load of the extended history on every component "
              "(ids, parents, resolved and normalised dependencies, children, heads, bases, real heads/bases, label keys, labels). "
              "Each run compares both models with real sequences, in memory and reloaded from disk.")
LEVEL_NOTE = ("Partial: Mako, file naming and importlib are observed only; ancestors/descendants are modelled by their sets; "
              "cycle detection is outside (cannot fire on generated histories); rejected calls are outside the statement.")

IDS = ["r{k}a{k}x", "R{k}A{k}x", "r{k}A{k}X", "r{k}b'{k}q", 'r{k}c"{k}d', "r{k}dé{k}ü", "r{k}e {k}sp", "r{k}f​{k}zw", "R{k}G{k}Mixed", "r{k}h_{k}"]
MSGS = ["plain message", "it's quoted", 'say "hi" twice', "multi\nline\nmessage", "unicodé 中文 ✓", "tab\there", "",
        "ends with quote'", "percent %s %(x)s ${y}", "a\u200bzero", "<%text>mako</%text> ## comment", "x" * 70, "UPPER Case MiXed", "İzmir ÄÖÜ table", "trailing___under__scores_", "a-b-c d.e/f",
        "123 numbers first", "one_very_long_word_" * 4, "__init__ later word", "ǅ titlecase ǈ"]
LABELS = ["lab{k}", "br'{k}", "naïve{k}"]
FILE_TEMPLATES = [None, "%%(rev)s_%%(slug)s", "%%(year)d_%%(month).2d_%%(rev)s", "%%(slug)s-%%(rev)s", "%%(epoch)s_%%(rev)s",
                  "%%(year)d%%(month).2d%%(day).2d_%%(hour).2d%%(minute).2d%%(second).2d_%%(rev)s_%%(slug)s"]
FINDING_IDS = ["C17-docstring-triple-quote", "C17-docstring-backslash", "C17-revid-equals-label",
               "C17-filename-ignored-by-loader", "C17-file-template-without-rev-overwrites"]


def registered():
    if os.environ.get("VERIF_FINDINGS") == "all":
        return set(FINDING_IDS)
    try:
        doc = json.load(open(os.path.join(os.path.dirname(os.path.dirname(os.path.dirname(os.path.abspath(__file__)))), "known_findings.json")))
        return {f["id"] for f in doc.get("findings", []) if f.get("property") == PROP}
    except Exception:
        return set()


def gen_seq(rnd, k, reg):
    """a sequence of calls described symbolically; the runner resolves 'pick' choices against the ids generated so far"""
    weird = [0.0, 0.4, 1.0][k % 3]
    n = rnd.randint(1, 6)
    calls = []
    nlabels = 0
    for i in range(n):
        idt = rnd.choice(IDS) if rnd.random() < weird else IDS[0]
        msg = rnd.choice(MSGS) if rnd.random() < max(weird, .3) else "m %d" % i
        c = {"rid": idt.format(k=i), "msg": msg, "via": rnd.choice(["generate", "generate", "revision"])}
        x = rnd.random()
        if i == 0 or x < .15:
            c["head"] = "base"
        elif x < .40:
            c["head"] = "pick_head"
        elif x < .58:
            c["head"] = "pick_any"
            c["splice"] = True
        elif x < .82:
            c["head"] = "merge"
        elif x < .90:
            c["head"] = "head_symbol"
        else:
            c["head"] = "label_head"
        if rnd.random() < .3 and nlabels < 3:
            c["labels"] = [rnd.choice(LABELS).format(k=nlabels)] + (["extra%d" % nlabels] if rnd.random() < .2 else [])
            nlabels += 1
        y = rnd.random()
        if i > 0 and y < .3:
            c["deps"] = [rnd.choice(["id", "partial", "label"]) for _ in range(rnd.choice([1, 1, 2]))]
        if rnd.random() < .35:
            c["vpath"] = rnd.choice(["exact", "exact", "other_loc", "sub", "sibling", "unrelated"])
        calls.append(c)
    cfg = {"file_template": rnd.choice(FILE_TEMPLATES),
           "truncate_slug_length": rnd.choice([None, 5, 40]), "locations": rnd.choice([1, 1, 2, 3]),
           "explicit": rnd.random() < .6, "recursive": rnd.random() < .4}
    return {"calls": calls, "cfg": cfg, "seed": rnd.randrange(1 << 30)}


def gen_merge3(rnd, k):
    """three (or four) independent roots, possibly in different version locations, merged by command.merge / generate_revision"""
    n = 3 + (k % 2)
    calls = [{"rid": IDS[(k + i) % len(IDS)].format(k=i), "msg": rnd.choice(MSGS), "via": "generate", "head": "base", "fixed": True}
             for i in range(n)]
    if k % 3 == 0:
        calls.insert(2, {"rid": "r9a9x", "msg": "child", "via": "generate", "head": "pick_head", "fixed": True})
    calls.append({"rid": "m%da%dx" % (k % 10, k % 10), "msg": rnd.choice(MSGS), "via": ["merge", "generate", "revision"][k % 3],
                  "head": "merge_all", "fixed": True})
    calls.append({"rid": "z0a0x", "msg": "after merge", "via": "generate", "head": "head_symbol", "fixed": True})
    return {"calls": calls, "cfg": {"file_template": FILE_TEMPLATES[k % len(FILE_TEMPLATES)], "truncate_slug_length": [None, 5][k % 2],
                                    "locations": 1 + k % 3}, "seed": rnd.randrange(1 << 30)}


def gen_vpath(k):
    """explicit version_path: each kind x recursive_version_locations x 1-3 locations x generate/revision"""
    kinds = ["exact", "other_loc", "sub", "sibling", "unrelated"]
    calls = [{"rid": "r0a0x", "msg": "root", "via": "generate", "head": "base", "fixed": True, "vpath": "exact"},
             {"rid": "r1a1x", "msg": "probe", "via": ["generate", "revision"][(k // 5) % 2], "head": "pick_head", "fixed": True,
              "vpath": kinds[k % 5]},
             {"rid": "r2a2x", "msg": "after", "via": "generate", "head": "pick_head", "fixed": True},
             {"rid": "r3a3x", "msg": "probe base", "via": "generate", "head": "base", "fixed": True, "vpath": kinds[(k + 2) % 5]}]
    return {"calls": calls, "cfg": {"file_template": None, "truncate_slug_length": None, "locations": 1 + (k // 20) % 3,
                                    "explicit": True, "recursive": (k // 10) % 2 == 1}, "seed": k}


def gen_caseids(k):
    """revision ids that differ only in letter case (and mixed-case ids in general), same message: they must stay different files"""
    tpl = [None, "%%(rev)s_%%(slug)s", "%%(slug)s_%%(rev)s", "%%(year)d_%%(rev)s"][k % 4]
    ids = [["rel2", "REL2", "Rel2"], ["AbC", "aBc", "abc"], ["MixedCaseId", "mixedcaseid", "MIXEDCASEID"]][k % 3]
    calls = [{"rid": ids[0], "msg": "release", "via": "generate", "head": "base", "fixed": True},
             {"rid": ids[1], "msg": "release", "via": ["generate", "revision"][k % 2], "head": "pick_head", "fixed": True},
             {"rid": ids[2], "msg": "Release", "via": "generate", "head": "pick_head", "fixed": True,
              "deps": ["id"] if k % 2 else []}]
    return {"calls": calls, "cfg": {"file_template": tpl, "truncate_slug_length": None, "locations": 1 + k % 2, "explicit": True,
                                    "recursive": False}, "seed": k}


def gen_dotted(k):
    """revision ids that contain a dot (1.0, 1.1, 2.0 -- legal identifiers) and file templates with dots, in sourceless mode
    (the reload also looks into __pycache__, where the byte code of every loaded revision file sits): every file must be loaded
    exactly once, so that the reloaded directory equals the incremental one without a duplicate-revision warning"""
    tpl = [None, "%%(rev)s.%%(slug)s", "%%(slug)s.%%(rev)s", "v.%%(rev)s_%%(slug)s", "%%(rev)s_%%(slug)s"][k % 5]
    via = lambda i: ["generate", "revision"][(k // 5 + i) % 2]
    calls = [{"rid": "1.0", "msg": "create account table", "via": "generate", "head": "base", "fixed": True},
             {"rid": "1.1", "msg": "add a column", "via": via(0), "head": "pick_head", "fixed": True},
             {"rid": "2.0", "msg": "side.branch v2.0", "via": "generate", "head": "pick_any", "splice": True, "fixed": True,
              "labels": ["side"] if k % 2 else []},
             {"rid": "3.0", "msg": "merge", "via": ["generate", "merge", "revision"][k % 3], "head": "merge_all", "fixed": True},
             {"rid": "3.1.post1", "msg": "on top", "via": via(1), "head": "head_symbol", "fixed": True,
              "deps": ["id"] if k % 4 == 3 else []}]
    return {"calls": calls, "cfg": {"file_template": tpl, "truncate_slug_length": None, "locations": 1 + (k // 10) % 2, "explicit": True,
                                    "recursive": (k // 5) % 2 == 1, "sourceless": k % 6 != 5}, "seed": k}


def finding_cases(reg):
    out = []
    base = {"cfg": {"file_template": None, "truncate_slug_length": None, "locations": 1}, "seed": 1}
    if "C17-docstring-triple-quote" in reg:
        out.append(dict(base, finding="C17-docstring-triple-quote",
                        calls=[{"rid": "r0a0x", "msg": 'has """ triple', "via": "revision", "head": "base"}]))
        out.append(dict(base, finding="C17-docstring-triple-quote",
                        calls=[{"rid": "r0a0x", "msg": "ok", "via": "generate", "head": "base"},
                               {"rid": 'r1"""x', "msg": "id with quotes", "via": "generate", "head": "pick_head"}]))
    if "C17-docstring-backslash" in reg:
        out.append(dict(base, finding="C17-docstring-backslash",
                        calls=[{"rid": "r0a0x", "msg": "fix C:\\users\\x", "via": "revision", "head": "base"}]))
    if "C17-filename-ignored-by-loader" in reg:
        out.append(dict(base, finding="C17-filename-ignored-by-loader",
                        cfg={"file_template": "%%(slug)s_%%(rev)s", "truncate_slug_length": None, "locations": 1},
                        calls=[{"rid": "r0a0x", "msg": "__init__ of the schema", "via": "generate", "head": "base"}]))
    if "C17-file-template-without-rev-overwrites" in reg:
        out.append(dict(base, finding="C17-file-template-without-rev-overwrites",
                        cfg={"file_template": "%%(slug)s", "truncate_slug_length": None, "locations": 1},
                        calls=[{"rid": "r0a0x", "msg": "add table", "via": "generate", "head": "base", "fixed": True},
                               {"rid": "r1a1x", "msg": "add table", "via": "generate", "head": "pick_head", "fixed": True}]))
    if "C17-revid-equals-label" in reg:
        out.append(dict(base, finding="C17-revid-equals-label",
                        calls=[{"rid": "r0a0x", "msg": "a", "via": "generate", "head": "base", "labels": ["lab0"]},
                               {"rid": "lab0", "msg": "b", "via": "generate", "head": "pick_head"}]))
    return out


def generate(tier, seed):
    rnd = random.Random(seed * 7919 + 17)
    reg = registered()
    yield from finding_cases(reg)
    n = 160 if tier == "quick" else 5000
    for k in range(n):
        yield gen_seq(rnd, k, reg)
    for k in range(24 if tier == "quick" else 300):
        yield gen_merge3(rnd, k)
    for k in range(60):
        yield gen_vpath(k)
    for k in range(12):
        yield gen_caseids(k)
    for k in range(20):
        yield gen_dotted(k)


def search(tier, seed):
    # finding classes that are not registered yet stay in the search stream until they are
    yield from finding_cases(set(FINDING_IDS) - registered())
    rnd = random.Random(seed * 104729 + 17)
    for k in range(600):
        yield gen_seq(rnd, k, set())


# ----------------------------------------------------------------------------- running the real thing
def S(s):
    return cf.string(s)


def lst(xs, f=str):
    return "[" + "; ".join(f(x) for x in xs) + "]"


class Intern:
    def __init__(self):
        self.t = {}

    def __call__(self, s):
        if s not in self.t:
            self.t[s] = len(self.t)
        return self.t[s]


def view(sd, key):
    from alembic import util
    m = sd.revision_map
    rm = m._revision_map
    revs = []
    for k, r in rm.items():
        if r is None or k != r.revision:
            continue
        revs.append((key(r.revision), sorted(key(x) for x in util.to_tuple(r.down_revision, default=())),
                     sorted(key(x) for x in r._resolved_dependencies), sorted(key(x) for x in r._normalized_resolved_dependencies),
                     sorted(key(x) for x in r.nextrev), sorted(key(x) for x in r._all_nextrev), sorted(key(x) for x in r.branch_labels)))
    revs.sort()
    keys = sorted((key(k), key(r.revision)) for k, r in rm.items() if r is not None and k != r.revision)
    return {"revs": revs, "keys": keys, "heads": sorted(key(x) for x in m.heads), "bases": sorted(key(x) for x in m.bases),
            "rheads": sorted(key(x) for x in m._real_heads), "rbases": sorted(key(x) for x in m._real_bases)}


def e_view(v):
    return "(mkView %s %s %s %s %s %s)" % (
        lst(v["revs"], lambda r: "(mkV %d %s %s %s %s %s %s)" % (r[0], cf.nlist(r[1]), cf.nlist(r[2]), cf.nlist(r[3]), cf.nlist(r[4]),
                                                                    cf.nlist(r[5]), cf.nlist(r[6]))),
        lst(v["keys"], lambda p: "(%d, %d)" % p), cf.nlist(v["heads"]), cf.nlist(v["bases"]), cf.nlist(v["rheads"]), cf.nlist(v["rbases"]))


def nonprintable(strings):
    out = set()
    for s in strings:
        for ch in s:
            if ord(ch) >= 0x7f and not ch.isprintable():
                out.add(ord(ch))
    return sorted(out)


def run_case(h):
    import contextlib
    with contextlib.redirect_stdout(io.StringIO()):
        return _run_case(h)


def _run_case(h):
    import logging
    import warnings
    warnings.simplefilter("ignore")
    logging.disable(logging.CRITICAL)
    from alembic import command, util
    from alembic.config import Config
    from alembic.script import ScriptDirectory
    rnd = random.Random(h["seed"])
    dwb = sys.dont_write_bytecode
    d = tempfile.mkdtemp(prefix="avc17")
    key = Intern()
    steps_in, steps_out, log = [], [], []
    rejected = 0
    try:
        cfg = Config(os.path.join(d, "alembic.ini"))
        cfg.set_main_option("script_location", os.path.join(d, "scripts"))
        cfg.stdout = io.StringIO()
        command.init(cfg, os.path.join(d, "scripts"))
        c = h["cfg"]
        if c["file_template"]:
            cfg.set_main_option("file_template", c["file_template"])
        if c["truncate_slug_length"]:
            cfg.set_main_option("truncate_slug_length", str(c["truncate_slug_length"]))
        locs = [os.path.join(d, "scripts", "versions")]
        explicit = c["locations"] >= 2 or c.get("explicit", False)
        if explicit:
            for extra in ["other_versions", "third versions dir"][:c["locations"] - 1]:
                locs.append(os.path.join(d, extra))
                os.makedirs(locs[-1])
            cfg.set_main_option("version_locations", os.pathsep.join(locs))
            cfg.set_main_option("version_path_separator", "os")
        if c.get("sourceless"):
            # the reload also reads __pycache__: let the interpreter write byte code as it normally does
            cfg.set_main_option("sourceless", "true")
            sys.dont_write_bytecode = False
        recursive = bool(c.get("recursive", False))
        if recursive:
            cfg.set_main_option("recursive_version_locations", "true")
        pkey = Intern()

        def comps(pth):
            """a directory as the components of its normalised absolute path below the temp root"""
            rel = os.path.relpath(os.path.normpath(os.path.abspath(pth)), d)
            return [pkey(x) for x in rel.split(os.sep)]

        def e_path(pth):
            return cf.nlist(comps(pth))

        def all_py():
            """every python file below the temp root with its content (a call may also overwrite a file)"""
            out = set()
            for root, _, files in os.walk(d):
                for fn in files:
                    if not fn.endswith(".pyc"):
                        pth = os.path.join(root, fn)
                        out.add((pth, open(pth, "rb").read()))
            return out

        def e_naming(msg, doc_text):
            """file_template as pieces, message, truncate_slug_length, and the two Unicode tables restricted to the message"""
            import datetime
            import re as _re
            tpl = sd.file_template
            dt = None
            m = _re.search(r"^Create Date: (.*)$", doc_text or "", _re.M)
            if m:
                try:
                    dt = datetime.datetime.fromisoformat(m.group(1).strip())
                except ValueError:
                    dt = None
            pieces = []
            for mm in _re.finditer(r"%\((\w+)\)([^a-zA-Z%]*[a-zA-Z])|%%|[^%]+", tpl):
                if mm.group(1) == "rev":
                    pieces.append("TRevId")
                elif mm.group(1) == "slug":
                    pieces.append("TSlug")
                elif mm.group(1):
                    if dt is None:
                        pieces.append("(TDate [])")
                    else:
                        val = {"epoch": int(dt.timestamp()), "year": dt.year, "month": dt.month, "day": dt.day, "hour": dt.hour,
                               "minute": dt.minute, "second": dt.second}[mm.group(1)]
                        pieces.append("(TDate %s)" % S(("%" + mm.group(2)) % val))
                elif mm.group(0) == "%%":
                    pieces.append("(TLit %s)" % S("%"))
                else:
                    pieces.append("(TLit %s)" % S(mm.group(0)))
            msg = msg or ""
            words = sorted({ord(ch) for ch in msg if _re.match(r"\w", ch)})
            lower = sorted({(ord(ch), ch.lower()) for ch in msg if ch.lower() != ch})
            return "%s %s %d%%nat %s %s" % (lst(pieces), S(msg), sd.truncate_slug_length, cf.nlist(words),
                                           lst(lower, lambda p: "(%d, %s)" % (p[0], S(p[1]))))
        e_locs = lst(locs, e_path)
        sd = ScriptDirectory.from_config(cfg)
        ids, labels = [], []
        for call in h["calls"]:
            heads = list(sd.revision_map.heads)
            kind = call["head"]
            if len(heads) >= 2 and ids and not call.get("fixed") and rnd.random() < 0.4:
                kind = "merge"
            splice = call.get("splice", False)
            if kind == "base" or not ids:
                head, parents = "base", []
            elif kind == "pick_head":
                x = rnd.choice(heads)
                head, parents = x, [x]
            elif kind == "pick_any":
                x = rnd.choice(ids)
                head, parents = x, [x]
                splice = True
            elif kind == "merge_all" and len(heads) >= 2:
                xs = list(heads)
                rnd.shuffle(xs)
                head, parents = tuple(xs), xs
                kind = "merge"
            elif kind == "merge" and len(heads) >= 2:
                xs = rnd.sample(heads, rnd.randint(2, min(3, len(heads))))
                head, parents = tuple(xs), xs
            elif kind == "head_symbol" and len(heads) == 1:
                head, parents = "head", [heads[0]]
            elif kind == "label_head" and labels:
                lab = rnd.choice(labels)
                try:
                    target = sd.revision_map.get_revisions(lab + "@head")
                except Exception:
                    target = ()
                if len(target) == 1 and target[0] is not None:
                    head, parents = lab + "@head", [target[0].revision]
                else:
                    x = rnd.choice(heads)
                    head, parents = x, [x]
            else:
                x = rnd.choice(heads)
                head, parents = x, [x]
            deps_req, deps_exp = [], []
            for kind_d in call.get("deps", []):
                if kind_d == "label" and labels:
                    lab = rnd.choice(labels)
                    deps_req.append(lab)
                    deps_exp.append(lab)
                elif kind_d == "partial" and ids:
                    x = rnd.choice(ids)
                    p = x[:4]
                    if sum(1 for y in ids if y.startswith(p)) == 1 and len(x) > 4:
                        deps_req.append(p)
                    else:
                        deps_req.append(x)
                    deps_exp.append(x)
                elif ids:
                    x = rnd.choice(ids)
                    deps_req.append(x)
                    deps_exp.append(x)
            seen = set()
            dr, de = [], []
            for a, b_ in zip(deps_req, deps_exp):       # the same dependency twice adds nothing
                if b_ not in seen and b_ not in parents:
                    seen.add(b_)
                    dr.append(a)
                    de.append(b_)
            deps_req, deps_exp = dr, de
            labs = list(call.get("labels", []))
            rid, msg = call["rid"], call["msg"]
            kw = dict(head=head, splice=splice, branch_labels=labs or None, depends_on=deps_req or None)
            vpath = None
            if c["locations"] >= 2 and head == "base":
                vpath = rnd.choice(locs)
            vk = call.get("vpath")
            if vk and explicit and call["via"] != "merge" and not (call["via"] != "generate" and kind == "merge"):
                loc = rnd.choice(locs)
                if c["locations"] >= 2 and parents:
                    hp = sd.get_revision(parents[0])
                    loc = os.path.dirname(hp.path) if hp is not None else loc
                if vk == "exact":
                    vpath = rnd.choice([loc, loc + os.sep, os.path.join(loc, "."), os.path.join(loc, "..", os.path.basename(loc)),
                                        os.path.relpath(loc, os.getcwd())])
                elif vk == "other_loc":
                    vpath = rnd.choice(locs)
                elif vk == "sub":
                    vpath = os.path.join(loc, "feature")
                elif vk == "sibling":
                    vpath = loc + "_old"
                else:
                    vpath = os.path.join(d, "elsewhere")
            # the directory asked for: version_path, else what alembic derives (first head's directory / the only location)
            if vpath is not None:
                eff = vpath
            elif len(locs) > 1:
                hp = sd.get_revision(parents[0]) if parents else None
                eff = os.path.dirname(hp.path) if hp is not None else locs[0]
            else:
                eff = locs[0]
            script, module_ok = None, True
            before = all_py()
            try:
                if call["via"] == "generate":
                    script = sd.generate_revision(rid, msg, version_path=vpath, **kw)
                else:
                    if call["via"] == "merge" or (kind == "merge" and isinstance(head, tuple) and not labs and not deps_req):
                        script = command.merge(cfg, list(head) if isinstance(head, tuple) else [head], message=msg, rev_id=rid,
                                               branch_label=labs or None)
                    else:
                        script = command.revision(cfg, message=msg, rev_id=rid, version_path=vpath, head=head, splice=splice,
                                                  branch_label=labs or None, depends_on=deps_req or None)
                    # the command API works on a private ScriptDirectory; bring ours up to date the way
                    # generate_revision does: load the written file and add_revision it
                    sd = script_dir_of(script, cfg, sd)
            except util.CommandError as e:
                # a rejected call: it must leave no file behind; the model decides whether the directory was acceptable
                rejected += 1
                log.append("rejected:%s" % str(e)[:40])
                left = bool({p for p, _ in all_py()} - {p for p, _ in before})
                frev = "(mkF %d %s %s %s)" % (key(rid), cf.nlist(key(x) for x in parents), cf.nlist(key(x) for x in deps_exp),
                                               cf.nlist(key(x) for x in labs))
                steps_in.append("(mkStep %s %s %s %s %s %s %s %s %s %s %s)" % (
                    frev, S(rid), lst(parents, S), lst(labs, S), lst(deps_exp, S), cf.nlist(nonprintable([rid] + parents + labs + deps_exp)),
                    S(""), e_locs, cf.boolean(recursive), e_path(eff), e_naming(msg, None)))
                steps_out.append({"rejected": True, "left": left, "header": "", "loaded": False, "module_ok": False, "views": None,
                                  "same": False, "dir": "[]", "file": ""})
                continue
            except SyntaxError:
                module_ok = False
            # locate the written file: the one that was not there before the call
            new = sorted(p for p, _ in all_py() - before)
            if len(new) != 1:
                raise RuntimeError("expected one new or rewritten file for %r, found %r" % (rid, new))
            path = new[0]
            txt = open(path, encoding="utf-8").read()
            i0 = txt.index("\nrevision: str = ") + 1
            header = "".join(txt[i0:].splitlines(keepends=True)[:4])
            marker = '\n"""\nfrom typing import'
            j = txt.rfind(marker)
            if not txt.startswith('"""') or j < 0:
                raise RuntimeError("docstring frame not found")
            doc_body = txt[3:j + 1]
            loaded_ok = False
            if module_ok and script is not None:
                loaded_ok = (script.revision == rid and list(util.to_tuple(script.down_revision, default=())) == parents
                             and list(script._orig_branch_labels) == labs
                             and list(util.to_tuple(script.dependencies, default=())) == deps_exp)
            frev = "(mkF %d %s %s %s)" % (key(rid), cf.nlist(key(x) for x in parents), cf.nlist(key(x) for x in deps_exp),
                                           cf.nlist(key(x) for x in labs))
            strings = [rid] + parents + labs + deps_exp
            steps_in.append("(mkStep %s %s %s %s %s %s %s %s %s %s %s)" % (
                frev, S(rid), lst(parents, S), lst(labs, S), lst(deps_exp, S), cf.nlist(nonprintable(strings)), S(doc_body),
                e_locs, cf.boolean(recursive), e_path(eff), e_naming(msg, doc_body)))
            views = None
            if module_ok:
                try:
                    vm = view(sd, key)
                    with warnings.catch_warnings():
                        # a file that is loaded twice is announced by a warning (Revision ... is present more than once)
                        warnings.simplefilter("error")
                        vd = view(ScriptDirectory.from_config(cfg), key)
                    views = (vm, vd)
                except Exception as e:      # a reload that raises (or warns) is part of the observable
                    log.append("reload:%s" % type(e).__name__)
                    views = None
            steps_out.append({"path": path, "header": header, "loaded": loaded_ok, "module_ok": module_ok, "views": views,
                              "same": views is not None and views[0] == views[1], "rejected": False, "left": False,
                              "dir": e_path(os.path.dirname(path)), "file": os.path.basename(path)})
            if not module_ok or views is None or script is None:
                break
            ids.append(rid)
            labels.extend(labs)
    finally:
        sys.dont_write_bytecode = dwb
        shutil.rmtree(d, ignore_errors=True)
    cin = lst(steps_in)
    cout = lst(steps_out, lambda o: "(mkSO %s %s %s %s %s %s %s %s)" % (
        S(o["header"]), cf.boolean(o["loaded"]), cf.boolean(o["module_ok"]),
        "None" if o["views"] is None else "(Some (%s, %s))" % (e_view(o["views"][0]), e_view(o["views"][1])),
        cf.boolean(o["rejected"]), cf.boolean(o["left"]), o["dir"], S(o["file"])))
    out = {"steps": [{"header": o["header"], "loaded": o["loaded"], "module_ok": o["module_ok"], "mem_eq_disk": o["same"],
                      "rejected": o["rejected"], "file_left": o["left"], "file": o["file"]} for o in steps_out],
           "rejected": rejected, "log": log}
    shape = "n%d%s%s" % (len([o for o in steps_out if not o["rejected"]]), "" if all(o["module_ok"] for o in steps_out) else "-syntaxerror", "-rej" if rejected else "")
    return dict(cin=cin, cout=cout, out=out, nontrivial=len([o for o in steps_out if not o["rejected"]]) >= 2, shape=shape,
                can=[{k: v for k, v in o.items() if k != "path"} for o in steps_out])


def _e_so(o):
    return "(mkSO %s %s %s %s %s %s %s %s)" % (
        S(o["header"]), cf.boolean(o["loaded"]), cf.boolean(o["module_ok"]),
        "None" if o["views"] is None else "(Some (%s, %s))" % (e_view(o["views"][0]), e_view(o["views"][1])),
        cf.boolean(o["rejected"]), cf.boolean(o["left"]), o["dir"], S(o["file"]))


def canary(h, rec):
    """deliberately corrupted observations of the last accepted call of this sequence; the decider must reject every one"""
    import copy
    if rec.get("idx", 0) % 3:
        return []                                   # every third case: keeps the quick tier inside its time budget
    steps = rec.get("can") or []
    idx = [i for i, o in enumerate(steps) if not o["rejected"] and o["module_ok"] and o["loaded"] and o["views"] is not None and o.get("same")]
    if not idx or len(idx) != len([o for o in steps if not o["rejected"]]):
        return []                                   # the decider fails on this case anyway
    i = idx[-1]
    out = []

    def emit(o):
        out.append(lst(steps[:i] + [o] + steps[i + 1:], _e_so))
    o = steps[i]
    lines = o["header"].splitlines(keepends=True)
    # one character of the revision id literal changed
    bad = copy.deepcopy(o)
    bad["header"] = lines[0].replace("= '", "= 'Z", 1).replace('= "', '= "Z', 1) + "".join(lines[1:])
    emit(bad)
    # two header fields swapped (down_revision <-> depends_on), when that changes anything
    v1, v3 = lines[1].split(" = ", 1)[1], lines[3].split(" = ", 1)[1]
    if v1 != v3:
        bad = copy.deepcopy(o)
        bad["header"] = lines[0] + lines[1].split(" = ", 1)[0] + " = " + v3 + lines[2] + lines[3].split(" = ", 1)[0] + " = " + v1
        emit(bad)
    # a branch label missing after the reload (or, without labels, a head)
    bad = copy.deepcopy(o)
    vm, vd = bad["views"]
    revs = [list(r) for r in vd["revs"]]
    hit = [r for r in revs if r[6]]
    if hit:
        hit[0][6] = hit[0][6][1:]
        vd = dict(vd, revs=[tuple(r) for r in revs])
    else:
        vd = dict(vd, heads=vd["heads"][1:])
    bad["views"] = (vm, vd)
    emit(bad)
    # the file name turned into one the loader skips
    bad = copy.deepcopy(o)
    bad["file"] = "__init__" + o["file"]
    emit(bad)
    return out


def script_dir_of(script, cfg, sd):
    """command.revision created and updated its own ScriptDirectory; reach it through the returned Script's module
    is not possible, so redo what it did: add the new Script to our in-memory map exactly as generate_revision does"""
    from alembic.script.base import Script
    if script is None:
        return sd
    s = Script._from_path(sd, script.path)
    sd.revision_map.add_revision(s)
    return sd


def classify(h, out):
    if h.get("finding"):
        return h["finding"]
    steps = [st for st in (out or {}).get("steps", []) if not st.get("rejected")]
    if any(st.get("file", "").startswith(("__init__", ".#")) and not st.get("loaded") for st in steps):
        return "C17-filename-ignored-by-loader"       # e.g. a slug-first template and a message that starts with __init__
    tpl = (h.get("cfg") or {}).get("file_template") or "%%(rev)s_%%(slug)s"
    names = [st.get("file") for st in steps]
    if "(rev)" not in tpl and len(set(names)) < len(names):
        return "C17-file-template-without-rev-overwrites"
    return None
