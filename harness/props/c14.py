"""C14 — emitted DDL quotes every identifier and honours the schema.

Real side: every alembic DDL construct that has an @compiles visitor of alembic's own is built directly
(alembic.ddl.base / mysql / mssql / postgresql), compiled with the dialect of an as_sql MigrationContext
(`str(construct.compile(dialect=...))`) and also sent through `impl._exec(construct)` so that the text written in
as_sql mode is observed too.  Model side: Model.Visitors.emit_stmt.  Both strings are compared exactly.
SQLAlchemy's IdentifierPreparer (outside alembic) is modelled in Model.Quote and compared with
`dialect.identifier_preparer.quote` on generated strings and, for its parameters, as a whole (kind "params").
"""
import io
import json
import os
import random

from harness import coqfmt as cf

PROP = "C14"
COQ = dict(imports=["Spec.C14"], in_ty="c14_case", out_ty="c14_obs", corr="corr_C14", decide="check_C14", model="model_C14",
           # wire format only: named constants for the ASCII code points parse ~3x faster than numerals
           preamble="\n".join("Definition c%d : N := %d." % (k, k) for k in range(128)))


def enc(s):
    """a string as a Coq list of code points"""
    return "[" + "; ".join(("c%d" % ord(ch)) if ord(ch) < 128 else str(ord(ch)) for ch in s) + "]"

THEOREMS = ["C14_quote_lex_roundtrip", "C14_strlit_roundtrip", "C14_format_table_roundtrip", "C14_strip_lex",
            "C14_decider_sound", "C14_visitor_sound", "C14_wf_table", "C14_main", "C14_main_cases", "C14_emits",
            "C14_every_piece_reads_back", "C14_schema_qualifies_every_table", "C14_inner_sql_sound", "C14_plan_carries_names", "C14_op_main", "C14_corr_transfers",
            "C14_quoted_name_roundtrip", "C14_forced_flags", "C14_sa_ok_trivial",
            "C14_refuted_percent", "C14_refuted_tab", "C14_refuted_trailing_newline",
            "C14_main_strict", "C14_outside_forced_unquoted", "C14_outside_sa_dotted_schema",
            "C14_old_oracle_comment_rejected", "C14_old_mssql_literal_rejected"]
TRUSTED = [
    "SQLAlchemy IdentifierPreparer (quote, _requires_quotes, quote_identifier, _escape_identifier, reserved_words, "
    "legal_characters, illegal_initial_characters, _double_percents) is outside alembic: modelled in Model/Quote.v + "
    "Model/C14Reserved.v, compared on every run with dialect.identifier_preparer.quote on generated strings and, for the "
    "parameters, exhaustively over all code points (kind 'params')",
    "text produced by SQLAlchemy inside a statement (type, server default, comment literal, identity options, column "
    "specification after the column name, USING expression, sys.* view name) is an opaque token taken from the "
    "implementation; the theorems assume it is lexically closed, tab-free and free of non-ASCII white space outside quotes "
    "(opaque_ok, evaluated on every case)",
    "the lexer Model.Quote.lex is our statement of 'the dialect's rules': quote characters with doubling, '...' with '' "
    "doubling (and backslash escapes on MySQL), maximal runs of [A-Za-z0-9_$] as words, ASCII white space; comments, "
    "E''/N''/$$ strings and numeric syntax are not modelled (alembic's own text contains none)",
    "Python str.isspace()/str.strip(), str.split('.'), str.replace are modelled (space set compared exhaustively per run)",
]
ASSUME = [
    "names are plain str or quoted_name(.., quote=None/True/False) (the column of the mssql _ExecDrop*Constraint constructs "
    "given as str, not as a table-bound Column object - see finding C14-mssql-drop-constraint-bound-column), non-empty, "
    "and each dotted part of a plain-str schema is non-empty; a quoted_name schema is one identifier (quote_dotted does not "
    "split it)",
    "quoted_name(.., quote=False) is emitted raw: inside the theorem class only for names that need no quotes; for names that "
    "need them the statement does not read back as the name (C14_outside_forced_unquoted) - the caller's explicit opt-out, "
    "which the property (quantifying over identifier strings) does not judge: C14_holds is vacuous there, the decider "
    "answers true, the model and the exact comparison still cover the class",
    "MySQL/MariaDB DROP CHECK / DROP CONSTRAINT wrapper: a plain dotted schema is quoted by SQLAlchemy's format_table as ONE "
    "identifier whereas alembic's own helpers emit the chain (C14_outside_sa_dotted_schema); MySQL has no three-part names "
    "and the property does not fix which reading is expected, so this class too is compared exactly but not judged; "
    "constraint names within the dialect's length limit; the FK / PK / "
    "UNIQUE branch delegates to SQLAlchemy's visit_drop_constraint and is not modelled",
    "theorem class env_ok: no name contains '%' on postgresql/mysql, a tab, or ends in a newline (the three classes are "
    "refuted by C14_refuted_* and reported as findings); outside the class the exact comparison and the decider still run",
    "operation level: server defaults are plain strings (no Identity/Computed), types without DateTime affinity (MySQL's "
    "functional-default CHANGE branch off) and without type-bound constraints, columns added without constraints/comments; "
    "Identity server defaults are exercised at construct level only (IdentityColumnDefault drop / add / alter)",
    "constructs compiled entirely by SQLAlchemy (CreateTable, CreateIndex, AddConstraint, DropConstraint outside "
    "mysql/mariadb) are not modelled; SetTableComment / DropTableComment / SetColumnComment (op.create_table_comment, "
    "op.drop_table_comment, op.add_column of a commented Column) are modelled at the dispatch level only: which construct "
    "for which table / schema / column is handed to _exec and what _exec writes; their text is one opaque token and no "
    "identifier claim is made about it (on mssql without a schema SQLAlchemy itself raises offline: left out)",
    "postgresql create_exclude_constraint: the SQL text is SQLAlchemy's (AddConstraint / visit_exclude_constraint); modelled as "
    "ALTER TABLE <format_table> ADD CONSTRAINT <name> EXCLUDE USING <using> (<col> WITH <op>) [WHERE (<where>)] with ONE "
    "(column, operator) element, plain-str column; using / operator / where are opaque; the table reference goes through "
    "SQLAlchemy's format_table, so a plain dotted schema is not judged (as for MySQL DROP CHECK); deferrable/initially not used",
    "batch entry points whose constructs SQLAlchemy compiles alone (create_primary_key, create_unique_constraint, "
    "create_foreign_key, create_check_constraint, create_index, drop_index, drop_constraint) are not in the operation model",
    "alembic's own ColumnComment construct is only ever built by DefaultImpl.alter_column(comment=...): covered by the "
    "operation stream on every dialect (postgresql/oracle visitors, mysql/mariadb through MODIFY/CHANGE)",
]
RULE = ("every (dialect, construct incl. every combination of its boolean options) of the visitor table x schema in {None, "
        "plain, needs-quoting, dotted} x identifier classes {plain, reserved word, MixedCase, space, the dialect's quote "
        "character, single quote, non-ASCII, leading digit, $} in the table and column positions (quick: one position at a "
        "time plus the diagonal; thorough: the full square), further schema forms (dotted needing quotes, three parts, "
        "empty, reserved, with ') and ~30 further name classes (upper case, dot, brackets, ;--, inner newline, backslash, "
        "$/_ first, U+017F/U+0131/U+212A/U+0130, all quote characters, leading/trailing space, NBSP, astral, one char) "
        "one position at a time, empty names (IndexError), pairs without a visitor (must raise), seeded random names over a "
        "hostile alphabet in every position; identifier_preparer.quote on the same classes, random strings and reserved "
        "words; the preparer parameters of each dialect. non-trivial = a statement was emitted / quote() changed the "
        "string; distinct by encoded input. OPERATION-LEVEL stream (kind 'op'): the real Operations API in as_sql mode with a "
        "harness-side spy on impl._exec - op.alter_column in 29 argument shapes (default-only set/drop with/without "
        "existing default, type-only, nullable-only, rename, comment set/drop, autoincrement, postgresql_using, "
        "combinations, shapes that must raise CommandError) plus seeded random requests over the 12-field lattice, "
        "op.drop_column with every mssql_drop_default/check/foreign_key combination, op.add_column, op.rename_table, "
        "x dialect x schema {None, plain, needs-quoting, dotted, + extra forms} x identifier-class pairs; compared exactly: "
        "the sequence of constructs handed to _exec, the table/column/schema/new-name attributes each carries, and each "
        "emitted text; decided: every emitted statement reads back with the names and schema of the OPERATION. "
        "DEPTH: MariaDB is a sixth dialect in every stream; quoted_name(.., quote=None/True/False) objects in every name "
        "position (direct, operation and quote() streams); PostgreSQL alter-identity with six (existing, new) Identity pairs "
        "giving 0-5 SET clauses; MySQL/MariaDB DROP CHECK / DROP CONSTRAINT and the NotImplementedError branch; "
        "op.create_table_comment / drop_table_comment / add_column(commented Column). "
        "DIALECT STATE: every construct and every operation is also run with a dialect that knows its default schema - "
        "sqlite on a real connection (second schema ATTACHed) with as_sql=True, the server dialects as an object initialised "
        "like Dialect.initialize leaves it (default_schema_name public/dbo/SYSTEM/test, server_version_info) passed through "
        "MigrationContext.configure(dialect=...) - with schema = that default, another schema, one needing quotes, none, and "
        "the default as quoted_name; the model is the same (the schema is always emitted, alembic's ddl code reads no dialect "
        "state besides supports_comments/inline_comments and is_mariadb). "
        "BATCH ENTRY POINTS: op.batch_alter_table(table, schema=...) on every dialect but sqlite (non-recreate path) for the "
        "batch_* classmethods that take table name and schema from operations.impl and emit through modelled constructs "
        "(alter_column shapes, add_column, drop_column incl. mssql_drop_*, create/drop_table_comment, add_column with comment); "
        "postgresql create_exclude_constraint through both entry points (direct schema=, schema on the batch) x all schema "
        "forms x identifier classes for table / constraint / element column, with and without where=, three operators. "
        "Names of the known deviation classes are generated in the main stream "
        "only once their finding ids are registered in known_findings.json (always in the search stream).")
EXHAUSTIVE = {"quick": False, "thorough": False}
CASE_TIMEOUT = 60
DESIGN_REF = "DESIGN.md section 5 C14"
TECHNIQUE = ("Coq proofs by induction over arbitrary strings and piece lists (lexer automaton invariants, composition of "
             "lexically closed texts) plus a vm_compute table lemma over the transcribed visitors; tied to the code by exact "
             "string equality between the model's rendering and the real compiled / as_sql text on generated cases")
LEVEL_TEXT = ("Machine-checked: for every dialect, every alembic @compiles visitor (transcribed as a list of pieces and "
              "proved well-formed by computation), every schema and ALL identifier strings of the class (non-empty, no '%' "
              "on pg/mysql, no tab, no trailing newline), the emitted statement - as compiled and as written by _exec in "
              "as_sql mode - tokenises with the dialect's quoting rules into exactly the expected tokens (also proved one level up: the impl-level dispatch of alter_column/add_column/drop_column/rename_table gives every construct the operation's table, column, schema and new names, so every statement an operation emits reads back with the operation's names): each name as the "
              "identifier token of that very name or inside the intended, correctly escaped string literal, and the schema "
              "chain before every reference to the table. Quote/literal round trips hold for all strings and all quoting "
              "parameters. The three excluded name classes are refuted with witnesses. The model's text is compared "
              "exactly with the real alembic output on every run.")
LEVEL_NOTE = ("Trusted: Coq kernel + vm_compute; the hand transcription of the visitors and of SQLAlchemy's "
              "IdentifierPreparer (tied by exact correspondence on generated inputs only); our lexer as the reading of "
              "'the dialect's rules'; opaque SQLAlchemy text. Not covered: quoted_name flags, constructs compiled by "
              "SQLAlchemy itself, PostgreSQL alter-identity.")


class HarnessError(Exception):
    pass


DIALECTS = ["sqlite", "postgresql", "mysql", "mssql", "oracle", "mariadb"]
COQ_DIALECT = {"sqlite": "Sqlite", "postgresql": "Postgresql", "mysql": "Mysql", "mssql": "Mssql", "oracle": "Oracle",
               "mariadb": "Mariadb"}
QUOTE_CHAR = {"sqlite": '"', "postgresql": '"', "mysql": "`", "mssql": "]", "oracle": '"', "mariadb": "`"}

# construct name -> number of boolean flags
CONSTRUCTS = {
    "RenameTable": 0, "AddColumn": 1, "DropColumn": 0, "ColumnNullable": 1, "ColumnType": 0, "ColumnName": 0,
    "ColumnDefault": 1, "ComputedDefault": 0, "IdentityDrop": 0, "IdentityAdd": 0, "ColumnComment": 1,
    "PgColumnType": 1, "MysqlAlterDefault": 1, "MysqlModify": 4, "MysqlChange": 4, "MssqlDropConstraint": 0,
    "MssqlDropFK": 0, "IdentityAlter": 0, "MysqlDropCheck": 0, "MysqlDropGeneric": 0,
}
MYSQL_FAMILY = ("mysql", "mariadb")
# SQLAlchemy's DropConstraint is alembic's business only on mysql/mariadb; elsewhere SQLAlchemy compiles it itself
MYSQL_ONLY_GENERATED = ("MysqlDropCheck", "MysqlDropGeneric")
# (dialect, construct) pairs for which alembic has a visitor that emits SQL (the others must raise)
NATIVE_ONLY = {"PgColumnType": ["postgresql"], "MysqlAlterDefault": MYSQL_FAMILY, "MysqlModify": MYSQL_FAMILY,
               "MysqlChange": MYSQL_FAMILY, "MssqlDropConstraint": ["mssql"], "MssqlDropFK": ["mssql"],
               "IdentityAlter": ["postgresql", "oracle"], "MysqlDropCheck": MYSQL_FAMILY, "MysqlDropGeneric": [],
               "ColumnComment": ["postgresql", "oracle"], "IdentityDrop": ["postgresql", "oracle"],
               "IdentityAdd": ["postgresql", "oracle"], "ComputedDefault": []}
MYSQL_RAISES = {"ColumnNullable", "ColumnType", "ColumnName", "ColumnDefault"}

FINDING_IDS = {"pct": "C14-percent-doubled-in-identifier", "tab": "C14-tab-in-identifier-replaced-offline",
               "nl": "C14-trailing-newline-unquoted"}
# two classes the property does not judge (decider silent, exact comparison on): always generated in the main stream
UNJUDGED = {"unq": True, "sadot": True}
PCT_DIALECTS = ("postgresql", "mysql", "mariadb")
QFLAG = {"plain": "Plain", "none": "QNone", "true": "QTrue", "false": "QFalse", None: "Plain"}
SLOTS = ("schema", "table", "newtable", "column", "newcolumn")


def nm(h, slot):
    """the name object the operation is called with: a plain str, or a quoted_name carrying a quote flag"""
    from sqlalchemy.sql.elements import quoted_name
    v = h[slot]
    f = (h.get("flags") or {}).get(slot, "plain")
    if v is None or f in ("plain", None):
        return v
    return quoted_name(v, {"none": None, "true": True, "false": False}[f])


def coq_flags(h):
    fl = h.get("flags") or {}
    return "(mkFlags %s)" % " ".join(QFLAG[fl.get(k, "plain")] for k in SLOTS)


def emits(dialect, cname):
    if cname in NATIVE_ONLY:
        return dialect in NATIVE_ONLY[cname]
    if dialect in MYSQL_FAMILY and cname in MYSQL_RAISES:
        return False
    return True


def all_flag_sets(cname):
    if cname == "IdentityAlter":
        return [[k] for k in range(len(IDENT_PAIRS))]
    n = CONSTRUCTS[cname]
    return [[bool(m >> k & 1) for k in range(n)] for m in range(1 << n)]


# ----------------------------------------------------------------------------- real side

_CTX = {}


# "dialect state": how the dialect object of the MigrationContext came to be
#   bare - built from the dialect name alone (default_schema_name is None)
#   live - sqlite only: a real connection (with a second ATTACHed schema "aux"), as_sql=True on top of it
#   init - a dialect object initialised the way Dialect.initialize(connection) leaves it (default_schema_name,
#          server_version_info), passed through MigrationContext.configure(dialect=...)
DEFAULT_SCHEMA = {"sqlite": "main", "postgresql": "public", "mssql": "dbo", "oracle": "SYSTEM", "mysql": "test",
                  "mariadb": "test"}
SERVER_VERSION = {"postgresql": (14, 5), "mssql": (15, 0, 2000, 5), "oracle": (19, 3), "mysql": (8, 0, 30),
                  "mariadb": (10, 6, 12)}
STATES = {"sqlite": ["live"], "postgresql": ["init"], "mssql": ["init"], "oracle": ["init"], "mysql": ["init"],
          "mariadb": ["init"]}
_CUR = {"state": "bare"}
_KEEP = []      # live connections / engines stay open for the life of the worker


def _ctx(dialect, state=None):
    state = state or _CUR["state"]
    if (dialect, state) not in _CTX:
        import logging
        import warnings
        warnings.simplefilter("ignore")
        logging.disable(logging.CRITICAL)
        from alembic.runtime.migration import MigrationContext
        buf = io.StringIO()
        opts = {"as_sql": True, "output_buffer": buf}
        if state == "bare":
            c = MigrationContext.configure(dialect_name=dialect, opts=opts)
        elif state == "live":
            import sqlalchemy as sa
            if dialect != "sqlite":
                raise HarnessError("no live server for " + dialect)
            engine = sa.create_engine("sqlite://")
            conn = engine.connect()
            conn.exec_driver_sql("ATTACH DATABASE ':memory:' AS aux")
            _KEEP.extend([engine, conn])
            c = MigrationContext.configure(connection=conn, opts=opts)
            if c.dialect.default_schema_name != DEFAULT_SCHEMA["sqlite"]:
                raise HarnessError("live sqlite dialect does not know its default schema")
        else:
            from sqlalchemy.engine import url as sa_url
            d = sa_url.make_url(dialect + "://").get_dialect()()
            d.default_schema_name = DEFAULT_SCHEMA[dialect]
            d.server_version_info = SERVER_VERSION[dialect]
            c = MigrationContext.configure(dialect=d, opts=opts)
            if c.dialect is not d:
                raise HarnessError("MigrationContext did not take the dialect object")
        ddlc = c.dialect.ddl_compiler(c.dialect, None)
        _CTX[(dialect, state)] = (c, buf, ddlc)
    return _CTX[(dialect, state)]


TYPES = {"int": lambda sa: sa.Integer(), "str5": lambda sa: sa.String(5), "num": lambda sa: sa.Numeric(10, 2)}
DEFAULTS = {"five": "5", "lit": "'x y'", "fn": "now()"}
COMMENTS = {"plain": "plain comment", "quote": "c'm", "bs": "back\\slash it's"}
USINGS = {"cast": "c::integer", "expr": "(c || 'x y')::text"}
# (existing identity, new identity) as keyword dicts
IDENT_PAIRS = [
    (dict(always=False), dict(always=True)),
    (dict(always=True, start=1), dict(always=False, start=5)),
    (dict(start=1, increment=1), dict(start=5, increment=2)),
    (dict(always=False, start=1), dict(always=True, start=7, increment=3, cycle=True, maxvalue=99)),
    (dict(start=3), dict(start=3)),
    (dict(always=True, cache=5), dict(always=True, cache=9, minvalue=2)),
]


def build(h):
    """the real construct and the opaque texts SQLAlchemy produces for it, in the order the model reads them"""
    import sqlalchemy as sa
    from sqlalchemy import types as sqltypes
    from alembic.ddl import base, mssql, mysql, postgresql
    c, buf, ddlc = _ctx(h["dialect"])
    dialect = c.dialect
    name, flags = h["construct"][0], h["construct"][1:]
    t, nt, col, ncol, sch = nm(h, "table"), nm(h, "newtable"), nm(h, "column"), nm(h, "newcolumn"), nm(h, "schema")
    steps = None
    type_ = TYPES[h.get("type", "int")](sa)
    deflt = DEFAULTS[h.get("default", "five")]
    comment = COMMENTS[h.get("comment", "plain")]
    using = USINGS[h.get("using", "cast")]
    native = emits(h["dialect"], name)

    def typ(x):
        return dialect.type_compiler.process(x)

    def dflt(x):
        return ddlc.get_column_default_string(sa.Column("x", sa.Integer, server_default=x))

    def lit(x):
        return ddlc.sql_compiler.render_literal_value(x, sqltypes.String())

    opq = []
    if name == "RenameTable":
        el = base.RenameTable(t, nt, schema=sch)
    elif name == "AddColumn":
        args = [sa.CheckConstraint("x > 0")] if flags[0] else []
        column = sa.Column(col, type_, *args)
        sa.Table(t, sa.MetaData(), column, schema=sch)     # operations.toimpl.add_column binds the column to a table first
        el = base.AddColumn(t, column, schema=sch)
        if native and col != "":
            spec = ddlc.get_column_specification(column)
            prefix = dialect.identifier_preparer.format_column(column) + " "
            if not spec.startswith(prefix):
                raise HarnessError("get_column_specification does not start with the formatted column name: %r" % spec)
            opq = [spec[len(prefix):], " ".join(ddlc.process(k) for k in column.constraints)]
    elif name == "DropColumn":
        el = base.DropColumn(t, sa.Column(col, sqltypes.NULLTYPE), schema=sch)
    elif name == "ColumnNullable":
        el = base.ColumnNullable(t, col, flags[0], schema=sch, existing_type=type_)
        opq = [typ(type_)]
    elif name == "ColumnType":
        el = base.ColumnType(t, col, type_, schema=sch)
        opq = [typ(type_)]
    elif name == "ColumnName":
        el = base.ColumnName(t, col, ncol, schema=sch)
    elif name == "ColumnDefault":
        el = base.ColumnDefault(t, col, deflt if flags[0] else None, schema=sch)
        opq = [dflt(deflt)]
    elif name == "ComputedDefault":
        el = base.ComputedColumnDefault(t, col, sa.Computed("x + 1"), schema=sch)
    elif name == "IdentityDrop":
        el = base.IdentityColumnDefault(t, col, None, c.impl, schema=sch, existing_server_default=sa.Identity())
    elif name == "IdentityAdd":
        ident = sa.Identity(start=5, increment=2)
        el = base.IdentityColumnDefault(t, col, ident, c.impl, schema=sch, existing_server_default=None)
        if native:
            opq = [ddlc.visit_identity_column(ident)]
    elif name == "ColumnComment":
        el = base.ColumnComment(t, col, comment if flags[0] else None, schema=sch)
        if native:
            opq = [lit(comment if flags[0] else "")]
    elif name == "PgColumnType":
        el = postgresql.PostgresqlColumnType(t, col, type_, schema=sch, using=using if flags[0] else None)
        opq = [typ(type_), using]
    elif name == "MysqlAlterDefault":
        el = mysql.MySQLAlterDefault(t, col, deflt if flags[0] else None, schema=sch)
        opq = [dflt(deflt)]
    elif name in ("MysqlModify", "MysqlChange"):
        cls = mysql.MySQLModifyColumn if name == "MysqlModify" else mysql.MySQLChangeColumn
        kw = dict(schema=sch, type_=type_, nullable=flags[0], autoincrement=flags[1],
                  default=deflt if flags[2] else False, comment=comment if flags[3] else False)
        if name == "MysqlChange":
            kw["newname"] = ncol
        el = cls(t, col, **kw)
        opq = [typ(type_), dflt(deflt), lit(comment) if native else ""]
    elif name == "MssqlDropConstraint":
        tp = "sys.default_constraints" if h.get("default", "five") != "lit" else "sys.check_constraints"
        el = mssql._ExecDropConstraint(t, col, tp, sch)
        opq = [tp]
    elif name == "MssqlDropFK":
        el = mssql._ExecDropFKConstraint(t, col, sch)
    elif name == "IdentityAlter":
        old, new = (sa.Identity(**kw) for kw in IDENT_PAIRS[flags[0]])
        el = base.IdentityColumnDefault(t, col, new, c.impl, schema=sch, existing_server_default=old)
        steps = []
        if h["dialect"] == "postgresql":
            diff, _, _ = c.impl._compare_identity_default(new, old)
            for attr in sorted(diff):
                if attr == "always":
                    steps.append(bool(new.always))
                else:
                    steps.append(None)
                    opq.append(ddlc.get_identity_options(sa.Identity(**{attr: getattr(new, attr)})))
        elif native:
            opq = [ddlc.visit_identity_column(new)]
    elif name in ("MysqlDropCheck", "MysqlDropGeneric"):
        tbl = sa.Table(t, sa.MetaData(), sa.Column("x", sa.Integer), schema=sch)
        ck = sa.CheckConstraint(sa.text("x > 0"), name=col) if name == "MysqlDropCheck" else sa.schema.Constraint(name=col)
        if name == "MysqlDropCheck":
            tbl.append_constraint(ck)
        else:
            ck._set_parent_with_dispatch(tbl)
        el = sa.schema.DropConstraint(ck)
    else:
        raise HarnessError("unknown construct " + name)
    return el, opq, steps


def errname(e):
    from sqlalchemy import exc
    if isinstance(e, IndexError):
        return "EIndex"
    if isinstance(e, NotImplementedError):
        return "ENotImplemented"
    if isinstance(e, exc.CompileError):
        return "ECompile"
    if isinstance(e, AssertionError):
        return "EAssert"
    from alembic.util import CommandError
    if isinstance(e, CommandError):
        return "ECommand"
    return "EOther"


def coq_construct(cn, steps=None):
    name, flags = cn[0], cn[1:]
    if name == "Foreign":
        return "(CForeign %s)" % flags[0]
    if name == "IdentityAlter":
        return "(CIdentityAlter %s)" % cf.lst("None" if x is None else "(Some %s)" % cf.boolean(x) for x in (steps or []))
    if not flags:
        return "C" + name
    return "(C%s %s)" % (name, " ".join(cf.boolean(b) for b in flags))


def run_stmt(h):
    c, buf, _ = _ctx(h["dialect"])
    el, opq, steps = build(h)
    try:
        compiled = str(el.compile(dialect=c.dialect))
        buf.seek(0)
        buf.truncate()
        c.impl._exec(el)
        offline = buf.getvalue()
        out = {"compiled": compiled, "offline": offline}
        k = 0
        while k < len(compiled) and k < len(offline) and compiled[k] == offline[k]:
            k += 1
        cout = "ObsStmt (out_sql_pre %s %d%%nat %s)" % (enc(compiled), k, enc(offline[k:]))
    except Exception as e:  # raised by alembic / SQLAlchemy: part of the observable, by class
        out = {"err": errname(e), "exc": type(e).__name__}
        cout = "ObsStmt (OutErr %s)" % out["err"]
    env = "(mkEnv %s %s %s %s %s %s %s)" % (cf.opt(h["schema"], enc), enc(h["table"]), enc(h["newtable"]),
                                          enc(h["column"]), enc(h["newcolumn"]), cf.lst(enc(o) for o in opq), coq_flags(h))
    cin = "CaseStmt %s %s %s" % (COQ_DIALECT[h["dialect"]], coq_construct(h["construct"], steps), env)
    shape = "stmt-%s-%s-%s" % (h["dialect"], h["construct"][0], "err" if "err" in out else "sql")
    return dict(cin=cin, cout=cout, out=out, nontrivial="err" not in out, shape=shape)


def run_quote(h):
    c, _, _ = _ctx(h["dialect"])
    try:
        r = c.dialect.identifier_preparer.quote(nm(dict(s=h["s"], flags={"s": h.get("flag", "plain")}), "s"))
        out, cout = {"quoted": r}, "ObsQuote (Some %s)" % enc(r)
    except IndexError:
        out, cout = {"err": "EIndex"}, "ObsQuote None"
    return dict(cin="CaseQuote %s %s %s" % (COQ_DIALECT[h["dialect"]], QFLAG[h.get("flag", "plain")], enc(h["s"])), cout=cout, out=out,
                nontrivial="quoted" in out and out["quoted"] != h["s"], shape="quote-" + h["dialect"])


def ranges(cps):
    """maximal runs of consecutive code points of a sorted list, as a Coq list of pairs"""
    out = []
    for k in cps:
        if out and out[-1][1] == k - 1:
            out[-1][1] = k
        else:
            out.append([k, k])
    return cf.lst("(%d, %d)" % (a, b) for a, b in out)


def run_params(h):
    c, _, _ = _ctx(h["dialect"])
    p = c.dialect.identifier_preparer
    cps = [k for k in range(0x110000) if not 0xD800 <= k <= 0xDFFF]
    legal = [k for k in cps if p.legal_characters.match(chr(k))]
    changing = [k for k in legal if chr(k).lower() != chr(k)]
    space = [k for k in cps if chr(k).isspace()]
    if len(p.initial_quote) != 1 or len(p.final_quote) != 1:
        raise HarnessError("multi-character quote")
    if p._escape_identifier(p.final_quote) != p.final_quote * 2:
        raise HarnessError("closing quote is not escaped by doubling")
    out = {"open": p.initial_quote, "close": p.final_quote, "double_percents": bool(p._double_percents),
           "reserved": len(p.reserved_words), "illegal_initial": sorted(p.illegal_initial_characters),
           "legal": len(legal), "space": len(space)}
    cout = "ObsParams %d %d %s %s %s %s %s %s" % (
        ord(p.initial_quote), ord(p.final_quote), cf.boolean(p._double_percents),
        cf.lst(enc(w) for w in sorted(p.reserved_words)),
        cf.nlist(sorted(ord(x) for x in p.illegal_initial_characters)), ranges(legal), ranges(changing), ranges(space))
    return dict(cin="CaseParams %s" % COQ_DIALECT[h["dialect"]], cout=cout, out=out, nontrivial=True,
                shape="params-" + h["dialect"])


# ----------------------------------------------------------------------------- operation level

TRI = {None: "TNone", True: "TTrue", False: "TFalse"}
DREQ = {"keep": "DKeep", "drop": "DDrop", "set": "DSet"}
REQ_DEFAULT = dict(nullable=None, default="keep", rename=False, type=False, comment="keep", autoinc=None, ex_type=False,
                   ex_nullable=None, ex_default="keep", ex_comment=False, ex_autoinc=False, using=False)


def describe(el, dialect_name):
    """kind, names and opaque texts of a construct handed to impl._exec (read off the real object)"""
    import sqlalchemy as sa
    from sqlalchemy import types as sqltypes
    from alembic.ddl import base, mssql, mysql, postgresql
    c, _, ddlc = _ctx(dialect_name)
    dialect = c.dialect
    typ = lambda x: dialect.type_compiler.process(x) if x is not None else ""
    dflt = lambda x: ddlc.get_column_default_string(sa.Column("x", sa.Integer, server_default=x))
    lit = lambda x: ddlc.sql_compiler.render_literal_value(x, sqltypes.String())
    T = type(el)
    names = dict(table=getattr(el, "table_name", ""), column=getattr(el, "column_name", ""), schema=getattr(el, "schema", None),
                 newname=getattr(el, "newname", "") or "", newtable="")
    opq = []
    if T is base.RenameTable:
        cn = ["RenameTable"]
        names["newtable"] = el.new_table_name
    elif T is base.AddColumn:
        names["column"] = el.column.name
        const = " ".join(ddlc.process(k) for k in el.column.constraints)
        cn = ["AddColumn", bool(const)]
        spec = ddlc.get_column_specification(el.column)
        prefix = dialect.identifier_preparer.format_column(el.column) + " "
        if not spec.startswith(prefix):
            raise HarnessError("get_column_specification does not start with the formatted column name: %r" % spec)
        opq = [spec[len(prefix):], const]
    elif T is base.DropColumn:
        cn = ["DropColumn"]
        names["column"] = el.column.name
    elif T is base.ColumnNullable:
        cn, opq = ["ColumnNullable", bool(el.nullable)], [typ(el.existing_type)]
    elif T is base.ColumnType:
        cn, opq = ["ColumnType"], [typ(el.type_)]
    elif T is base.ColumnName:
        cn = ["ColumnName"]
    elif T is base.ColumnDefault:
        cn, opq = ["ColumnDefault", el.default is not None], [dflt(el.default) if el.default is not None else ""]
    elif T is base.ColumnComment:
        cn = ["ColumnComment", el.comment is not None]
        opq = [lit(el.comment if el.comment is not None else "")] if dialect_name in ("postgresql", "oracle") else []
    elif T is postgresql.PostgresqlColumnType:
        cn, opq = ["PgColumnType", bool(el.using)], [typ(el.type_), el.using or ""]
    elif T is mysql.MySQLAlterDefault:
        cn, opq = ["MysqlAlterDefault", el.default is not None], [dflt(el.default) if el.default is not None else ""]
    elif T in (mysql.MySQLModifyColumn, mysql.MySQLChangeColumn):
        has_d = el.default is not False and el.default is not None
        cn = ["MysqlModify" if T is mysql.MySQLModifyColumn else "MysqlChange", bool(el.nullable), bool(el.autoincrement),
              has_d, bool(el.comment)]
        opq = [typ(el.type_), dflt(el.default) if has_d else "", lit(el.comment) if el.comment else ""]
    elif T is mssql._ExecDropConstraint:
        cn, opq = ["MssqlDropConstraint"], [el.type_]
        names.update(table=el.tname, column=str(el.colname))
    elif T is mssql._ExecDropFKConstraint:
        cn = ["MssqlDropFK"]
        names.update(table=el.tname, column=str(el.colname))
    elif T is sa.schema.AddConstraint and type(el.element).__name__ == "ExcludeConstraint":
        ex = el.element
        exprs = list(ex._render_exprs)
        if len(exprs) != 1:
            raise HarnessError("only one-element EXCLUDE constraints are modelled")
        cn = ["PgExclude", ex.where is not None]
        names.update(table=ex.table.name, schema=ex.table.schema, column=ex.name, newname=exprs[0][1])
        opq = [str(ex.using).lower(), exprs[0][2],
               ddlc.sql_compiler.process(ex.where, literal_binds=True) if ex.where is not None else ""]
    elif T in (sa.schema.SetTableComment, sa.schema.DropTableComment, sa.schema.SetColumnComment):
        # compiled entirely by SQLAlchemy: the text is one opaque token; what alembic decides is which table / schema /
        # column the construct is about
        cn = ["Foreign", {sa.schema.SetTableComment: "FSetTableComment", sa.schema.DropTableComment: "FDropTableComment",
                          sa.schema.SetColumnComment: "FSetColumnComment"}[T]]
        tbl = el.element.table if T is sa.schema.SetColumnComment else el.element
        names.update(table=tbl.name, schema=tbl.schema, column=el.element.name if T is sa.schema.SetColumnComment else "")
        opq = [str(el.compile(dialect=dialect))]
    else:
        raise HarnessError("construct outside the modelled set handed to _exec: %r" % T)
    return cn, names, opq


def coq_req(r):
    return "(mkReq %s %s %s %s %s %s %s %s %s %s %s %s)" % (
        TRI[r["nullable"]], DREQ[r["default"]], cf.boolean(r["rename"]), cf.boolean(r["type"]), DREQ[r["comment"]],
        TRI[r["autoinc"]], cf.boolean(r["ex_type"]), TRI[r["ex_nullable"]], DREQ[r["ex_default"]],
        cf.boolean(r["ex_comment"]), cf.boolean(r["ex_autoinc"]), cf.boolean(r["using"]))


def coq_op(o):
    if o[0] == "alter":
        return "(OpAlterColumn %s)" % coq_req(o[1])
    if o[0] == "drop":
        return "(OpDropColumn %s %s %s)" % tuple(cf.boolean(b) for b in o[1:])
    if o[0] == "exclude":
        return "(OpCreateExclude %s)" % cf.boolean(o[1])
    return {"rename_table": "OpRenameTable", "add": "OpAddColumn", "table_comment": "OpCreateTableComment",
            "drop_table_comment": "OpDropTableComment", "add_comment": "OpAddColumnComment"}[o[0]]


EXCL_OPS = {"gt": ">", "overlap": "&&", "eq": "="}
EXCL_WHERE = {"five": "x > 5", "lit": "y <> 'a b'", "fn": "z IS NOT NULL"}


def call_op(op, h):
    """the real Operations call — through the plain entry point, or (h["batch"]) through op.batch_alter_table(table,
    schema=...), whose batch_* classmethods take table name and schema from operations.impl"""
    import sqlalchemy as sa
    t, nt, col, ncol, sch = nm(h, "table"), nm(h, "newtable"), nm(h, "column"), nm(h, "newcolumn"), nm(h, "schema")
    o = h["op"]
    if h.get("batch"):
        with op.batch_alter_table(t, schema=sch) as b:
            _call(b, h, o, (), col, ncol, nt, None, sa)
    else:
        _call(op, h, o, (t,), col, ncol, nt, sch, sa)


def _call(op, h, o, tbl, col, ncol, nt, sch, sa):
    skw = {} if not tbl else dict(schema=sch)
    if o[0] == "rename_table":
        op.rename_table(*tbl, nt, **skw)
    elif o[0] == "add":
        op.add_column(*tbl, sa.Column(col, TYPES[h["type"]](sa)), **skw)
    elif o[0] == "drop":
        op.drop_column(*tbl, col, mssql_drop_default=o[1], mssql_drop_check=o[2], mssql_drop_foreign_key=o[3], **skw)
    elif o[0] == "table_comment":
        op.create_table_comment(*tbl, COMMENTS[h["comment"]], existing_comment=None, **skw)
    elif o[0] == "drop_table_comment":
        op.drop_table_comment(*tbl, existing_comment=COMMENTS[h["comment"]], **skw)
    elif o[0] == "add_comment":
        op.add_column(*tbl, sa.Column(col, TYPES[h["type"]](sa), comment=COMMENTS[h["comment"]]), **skw)
    elif o[0] == "exclude":
        kw = dict(using="gist", **skw)
        if o[1]:
            kw["where"] = EXCL_WHERE[h["default"]]
        # (constraint name, [table,] (column, operator)): the column slot carries the constraint name
        op.create_exclude_constraint(col, *tbl, (ncol, EXCL_OPS[h.get("excl", "gt")]), **kw)
    else:
        r = o[1]
        kw = dict(skw)
        if r["nullable"] is not None:
            kw["nullable"] = r["nullable"]
        if r["default"] != "keep":
            kw["server_default"] = DEFAULTS[h["default"]] if r["default"] == "set" else None
        if r["rename"]:
            kw["new_column_name"] = ncol
        if r["type"]:
            kw["type_"] = TYPES[h["type"]](sa)
        if r["comment"] != "keep":
            kw["comment"] = COMMENTS[h["comment"]] if r["comment"] == "set" else None
        if r["autoinc"] is not None:
            kw["autoincrement"] = r["autoinc"]
        if r["ex_type"]:
            kw["existing_type"] = sa.String(7)
        if r["ex_nullable"] is not None:
            kw["existing_nullable"] = r["ex_nullable"]
        if r["ex_default"] != "keep":
            kw["existing_server_default"] = "'old d'" if r["ex_default"] == "set" else None
        if r["ex_comment"]:
            kw["existing_comment"] = "old c'm"
        if r["ex_autoinc"]:
            kw["existing_autoincrement"] = True
        if r["using"]:
            kw["postgresql_using"] = USINGS[h["using"]]
        op.alter_column(*tbl, col, **kw)


def run_op(h):
    from alembic.operations import Operations
    c, buf, _ = _ctx(h["dialect"])
    impl = c.impl
    real_exec = impl._exec
    steps, state = [], {"inner": False}

    def spy(construct, *a, **kw):
        cn, names, opq = describe(construct, h["dialect"])
        rec = dict(construct=cn, opq=opq, **names)
        steps.append(rec)
        try:
            rec["compiled"] = str(construct.compile(dialect=c.dialect))
            buf.seek(0)
            buf.truncate()
            r = real_exec(construct, *a, **kw)
            rec["offline"] = buf.getvalue()
            return r
        except HarnessError:
            raise
        except Exception as e:
            rec.pop("compiled", None)
            rec["err"] = errname(e)
            state["inner"] = True
            raise

    raised = None
    impl._exec = spy                      # harness-side spy on the instance; the class in /repo is untouched
    try:
        call_op(Operations(c), h)
    except HarnessError:
        raise
    except Exception as e:
        if not state["inner"]:
            raised = errname(e)
    finally:
        del impl._exec
    outs = []
    for r in steps:
        if "err" in r:
            o = "(OutErr %s)" % r["err"]
        else:
            k = 0
            while k < len(r["compiled"]) and k < len(r["offline"]) and r["compiled"][k] == r["offline"][k]:
                k += 1
            o = "(out_sql_pre %s %d%%nat %s)" % (enc(r["compiled"]), k, enc(r["offline"][k:]))
        outs.append("(mkO %s %s %s %s %s %s %s)" % (coq_construct(r["construct"]), enc(r["table"]), enc(r["column"]),
                                                  cf.opt(r["schema"], enc), enc(r["newname"]), enc(r["newtable"]), o))
    cout = "ObsOp %s %s" % (cf.lst(outs), cf.opt(raised))
    cin = "CaseOp %s %s (mkNames %s %s %s %s %s %s) %s" % (
        COQ_DIALECT[h["dialect"]], coq_op(h["op"]), cf.opt(h["schema"], enc), enc(h["table"]), enc(h["newtable"]),
        enc(h["column"]), enc(h["newcolumn"]), coq_flags(h), cf.lst(cf.lst(enc(x) for x in r["opq"]) for r in steps))
    out = {"steps": [{k: v for k, v in r.items() if k != "opq"} for r in steps], "raised": raised}
    emitted = sum(1 for r in steps if "err" not in r)
    return dict(cin=cin, cout=cout, out=out, nontrivial=emitted > 0,
                shape="op-%s-%s-%d%s" % (h["dialect"], h["op"][0], emitted, "-err" if raised or emitted < len(steps) else ""))


def run_case(h):
    _CUR["state"] = h.get("state", "bare")
    try:
        r = {"stmt": run_stmt, "quote": run_quote, "params": run_params, "op": run_op}[h["kind"]](h)
    finally:
        _CUR["state"] = "bare"
    if h.get("state", "bare") != "bare":
        r["shape"] += "-" + h["state"]
    return r


# ----------------------------------------------------------------------------- generation

def name_classes(dialect):
    qc = QUOTE_CHAR[dialect]
    return {"plain": "tbl", "reserved": "select", "mixed": "MixedCase", "space": "has space", "quotechar": "a%sb" % qc,
            "squote": "it's", "nonascii": "naïve", "digit": "1st", "dollar": "a$b"}


def extra_classes(dialect):
    qc = QUOTE_CHAR[dialect]
    return {"upper": "UPPER", "dot": "a.b", "open": "a[b", "semi": "a;b--c", "innernl": "a\nb", "backslash": "a\\b",
            "dollar0": "$x", "under0": "_x", "longs": "ſx", "dotless": "ıx", "kelvin": "Kx",
            "idot": "İx", "allq": qc + qc + "'" + "''", "dq": 'a"b', "bt": "a`b", "rb": "a]]b", "sp0": " lead",
            "sp1": "trail ", "nbsp": "a b", "astral": "a\U0001F600b", "one": "x", "oneq": qc, "onesq": "'",
            "select_nl_in": "sel\nect", "at": "a@b", "hash": "#tmp", "paren": "f(x)", "comma": "a,b"}


def finding_classes():
    return {"pct": "a%b", "tab": "a\tb", "nl": "select\n"}


SCHEMAS = {"none": None, "plain": "sch", "quoting": "My Schema", "dotted": "db.sch"}
EXTRA_SCHEMAS = {"dotted_quoting": "My.s x", "empty": "", "reserved": "select", "squote": "o'sch", "three": "a.B.c d"}


def registered_findings():
    p = os.path.join(os.path.dirname(os.path.dirname(os.path.dirname(os.path.abspath(__file__)))), "known_findings.json")
    try:
        return {f["id"] for f in json.load(open(p)).get("findings", []) if f.get("property") == PROP}
    except Exception:
        return set()


def variant(rnd):
    return dict(type=rnd.choice(sorted(TYPES)), default=rnd.choice(sorted(DEFAULTS)),
                comment=rnd.choice(sorted(COMMENTS)), using=rnd.choice(sorted(USINGS)))


def stmt(dialect, cn, schema, t, c, rnd, nt=None, nc=None, flags=None):
    h = dict(kind="stmt", dialect=dialect, construct=cn, schema=schema, table=t, column=c,
             newtable=(t + "_n") if nt is None else nt, newcolumn=(c + "_n") if nc is None else nc)
    if flags:
        h["flags"] = flags
    h.update(variant(rnd))
    return h


def flag_sets(allow_unq):
    """quoted_name flag assignments: forced quote everywhere, mixed, quote=None objects, forced unquoted"""
    out = [dict.fromkeys(SLOTS, "true"), dict.fromkeys(SLOTS, "none"),
           dict(schema="true", table="none", newtable="true", column="true", newcolumn="none"),
           dict(schema="plain", table="true", newtable="plain", column="plain", newcolumn="true")]
    return out


def flagged(d, cn, rnd, classes, allow):
    """the same construct with quoted_name objects in the name positions"""
    for fl in flag_sets(allow["unq"]):
        yield stmt(d, cn, rnd.choice(["sch", "My Schema", "db.sch", None]), classes["space"], classes["reserved"], rnd, flags=fl)
        yield stmt(d, cn, "My.Sch x", "tbl", classes["quotechar"], rnd, flags=fl)
    # quote=False on names that need no quotes is harmless ...
    yield stmt(d, cn, "sch", "tbl", "col", rnd, flags=dict.fromkeys(SLOTS, "true"))
    yield stmt(d, cn, "sch", "tbl", "col", rnd, flags=dict.fromkeys(SLOTS, "false"))
    yield stmt(d, cn, None, "a$b", "c_1", rnd, flags=dict(table="false", column="false"))
    if allow["unq"]:
        # ... on names that need them it emits the raw text (known deviation class)
        yield stmt(d, cn, "My Schema", classes["space"], classes["mixed"], rnd, flags=dict.fromkeys(SLOTS, "false"))
        yield stmt(d, cn, "sch", classes["reserved"], "col", rnd, flags=dict(table="false"))
        yield stmt(d, cn, "db.sch", "tbl", "col", rnd, flags=dict(schema="false"))


ALPHABET = list("abcxyzABZ019_$ .'\"`[];-%\n\t\\") + ["é", "ı", "ſ", "K", "İ", " ", "中"]


def rand_name(rnd, allow):
    while True:
        n = rnd.choice([1, 1, 2, 3, 4, 6, 9])
        s = "".join(rnd.choice(ALPHABET) for _ in range(n))
        if not allow["pct"] and "%" in s:
            continue
        if not allow["tab"] and "\t" in s:
            continue
        if not allow["nl"] and any(part.endswith("\n") for part in s.split(".")):
            continue            # (a name is also used as a dotted schema, whose parts are quoted one by one)
        return s


def gen(tier, seed, with_findings):
    rnd = random.Random(seed * 7919 + 14)
    allow = {k: (FINDING_IDS[k] in with_findings) for k in FINDING_IDS}
    allow.update(UNJUDGED)
    for d in DIALECTS:
        yield dict(kind="params", dialect=d)
        classes = name_classes(d)
        extra = extra_classes(d)
        for k, v in finding_classes().items():
            if allow[k]:
                extra["finding_" + k] = v
        for cname in CONSTRUCTS:
            native = emits(d, cname)
            if cname in MYSQL_ONLY_GENERATED and d not in MYSQL_FAMILY:
                continue
            no_dots = cname == "MysqlDropCheck" and not allow["sadot"]
            for fl in all_flag_sets(cname):
                cn = [cname] + fl
                if not native:
                    # must raise whatever the names are
                    yield stmt(d, cn, None, "tbl", "col", rnd)
                    yield stmt(d, cn, "My Schema", "it's", "select", rnd)
                    continue
                for sk, sv in SCHEMAS.items():
                    if no_dots and sv and "." in sv:
                        continue
                    if tier != "quick":
                        combos = [(a, b) for a in classes for b in classes]
                    elif len(all_flag_sets(cname)) > 2 or (d == "mariadb" and cname != "MysqlDropCheck"):
                        # many option combinations (or MariaDB, whose visitors are MySQL's): fewer name pairs each
                        combos = [("plain", "plain"), ("reserved", "mixed"), ("space", "quotechar"), ("squote", "nonascii"),
                                  ("quotechar", "squote"), ("digit", "dollar"), ("mixed", "space"), ("nonascii", "reserved")]
                    else:
                        combos = [(a, "plain") for a in classes] + [("plain", b) for b in classes] + [(a, a) for a in classes]
                    for a, b in sorted(set(combos)):
                        yield stmt(d, cn, sv, classes[a], classes[b], rnd)
                # further schema forms and further name classes, one position at a time
                if (CONSTRUCTS[cname] <= 1 and not (tier == "quick" and d == "mariadb" and cname != "MysqlDropCheck")
                        and not (tier == "quick" and cname == "IdentityAlter" and fl != [1])) \
                        or tier != "quick" or rnd.random() < 0.15:
                    for case in flagged(d, cn, rnd, classes, allow):
                        if not (no_dots and case["schema"] and "." in case["schema"]
                                and (case.get("flags") or {}).get("schema", "plain") == "plain"):
                            yield case
                    for sk, sv in EXTRA_SCHEMAS.items():
                        if not (no_dots and "." in sv):
                            yield stmt(d, cn, sv, classes["space"], classes["mixed"], rnd)
                    for k, v in extra.items():
                        nodot = [x for x in SCHEMAS.values() if not (no_dots and x and "." in x)]
                        yield stmt(d, cn, rnd.choice(nodot), v, "col", rnd)
                        yield stmt(d, cn, rnd.choice(nodot), "tbl", v, rnd, nt=v, nc=v)
                        if not (no_dots and "." in v):
                            yield stmt(d, cn, v, "tbl", "col", rnd)
                    # empty names raise IndexError
                    yield stmt(d, cn, None, "", "col", rnd)
                    if cname != "AddColumn":     # a blank Column name is rejected by SQLAlchemy before any visitor runs
                        yield stmt(d, cn, "sch", "tbl", "", rnd)
                    if not no_dots:
                        yield stmt(d, cn, "a..b", "tbl", "col", rnd)
                    yield stmt(d, cn, None, "tbl", "col", rnd, nt="", nc="")
        # random names in every position
        nrand = 120 if tier == "quick" else 2500
        natives = [[cname] + fl for cname in CONSTRUCTS if emits(d, cname) for fl in all_flag_sets(cname)]
        for _ in range(nrand):
            cn = rnd.choice(natives)
            sch = rnd.choice([None, rand_name(rnd, allow), rand_name(rnd, allow) + "." + rand_name(rnd, allow)])
            fl = rnd.choice([None, None, {k: rnd.choice(["plain", "none", "true"]) for k in SLOTS}])
            if cn[0] == "MysqlDropCheck" and not allow["sadot"]:
                while sch and "." in sch:
                    sch = rand_name(rnd, allow)
            yield stmt(d, cn, sch, rand_name(rnd, allow), rand_name(rnd, allow), rnd,
                       nt=rand_name(rnd, allow), nc=rand_name(rnd, allow), flags=fl)
        # quote() itself
        for v in list(classes.values()) + list(extra.values()) + [""]:
            yield dict(kind="quote", dialect=d, s=v)
            for f in ("none", "true"):
                yield dict(kind="quote", dialect=d, s=v, flag=f)
            if allow["unq"] or not needs_quotes(d, v):
                yield dict(kind="quote", dialect=d, s=v, flag="false")
        nq = 400 if tier == "quick" else 5000
        for _ in range(nq):
            yield dict(kind="quote", dialect=d, s=rand_name(rnd, allow))
        c, _, _ = _ctx(d)
        words = sorted(c.dialect.identifier_preparer.reserved_words)
        for w in (words if tier != "quick" else rnd.sample(words, 25)):
            yield dict(kind="quote", dialect=d, s=w)
            yield dict(kind="quote", dialect=d, s=w.upper())
            yield dict(kind="quote", dialect=d, s=w + "x")


def req(**kw):
    r = dict(REQ_DEFAULT)
    r.update(kw)
    return r


ALTER_SHAPES = [
    req(default="set"), req(default="drop"), req(default="set", ex_default="set"), req(default="set", ex_default="drop"),
    req(default="drop", ex_type=True, ex_nullable=False),
    req(type=True), req(type=True, ex_type=True), req(type=True, ex_nullable=True), req(type=True, ex_nullable=False),
    req(nullable=True, ex_type=True), req(nullable=False, ex_type=True), req(nullable=False), req(nullable=True, type=True),
    req(rename=True, ex_type=True), req(rename=True), req(rename=True, ex_type=True, ex_nullable=False, ex_default="set",
                                                          ex_comment=True, ex_autoinc=True),
    req(comment="set", ex_type=True), req(comment="drop", ex_type=True), req(comment="set"),
    req(type=True, using=True), req(using=True), req(autoinc=True, ex_type=True), req(autoinc=False, ex_type=True, ex_autoinc=True),
    req(default="set", rename=True, ex_type=True), req(default="set", type=True), req(default="drop", nullable=True, ex_type=True),
    req(nullable=False, default="set", rename=True, type=True, comment="set"),
    req(nullable=True, default="drop", rename=True, type=True, comment="drop", using=True, ex_type=True),
    req(),
]


def rand_req(rnd):
    return req(nullable=rnd.choice([None, None, True, False]), default=rnd.choice(["keep", "keep", "drop", "set"]),
               rename=rnd.random() < 0.3, type=rnd.random() < 0.4, comment=rnd.choice(["keep", "keep", "drop", "set"]),
               autoinc=rnd.choice([None, None, None, True, False]), ex_type=rnd.random() < 0.6,
               ex_nullable=rnd.choice([None, True, False]), ex_default=rnd.choice(["keep", "keep", "drop", "set"]),
               ex_comment=rnd.random() < 0.3, ex_autoinc=rnd.random() < 0.2, using=rnd.random() < 0.15)


def op_case(d, o, schema, t, c, rnd, flags=None):
    h = dict(kind="op", dialect=d, op=o, schema=schema, table=t, column=c, newtable=t + "_n", newcolumn=c + "_n")
    if flags:
        h["flags"] = flags
    h.update(variant(rnd))
    return h


def gen_ops(tier, seed, with_findings):
    """operation-level stream: the real Operations API in as_sql mode"""
    for h in _gen_ops(tier, seed, with_findings):
        # SQLAlchemy's MSSQL comment constructs read dialect.default_schema_name, which an unconnected (as_sql) dialect
        # does not have: without a schema they raise inside SQLAlchemy - not alembic's doing, left out
        if h["dialect"] == "mssql" and h["op"][0] in ("table_comment", "drop_table_comment", "add_comment") and not h["schema"]:
            continue
        yield h
    yield from gen_state_ops(tier, seed)
    yield from gen_batch_ops(tier, seed)


def gen_batch_ops(tier, seed):
    """every batch_* entry point that takes table name and schema from operations.impl and emits through alembic's own
    constructs (alter_column, add_column, drop_column, the comment ops, postgresql create_exclude_constraint), on the
    non-recreate path (every dialect but sqlite), with a schema on the batch; plus create_exclude_constraint through
    both entry points"""
    rnd = random.Random(seed * 27449 + 1416)
    for d in DIALECTS:
        if d == "sqlite":
            continue
        cl = name_classes(d)
        shapes = ALTER_SHAPES if tier != "quick" else ALTER_SHAPES[::3]
        ops = [["alter", r] for r in shapes]
        ops += [["drop"] + [bool(m >> k & 1) for k in range(3)] for m in ((0, 1, 7) if d == "mssql" else (0,))]
        ops += [["add"], ["table_comment"], ["drop_table_comment"], ["add_comment"]]
        pairs = [("plain", "plain"), ("space", "reserved"), ("quotechar", "squote"), ("mixed", "nonascii")]
        for o in ops:
            for sv in list(SCHEMAS.values()) + ["My.Sch x"]:
                if d == "mssql" and o[0] in ("table_comment", "drop_table_comment", "add_comment") and not sv:
                    continue
                for a, b in (pairs[:2] if tier == "quick" else pairs):
                    h = op_case(d, o, sv, cl[a], cl[b], rnd)
                    h["batch"] = True
                    yield h
        if d != "postgresql":
            continue
        for batch in (False, True):
            for w in (False, True):
                for sv in list(SCHEMAS.values()) + list(EXTRA_SCHEMAS.values()):
                    for a in cl:
                        for b, c in ((a, "plain"), ("plain", a), (a, a)):
                            h = op_case(d, ["exclude", w], sv, cl[b], cl[c], rnd)
                            h["newcolumn"] = cl[a] if b != "plain" else cl["mixed"]
                            h["excl"] = rnd.choice(sorted(EXCL_OPS))
                            if batch:
                                h["batch"] = True
                            yield h


def state_schemas(d):
    """the dialect's own default schema, another schema, one that needs quotes, none"""
    return [DEFAULT_SCHEMA[d], "aux" if d == "sqlite" else "other_sch", DEFAULT_SCHEMA[d].upper() + " x", None]


def gen_state_stmts(tier, seed):
    """configuration dimension 'dialect state': every construct with a dialect that knows its default schema"""
    rnd = random.Random(seed * 31337 + 14)
    for d in DIALECTS:
        cl = name_classes(d)
        for st in STATES[d]:
            for cname in CONSTRUCTS:
                if not emits(d, cname) or (cname in MYSQL_ONLY_GENERATED and d not in MYSQL_FAMILY):
                    continue
                fls = all_flag_sets(cname)
                if tier == "quick" and len(fls) > 2:
                    fls = [fls[0], fls[-1]]
                for fl in fls:
                    for sv in state_schemas(d):
                        for t, c in ([("tbl", "col"), (cl["space"], cl["reserved"])] if tier == "quick" else
                                     [("tbl", "col"), (cl["space"], cl["reserved"]), (cl["quotechar"], cl["squote"])]):
                            h = stmt(d, [cname] + fl, sv, t, c, rnd)
                            h["state"] = st
                            yield h
                    h = stmt(d, [cname] + fl, DEFAULT_SCHEMA[d], "tbl", "col", rnd, flags=dict(schema="true"))
                    h["state"] = st
                    yield h


def gen_state_ops(tier, seed):
    rnd = random.Random(seed * 31337 + 1415)
    for d in DIALECTS:
        cl = name_classes(d)
        ops = [["alter", r] for r in (ALTER_SHAPES if tier != "quick" else ALTER_SHAPES[::2])]
        ops += [["drop"] + [bool(m >> k & 1) for k in range(3)] for m in (range(8) if d == "mssql" else (0, 7))]
        ops += [["rename_table"], ["add"], ["table_comment"], ["drop_table_comment"], ["add_comment"]]
        for st in STATES[d]:
            for o in ops:
                for sv in state_schemas(d):
                    for t, c in [("tbl", "col"), (cl["space"], cl["reserved"])]:
                        h = op_case(d, o, sv, t, c, rnd)
                        h["state"] = st
                        yield h


def _gen_ops(tier, seed, with_findings):
    rnd = random.Random(seed * 104729 + 1414)
    allow = {k: (FINDING_IDS[k] in with_findings) for k in FINDING_IDS}
    allow.update(UNJUDGED)
    for d in DIALECTS:
        cl = name_classes(d)
        if tier == "quick":
            combos = [("plain", "plain"), ("reserved", "mixed"), ("space", "quotechar"), ("squote", "nonascii"),
                      ("quotechar", "squote")]
        else:
            combos = [(a, "plain") for a in cl] + [("plain", b) for b in cl] + [(a, a) for a in cl]
        ops = [["alter", r] for r in ALTER_SHAPES]
        ops += [["drop"] + [bool(m >> k & 1) for k in range(3)] for m in (range(8) if d == "mssql" else (0, 7))]
        ops += [["rename_table"], ["add"], ["table_comment"], ["drop_table_comment"], ["add_comment"]]
        for k, o in enumerate(ops):
            for sv in SCHEMAS.values():
                for a, b in (sorted(set(combos))[:3] if tier == "quick" and o[0] == "alter" else sorted(set(combos))):
                    yield op_case(d, o, sv, cl[a], cl[b], rnd)
            if tier == "quick" and o[0] == "alter" and k % 3:
                continue
            for sv in EXTRA_SCHEMAS.values():
                yield op_case(d, o, sv, cl["space"], cl["mixed"], rnd)
            # quoted_name objects travel through the operation into the constructs
            for fl in flag_sets(allow["unq"])[:3]:
                yield op_case(d, o, rnd.choice(["My Schema", "db.sch", "sch"]), cl["reserved"], cl["space"], rnd, flags=fl)
            yield op_case(d, o, "sch", "tbl", "col", rnd, flags=dict.fromkeys(SLOTS, "true"))
            yield op_case(d, o, "sch", "tbl", "col", rnd, flags=dict.fromkeys(SLOTS, "false"))
            if allow["unq"]:
                yield op_case(d, o, "My Schema", cl["space"], cl["mixed"], rnd, flags=dict(schema="false", table="false", column="false"))
        for _ in range(60 if tier == "quick" else 1500):
            sch = rnd.choice([None, rand_name(rnd, allow) or "s", "My Schema", "db.sch"])
            while sch and "" in sch.split("."):
                sch = rand_name(rnd, allow)
            o = rnd.choice([["alter", rand_req(rnd)]] * 6 + [["drop"] + [rnd.random() < 0.5 for _ in range(3)], ["rename_table"], ["add"],
                            ["table_comment"], ["drop_table_comment"], ["add_comment"]])
            yield op_case(d, o, sch, rand_name(rnd, allow), rand_name(rnd, allow), rnd)


def generate(tier, seed):
    cases = (list(gen(tier, seed, registered_findings())) + list(gen_state_stmts(tier, seed))
             + list(gen_ops(tier, seed, registered_findings())))
    # spread the (expensive to evaluate) params cases over the case shards
    params = [h for h in cases if h["kind"] == "params"]
    rest = [h for h in cases if h["kind"] != "params"]
    step = max(1, len(rest) // (len(params) + 1))
    out = []
    for k, h in enumerate(rest):
        if k % step == 0 and params and k > 0:
            out.append(params.pop())
        out.append(h)
    out.extend(params)
    import collections
    _STATS["by_kind"] = dict(collections.Counter(h["kind"] for h in out))
    _STATS["in_theorem_class"] = sum(1 for h in out if in_class(h))
    _STATS["outside_theorem_class"] = sum(1 for h in out if not in_class(h))
    _STATS["by_dialect"] = dict(collections.Counter(h["dialect"] for h in out))
    _STATS["stmt_by_construct"] = dict(collections.Counter(h["construct"][0] for h in out if h["kind"] == "stmt"))
    _STATS["op_by_kind"] = dict(collections.Counter(h["op"][0] for h in out if h["kind"] == "op"))
    return out


def search(tier, seed):
    return (list(gen("quick", seed + 1, set(FINDING_IDS.values()))) + list(gen_state_stmts("quick", seed + 1))
            + list(gen_ops("quick", seed + 1, set(FINDING_IDS.values()))))


def used_names(h):
    name = h["construct"][0]
    names = [h["table"]] + (h["schema"].split(".") if h["schema"] else [])
    if name == "RenameTable":
        names.append(h["newtable"])
    else:
        names.append(h["column"])
    if name in ("ColumnName", "MysqlChange"):
        names.append(h["newcolumn"])
    return names


def op_names(h):
    names = [h["table"]] + (h["schema"].split(".") if h["schema"] else [])
    o = h["op"]
    if o[0] == "rename_table":
        names.append(h["newtable"])
    else:
        names.append(h["column"])
    if o[0] == "alter" and o[1]["rename"]:
        names.append(h["newcolumn"])
    return names


def needs_quotes(dialect, s):
    """the implementation's own verdict (used for classifying cases only)"""
    c, _, _ = _ctx(dialect)
    if s == "":
        return True          # the empty name cannot be written without quotes at all
    return bool(c.dialect.identifier_preparer._requires_quotes(s))


def flagged_names(h):
    """(name, flag) of every name the case uses; a plain schema counts part by part, a quoted_name schema as a whole"""
    if h["kind"] == "quote":
        return [(h["s"], h.get("flag", "plain"))]
    fl = h.get("flags") or {}
    used = op_names_slots(h) if h["kind"] == "op" else stmt_names_slots(h)
    out = []
    for slot in used:
        f = fl.get(slot, "plain")
        if slot == "schema":
            if h["schema"]:
                out += [(p, f) for p in (h["schema"].split(".") if f == "plain" else [h["schema"]])]
        else:
            out.append((h[slot], f))
    return out


def stmt_names_slots(h):
    name = h["construct"][0]
    slots = ["schema", "table", "newtable" if name == "RenameTable" else "column"]
    if name in ("ColumnName", "MysqlChange"):
        slots.append("newcolumn")
    return slots


def op_names_slots(h):
    o = h["op"]
    slots = ["schema", "table", "newtable" if o[0] == "rename_table" else "column"]
    if o[0] == "alter" and o[1]["rename"]:
        slots.append("newcolumn")
    return slots


def classify(h, out):
    """known deviation classes: names on which SQLAlchemy's quote() does not round-trip, or that _exec rewrites"""
    if h.get("kind") in ("stmt", "op", "quote"):
        fn = flagged_names(h)
        names = [n for n, f in fn]
        forced = {n for n, f in fn if f == "true"}
        if h["kind"] != "quote" and any("\t" in n for n in names):
            return FINDING_IDS["tab"]
        if any(n.endswith("\n") and n not in forced for n in names):
            return FINDING_IDS["nl"]
        if h["dialect"] in PCT_DIALECTS and any("%" in n for n, f in fn if f != "false"):
            return FINDING_IDS["pct"]
        return None
    if h.get("kind") == "quote":
        names = [h["s"]]
    elif h.get("kind") == "stmt":
        names = used_names(h)
    elif h.get("kind") == "op":
        names = op_names(h)
    else:
        return None
    if h.get("kind") in ("stmt", "op") and any("\t" in n for n in names):
        return FINDING_IDS["tab"]
    if any(n.endswith("\n") for n in names):
        return FINDING_IDS["nl"]
    if h["dialect"] in ("postgresql", "mysql") and any("%" in n for n in names):
        return FINDING_IDS["pct"]
    return None


_STATS = {}


def in_class(h):
    if h["kind"] == "params":
        return True
    return all(n and "\t" not in n and not n.endswith("\n") and not (h["dialect"] in PCT_DIALECTS and "%" in n)
               and not (f == "false" and needs_quotes(h["dialect"], n)) for n, f in flagged_names(h))


WITNESSES = {
    "pct": dict(kind="stmt", dialect="postgresql", construct=["DropColumn"], schema=None, table="a%b", column="c",
                newtable="t_new", newcolumn="c_new"),
    "tab": dict(kind="stmt", dialect="sqlite", construct=["DropColumn"], schema=None, table="a\tb", column="c",
                newtable="t_new", newcolumn="c_new"),
    "nl": dict(kind="stmt", dialect="postgresql", construct=["DropColumn"], schema=None, table="select\n", column="c",
               newtable="t_new", newcolumn="c_new"),
    "unq": dict(kind="stmt", dialect="postgresql", construct=["DropColumn"], schema=None, table="my table", column="c",
                newtable="t_new", newcolumn="c_new", flags={"table": "false"}),
    "sadot": dict(kind="stmt", dialect="mysql", construct=["MysqlDropCheck"], schema="db.sch", table="t", column="ck",
                  newtable="t_new", newcolumn="c_new"),
}


def bound_column_witness():
    """outside the modelled inputs (column given as a table-bound Column object, not a str): _sql_literal(colname) is
    str(Column) = 'tbl.col', so the col_name(...) comparison literal names the wrong thing"""
    import sqlalchemy as sa
    from alembic.ddl import mssql
    c, _, _ = _ctx("mssql")
    t = sa.Table("tbl", sa.MetaData(), sa.Column("col", sa.Integer))
    sql = str(mssql._ExecDropConstraint("tbl", t.c.col, "sys.default_constraints", None).compile(dialect=c.dialect))
    return {"input": "_ExecDropConstraint('tbl', <Column col bound to Table tbl>, 'sys.default_constraints', None) as built by "
                     "MSSQLImpl.drop_column(mssql_drop_default=True) for DropColumnOp.from_column_and_tablename / a reversed AddColumnOp",
            "impl_output": sql, "deviates": "= 'tbl.col'" in sql}


def extra_evidence():
    """measured distribution + the three refutation witnesses replayed on the real code"""
    ev = dict(_STATS)
    wit = {}
    outside = {}
    for k, h in WITNESSES.items():
        out = run_case(h)["out"]
        if k in FINDING_IDS:
            wit[FINDING_IDS[k]] = {"input": h, "impl_output": out}
        else:
            outside[k] = {"input": h, "impl_output": out}
    ev["outside_class_witnesses_on_impl"] = outside
    wit["C14-mssql-drop-constraint-bound-column"] = bound_column_witness()
    ev["finding_witnesses_on_impl"] = wit
    ev["registered_findings"] = sorted(registered_findings())
    ev["canaries_by_kind"] = dict(CANARY_KINDS)
    return ev


def dump_reserved(path=None):
    """regenerate coq/Model/C14Reserved.v from the installed SQLAlchemy (run by hand when SQLAlchemy is upgraded;
    every check run compares the table with the live preparer through the 'params' cases)"""
    import sqlalchemy
    lines = ["(* GENERATED from SQLAlchemy %s by harness/props/c14.py:dump_reserved() -- IdentifierPreparer parameters of the six"
             % sqlalchemy.__version__,
             "   dialects.  Outside alembic: trusted, and re-checked against the installed SQLAlchemy on every run (kind \"params\"). *)",
             "From Coq Require Import List NArith String.", "From AV Require Import Model.Quote.", "Import ListNotations.",
             "Local Open Scope N_scope.", "Local Open Scope string_scope.", ""]
    for d in DIALECTS:
        c, _, _ = _ctx(d)
        rows, cur = [], "  "
        for w in sorted(c.dialect.identifier_preparer.reserved_words):
            item = '"%s"; ' % w
            if len(cur) + len(item) > 110:
                rows.append(cur.rstrip())
                cur = "  "
            cur += item
        rows.append(cur.rstrip().rstrip(";"))
        lines.append("Definition reserved_%s : list str := map s2l [\n%s\n]." % (d, "\n".join(rows)))
        lines.append("")
    lines.append("""Definition digits_dollar : list N := [36; 48; 49; 50; 51; 52; 53; 54; 55; 56; 57].

Definition qspec_of (d:dialect) : qspec :=
  match d with
  | Sqlite     => mkQ 34 34 false reserved_sqlite digits_dollar false
  | Postgresql => mkQ 34 34 true  reserved_postgresql digits_dollar false
  | Mysql      => mkQ 96 96 true  reserved_mysql digits_dollar true
  | Mssql      => mkQ 91 93 false reserved_mssql digits_dollar false
  | Oracle     => mkQ 34 34 false reserved_oracle (digits_dollar ++ [95]) false
  | Mariadb    => mkQ 96 96 true  reserved_mariadb digits_dollar true
  end.
""")
    txt = "\n".join(lines)
    if path:
        open(path, "w").write(txt)
    return txt


# ----------------------------------------------------------------------------- canaries

def _unjudged(h):
    """outside what the decider judges (Spec.judged): a quote=False name that needs quotes in ANY name slot of the env,
    or the MySQL DROP CHECK visitor with a plain dotted schema"""
    fl = h.get("flags") or {}
    if h["kind"] == "quote":
        return h.get("flag") == "false" and needs_quotes(h["dialect"], h["s"])
    for slot in SLOTS:
        if fl.get(slot, "plain") == "false" and h.get(slot) and needs_quotes(h["dialect"], h[slot]):
            return True
    sa_formatted = (h["kind"] == "stmt" and h["construct"][0] == "MysqlDropCheck") or (h["kind"] == "op" and h["op"][0] == "exclude")
    if sa_formatted and h["schema"] and "." in h["schema"] and fl.get("schema", "plain") == "plain":
        return True
    return False


def _schema_prefix(h):
    """the rendered schema prefix of a table reference, computed with the implementation's own helpers"""
    if not h.get("schema"):
        return None
    from alembic.ddl import base
    c, _, _ = _ctx(h["dialect"], h.get("state", "bare"))
    try:
        return base.quote_dotted(nm(h, "schema"), c.dialect.identifier_preparer.quote) + "."
    except IndexError:
        return None


def _text_corruptions(h, compiled, offline):
    """(kind, compiled', offline') : statements that no longer read back as the expected tokens"""
    out = []
    # 1. the schema no longer qualifies the table reference
    pre = _schema_prefix(h)
    if pre and pre in compiled and pre in offline:
        out.append(("schema-dropped", compiled.replace(pre, "", 1), offline.replace(pre, "", 1)))
    # 2. an identifier loses its quotes
    qo = {"mssql": "["}.get(h["dialect"], QUOTE_CHAR[h["dialect"]])
    qc = QUOTE_CHAR[h["dialect"]]
    i = compiled.find(qo)
    if i >= 0:
        j = compiled.find(qc, i + 1)
        if j > i + 1:
            frag = compiled[i:j + 1]
            if frag in offline:
                out.append(("identifier-unquoted", compiled.replace(frag, frag[1:-1], 1), offline.replace(frag, frag[1:-1], 1)))
    # 3. one character of a name changed
    t = h["table"]
    if t and t in compiled and t in offline:
        bad = t + "z"
        out.append(("name-character-changed", compiled.replace(t, bad, 1), offline.replace(t, bad, 1)))
    # 4. the as_sql text loses its terminator / batch separator
    term = {"oracle": "/", "mssql": "GO"}.get(h["dialect"], ";")
    k = offline.rfind(term)
    if k >= 0:
        out.append(("offline-terminator-lost", compiled, offline[:k] + offline[k + len(term):]))
    # 5. the as_sql text carries the statement twice
    out.append(("offline-duplicated", compiled, compiled + " " + offline))
    return [(k, a, b) for k, a, b in out if (a, b) != (compiled, offline)]


def _coq_ostep(r, compiled=None, offline=None, construct=None):
    if "err" in r and compiled is None:
        o = "(OutErr %s)" % r["err"]
    else:
        o = "(OutSql %s %s)" % (enc(r["compiled"] if compiled is None else compiled), enc(r["offline"] if offline is None else offline))
    return "(mkO %s %s %s %s %s %s %s)" % (coq_construct(construct or r["construct"]), enc(r["table"]), enc(r["column"]),
                                         cf.opt(r["schema"], enc), enc(r["newname"]), enc(r["newtable"]), o)


CANARY_KINDS = {}


def canary(h, rec):
    """corrupted outputs the decider must reject"""
    out = rec.get("out") or {}
    if h["kind"] == "params" or _unjudged(h) or classify(h, out) is not None:
        return []
    res = []
    if h["kind"] == "stmt":
        if "err" in out:
            # an error turned into success: a pair whose visitor raises must not emit anything
            if out["err"] in ("ENotImplemented", "ECompile", "EAssert"):
                res.append(("error-turned-into-statement", "ObsStmt (OutSql %s %s)" % (enc("ALTER TABLE t"), enc("ALTER TABLE t;\n\n"))))
        else:
            for k, a, b in _text_corruptions(h, out["compiled"], out["offline"]):
                res.append((k, "ObsStmt (OutSql %s %s)" % (enc(a), enc(b))))
    elif h["kind"] == "quote":
        q = out.get("quoted")
        if q is not None and h["s"]:
            qc = QUOTE_CHAR[h["dialect"]]
            if q != h["s"] or h.get("flag") == "true":          # it was quoted
                res.append(("identifier-unquoted", "ObsQuote (Some %s)" % enc(q[1:-1])))
                res.append(("closing-quote-lost", "ObsQuote (Some %s)" % enc(q[:-1])))
                if qc in h["s"]:
                    res.append(("escape-lost", "ObsQuote (Some %s)" % enc(q[0] + h["s"] + q[-1])))
            res.append(("name-character-changed", "ObsQuote (Some %s)" % enc(q[:1] + "z" + q[1:])))
    elif h["kind"] == "op":
        steps = out.get("steps") or []
        idx = [i for i, r in enumerate(steps) if "err" not in r and r["construct"][0] != "Foreign"]
        if idx:
            i = idx[-1]
            r = steps[i]

            def with_step(new):
                return "ObsOp %s %s" % (cf.lst([new if j == i else _coq_ostep(x) for j, x in enumerate(steps)]),
                                        cf.opt(out.get("raised")))
            for k, a, b in _text_corruptions(h, r["compiled"], r["offline"]):
                res.append((k, with_step(_coq_ostep(r, a, b))))
            # the statement attributed to another construct (a field of the observation swapped)
            other = ["DropColumn"] if r["construct"][0] != "DropColumn" else ["RenameTable"]
            res.append(("construct-swapped", with_step(_coq_ostep(r, construct=other))))
    final = []
    for k, term in res:
        if term != rec.get("cout"):
            CANARY_KINDS[k] = CANARY_KINDS.get(k, 0) + 1
            final.append(term)
    return final
